"""
Equivalence check for twin3 (SDOF energy spectra written with equivalent NumPy routines / bit-identical regrouping).

Run with twin3 applied, cwd = the worktree:   /venv/bin/python out/equiv3.py
The ORIGINAL package is taken from git (`git archive HEAD eqsig`) into a temporary directory; original and
edited package are each exercised in their own subprocess on the same battery of inputs and the pickled
outcomes (values bit-for-bit, dtypes, shapes, python types, exceptions, argument mutation, object state) are compared.
Exit status 0 iff everything matches.
"""
import os
import pickle
import subprocess
import sys
import tempfile

EDITED_FILES = ['eqsig/sdof.py']


# ---------------------------------------------------------------------------------------------------------------------
# encoding of outcomes (strict: type + dtype + shape + bytes)
def enc(x):
    import numpy as np
    if isinstance(x, np.ndarray):
        return ('nd', x.dtype.str, x.shape, np.ascontiguousarray(x).tobytes())
    if isinstance(x, np.generic):
        return ('ns', type(x).__name__, x.tobytes())
    if isinstance(x, (tuple, list)):
        return (type(x).__name__, [enc(v) for v in x])
    if isinstance(x, dict):
        return ('dict', [(k, enc(x[k])) for k in sorted(x)])
    if isinstance(x, (bool, int, float, str, type(None))):
        return (type(x).__name__, repr(x))
    raise TypeError('cannot encode %r' % type(x))


def call(f, *args, **kwargs):
    import warnings
    try:
        with warnings.catch_warnings(record=True) as wl:
            warnings.simplefilter('always')
            out = f(*args, **kwargs)
        return ('ok', enc(out), sorted(set(str(w.category.__name__) for w in wl)))
    except Exception as e:  # noqa
        return ('exc', type(e).__name__, str(e))


# ---------------------------------------------------------------------------------------------------------------------
def full_state(asig):
    """the complete instance dictionary of a signal object"""
    d = {}
    for k, v in asig.__dict__.items():
        try:
            d[k] = enc(v)
        except TypeError:
            d[k] = ('obj', type(v).__name__)
    return ('state', [(k, d[k]) for k in sorted(d)])


def battery():
    import copy
    import types
    import numpy as np
    import eqsig
    from eqsig import sdof
    res = []

    def rec(tag, val):
        res.append((tag, val))

    rng = np.random.RandomState(30926)
    records = [('rand5000', rng.randn(5000)), ('rand1300', rng.randn(1300) * 0.2), ('rand129', rng.randn(129)),
               ('rand128', rng.randn(128)), ('rand17', rng.randn(17)), ('rand9', rng.randn(9)), ('rand8', rng.randn(8)),
               ('rand3', rng.randn(3)), ('rand2', rng.randn(2)), ('rand1', rng.randn(1)),
               ('zeros', np.zeros(40)), ('int', rng.randint(-6, 7, size=75)), ('f32', rng.randn(66).astype(np.float32)),
               ('list', list(rng.randn(33))), ('tuple', tuple(rng.randn(21))),
               ('spike', np.concatenate([np.zeros(5), [2.5], np.zeros(60)])), ('sine', np.sin(0.2 * np.arange(500)) * 3),
               ('big', rng.randn(200) * 1e6), ('tiny', rng.randn(200) * 1e-9)]
    dts = [0.005, 0.01, 0.05, 0.5]
    xis = [None, 0.0, 0.05, 0.5, 0.99]

    def period_sets(dt):
        base = [0.5 * dt, 2 * dt, 5.99 * dt, 6 * dt, 6.01 * dt, 25 * dt, 1.0, 4.0]
        yield 'None', None
        yield 'arr', np.array(base)
        yield 'arr0', np.array([0.0] + base)
        yield 'list', list(base)
        yield 'list0', [0] + list(base)
        yield 'tuple', tuple(base)
        yield 'tuple0', (0.0,) + tuple(base)
        yield 'one', [0.4]
        yield 'onlyzero', [0.0]
        yield 'ints', [1, 2, 3]
        yield 'ints0', np.array([0, 1, 3])
        yield 'linspace', np.linspace(0.05, 3, 57)
        yield 'empty', []
        yield 'scalar', 0.7

    for rname, r in records:
        for dt in (dts if len(r) < 2000 else [0.01]):
            asig = eqsig.AccSignal(copy.deepcopy(r), dt)
            asig_rt0 = eqsig.AccSignal(copy.deepcopy(r), dt, response_times=(0, 3 * dt, 0.2, 1.5))
            duck = types.SimpleNamespace(values=copy.deepcopy(r), dt=dt, response_times=[0.1, 0.7])
            st0 = full_state(asig)
            for pname, p in period_sets(dt):
                for xi in (xis if len(r) < 200 else [None, 0.0, 0.2]):
                    p_in = copy.deepcopy(p)
                    tag = '%s dt=%s p=%s xi=%s' % (rname, dt, pname, xi)
                    rec('uke ' + tag, call(sdof.calc_resp_uke_spectrum, asig, p_in, xi))
                    rec('uke kw ' + tag, call(sdof.calc_resp_uke_spectrum, asig, periods=p_in, xi=xi))
                    rec('ie ' + tag, call(sdof.calc_input_energy_spectrum, asig, p_in, xi))
                    rec('ie series ' + tag, call(sdof.calc_input_energy_spectrum, asig, periods=p_in, xi=xi, series=True))
                    rec('ie series pos ' + tag, call(sdof.calc_input_energy_spectrum, asig, p_in, xi, 1))
                    rec('ie series0 ' + tag, call(sdof.calc_input_energy_spectrum, asig, p_in, xi, series=0))
                    if p is not None:
                        assert type(p_in) is type(p) and np.asarray(p_in).tobytes() == np.asarray(p).tobytes()
                    if pname in ('None', 'list0', 'arr'):
                        rec('uke rt0 ' + tag, call(sdof.calc_resp_uke_spectrum, asig_rt0, p_in, xi))
                        rec('ie rt0 ' + tag, call(sdof.calc_input_energy_spectrum, asig_rt0, p_in, xi, series=True))
                        rec('uke duck ' + tag, call(sdof.calc_resp_uke_spectrum, duck, p_in, xi))
                        rec('ie duck ' + tag, call(sdof.calc_input_energy_spectrum, duck, p_in, xi))
                        rec('ie duck series ' + tag, call(sdof.calc_input_energy_spectrum, duck, p_in, xi, True))
            # the functions only read the signal
            assert full_state(asig) == st0, rname
            assert np.asarray(duck.values).tobytes() == np.asarray(r).tobytes() and type(duck.values) is type(r)
            rec('state ' + rname + str(dt), full_state(asig))
            rec('state rt0 ' + rname + str(dt), full_state(asig_rt0))

    # results are fresh arrays with the documented layout (one row per period, one column per time step)
    asig = eqsig.AccSignal(rng.randn(50), 0.01)
    out = sdof.calc_input_energy_spectrum(asig, [0, 0.1, 1.0], 0.05, series=True)
    rec('flags', enc([out.flags['C_CONTIGUOUS'], out.flags['OWNDATA'], out.flags['WRITEABLE'], out.base is None]))
    out = sdof.calc_input_energy_spectrum(asig, [0, 0.1, 1.0], 0.05)
    rec('flags2', enc([out.flags['C_CONTIGUOUS'], out.flags['OWNDATA'], out.flags['WRITEABLE'], out.base is None]))
    out = sdof.calc_resp_uke_spectrum(asig, [0, 0.1, 1.0], 0.05)
    rec('flags3', enc([out.flags['C_CONTIGUOUS'], out.flags['OWNDATA'], out.flags['WRITEABLE'], out.base is None]))

    # after edits of the signal
    asig = eqsig.AccSignal(rng.randn(150), 0.02, response_times=[0, 0.05, 0.5])
    for step in range(3):
        rec('hist ie %i' % step, call(sdof.calc_input_energy_spectrum, asig))
        rec('hist uke %i' % step, call(sdof.calc_resp_uke_spectrum, asig))
        rec('hist s_a %i' % step, call(lambda: asig.s_a))
        rec('hist state %i' % step, full_state(asig))
        asig.add_constant(0.1 * (step + 1))
        asig.response_times = np.array([0.0, 0.1 * (step + 1), 1.0])
    return res


# ---------------------------------------------------------------------------------------------------------------------
def worker(root, outfile):
    sys.path.insert(0, root)
    os.chdir(root)
    import eqsig
    assert os.path.realpath(eqsig.__file__).startswith(os.path.realpath(root) + os.sep), (eqsig.__file__, root)
    res = battery()
    with open(outfile, 'wb') as f:
        pickle.dump(res, f)


def main():
    here = os.getcwd()
    assert os.path.isdir(os.path.join(here, 'eqsig')) and os.path.exists(os.path.join(here, '.git')), 'run in the worktree'
    tmp = tempfile.mkdtemp(prefix='equiv3_', dir='/tmp')
    orig = os.path.join(tmp, 'orig')
    os.mkdir(orig)
    subprocess.check_call('git archive HEAD eqsig | tar -x -C %s' % orig, shell=True, cwd=here)
    differs = False
    for fn in EDITED_FILES:
        with open(os.path.join(here, fn)) as f1, open(os.path.join(orig, fn)) as f2:
            differs = differs or f1.read() != f2.read()
    assert differs, 'the twin is not applied: edited files are identical to HEAD'
    outs = []
    for name, root in [('orig', orig), ('edit', here)]:
        out = os.path.join(tmp, name + '.pkl')
        env = dict(os.environ)
        env.pop('PYTHONPATH', None)
        subprocess.check_call([sys.executable, os.path.abspath(__file__), '--worker', root, out], cwd=root, env=env)
        with open(out, 'rb') as f:
            outs.append(pickle.load(f))
    a, b = outs
    assert len(a) == len(b), (len(a), len(b))
    bad = 0
    n_ok = n_exc = 0
    for (ta, va), (tb, vb) in zip(a, b):
        assert ta == tb
        if va != vb:
            bad += 1
            if bad < 20:
                print('MISMATCH', ta, '\n   orig:', str(va)[:300], '\n   edit:', str(vb)[:300])
        if va[0] == 'exc':
            n_exc += 1
        else:
            n_ok += 1
    print('%i outcomes compared (%i normal, %i exceptions), %i mismatches' % (len(a), n_ok, n_exc, bad))
    import shutil
    shutil.rmtree(tmp, ignore_errors=True)
    sys.exit(1 if bad else 0)


if __name__ == '__main__':
    if len(sys.argv) > 1 and sys.argv[1] == '--worker':
        worker(sys.argv[2], sys.argv[3])
    else:
        main()

#!/usr/bin/env python
"""
Equivalence check for twin1 (eqsig.im.calc_brac_dur: IndexError handler -> explicit emptiness check).

Run with twin1 applied and cwd = the worktree:

    /venv/bin/python out/equiv1.py

The ORIGINAL package is extracted from git (HEAD) into a temporary directory under /tmp.  The same
deterministic battery of calls is executed in two subprocesses (one importing the original package, one
importing the edited worktree) and the pickled, canonically encoded results (values bit-for-bit, types,
dtypes, shapes, exceptions, warnings, argument mutation and object state) are compared.
Exit status 0 iff everything matches.
"""
import os
import pickle
import shutil
import subprocess
import sys
import tempfile
import types
import warnings

WORKTREE = os.getcwd() if os.path.isdir(os.path.join(os.getcwd(), 'eqsig')) else \
    os.path.dirname(os.path.dirname(os.path.abspath(__file__)))


# ----------------------------------------------------------------------------------------------------------
# canonical encoding (bit exact, NaN safe, type / dtype / shape sensitive)
# ----------------------------------------------------------------------------------------------------------
def encode(obj):
    import numpy as np
    if isinstance(obj, np.ndarray):
        return ('ndarray', obj.dtype.str, obj.shape, np.ascontiguousarray(obj).tobytes())
    if isinstance(obj, np.generic):
        return ('npscalar', type(obj).__name__, obj.dtype.str, obj.tobytes())
    if isinstance(obj, bool) or obj is None or isinstance(obj, (int, str)):
        return (type(obj).__name__, obj)
    if isinstance(obj, float):
        return ('float', obj.hex())
    if isinstance(obj, (tuple, list)):
        return (type(obj).__name__, [encode(o) for o in obj])
    if isinstance(obj, dict):
        return ('dict', [(k, encode(v)) for k, v in obj.items()])  # insertion order matters
    if isinstance(obj, BaseException):
        return ('exception', type(obj).__name__, str(obj))
    return ('repr', type(obj).__name__, repr(obj))


def call(fn, *args, **kwargs):
    """Call and encode the outcome (result or exception) together with the emitted warnings"""
    with warnings.catch_warnings(record=True) as wlist:
        warnings.simplefilter('always')
        try:
            out = fn(*args, **kwargs)
        except Exception as e:  # noqa
            out = e
    return encode(out), [(w.category.__name__, str(w.message)) for w in wlist]


def state_of(asig):
    """Public + private state of a signal object that the functions under test could touch"""
    d = {}
    for k, v in asig.__dict__.items():
        d[k] = v
    return encode(d)


# ----------------------------------------------------------------------------------------------------------
# the battery
# ----------------------------------------------------------------------------------------------------------
def compute(eqsig):
    import numpy as np
    rng = np.random.default_rng(20240410)
    results = []

    def add(label, val):
        results.append((label, val))

    dts = [0.01, 0.005, 0.1, 1, 1.0, np.float32(0.02), np.float64(0.0125), 1.0 / 3.0, 2.5e-3]

    records = []
    for n in [1, 2, 3, 5, 17, 64, 256, 2000]:
        for rep in range(3):
            records.append(('rand_n%i_%i' % (n, rep), rng.standard_normal(n) * 10.0 ** rng.integers(-3, 2)))
    records.append(('zeros5', np.zeros(5)))
    records.append(('zeros1', np.zeros(1)))
    records.append(('ones7', np.ones(7)))
    records.append(('neg_ones4', -np.ones(4)))
    records.append(('int_rec', np.array([0, 3, -4, 1, 0, 4, -2, 0, 0], dtype=int)))
    records.append(('int32_rec', np.array([0, 1, -1, 2, -2, 0], dtype=np.int32)))
    records.append(('list_rec', [0.0, 0.5, -1.5, 0.25, 1.5, 0.0, -0.1]))
    records.append(('list_int_rec', [0, 2, -3, 3, 1]))
    records.append(('plateau', np.array([0., 0.1, 0.5, 0.5, -0.5, 0.2, 0.5, 0.1, 0.])))
    records.append(('single_spike', np.array([0., 0., 0., 2.0, 0., 0.])))
    records.append(('spike_first', np.array([3.0, 0., 0., 0., 0.])))
    records.append(('spike_last', np.array([0., 0., 0., 0., -3.0])))
    records.append(('with_nan', np.array([0., 1.0, np.nan, -2.0, 0.5, 0.])))
    records.append(('with_inf', np.array([0., 1.0, np.inf, -2.0, 0.5, 0.])))
    records.append(('float32_rec', rng.standard_normal(50).astype(np.float32)))
    t = np.arange(1500) * 0.01
    records.append(('sweep', np.sin(2 * np.pi * t * (0.5 + t)) * np.exp(-((t - 6) / 3) ** 2) * 3.0))

    for rname, rec in records:
        arr = np.abs(np.asarray(rec, dtype=float))
        finite = arr[np.isfinite(arr)]
        amax = float(finite.max()) if finite.size else 0.0
        thresholds = [0, 0.0, 1e-300, amax, amax * 0.5, amax * (1 + 1e-12), 2 * amax + 1.0, np.float64(amax * 0.25),
                      1, np.nan, np.inf, np.float32(0.3)]
        # thresholds exactly equal to sample magnitudes (strict inequality matters)
        if finite.size:
            for q in [0, finite.size // 3, finite.size // 2, finite.size - 1]:
                thresholds.append(float(np.sort(finite)[q]))
            thresholds.append(float(rng.uniform(0, amax + 1e-9)))
        for di, dt in enumerate(dts if len(arr) <= 64 else dts[:4]):
            asig = eqsig.AccSignal(rec, dt)
            before_vals = asig.values.copy()
            before_state = state_of(asig)
            for ti, thr in enumerate(thresholds):
                lab = 'brac/%s/dt%i/thr%i' % (rname, di, ti)
                add(lab + '/default', call(eqsig.im.calc_brac_dur, asig, thr))
                add(lab + '/se=False', call(eqsig.im.calc_brac_dur, asig, thr, se=False))
                add(lab + '/se=True', call(eqsig.im.calc_brac_dur, asig, thr, se=True))
                add(lab + '/pos_se', call(eqsig.im.calc_brac_dur, asig, thr, True))
                add(lab + '/se=1', call(eqsig.im.calc_brac_dur, asig, thr, se=1))
                add(lab + '/se=0', call(eqsig.im.calc_brac_dur, asig, thr, se=0))
                add(lab + '/deprecated', call(eqsig.im.calc_bracketed_duration, asig, thr))
            add('brac/%s/dt%i/values_untouched' % (rname, di), bool(np.array_equal(before_vals, asig.values, equal_nan=True)))
            add('brac/%s/dt%i/state' % (rname, di), (before_state == state_of(asig), state_of(asig)))

            # record and threshold scaled together
            if np.asarray(rec).dtype.kind == 'f' and not isinstance(rec, list):
                for fac in [2.0, 0.5, 8.0]:
                    asig2 = eqsig.AccSignal(np.asarray(rec) * fac, dt)
                    for ti, thr in enumerate(thresholds[:8]):
                        add('brac_scaled/%s/dt%i/f%s/thr%i' % (rname, di, fac, ti),
                            call(eqsig.im.calc_brac_dur, asig2, thr * fac, se=True))

        # duck typed record (only .values, .dt, .npts are used)
        arr_raw = np.asarray(rec)
        duck = types.SimpleNamespace(values=arr_raw, dt=0.02, npts=len(arr_raw))
        for ti, thr in enumerate(thresholds):
            add('brac_duck/%s/thr%i' % (rname, ti), call(eqsig.im.calc_brac_dur, duck, thr, se=bool(ti % 2)))

    # multi step history on one object: thresholds in sequence, then new values, then again
    asig = eqsig.AccSignal(rng.standard_normal(300), 0.02)
    for step in range(3):
        for thr in [0.0, 0.5, 1.0, 2.0, 5.0, 1.0, 0.0]:
            add('hist/step%i/thr%s' % (step, thr), call(eqsig.im.calc_brac_dur, asig, thr))
            add('hist/step%i/thr%s/se' % (step, thr), call(eqsig.im.calc_brac_dur, asig, thr, se=True))
        add('hist/step%i/state' % step, state_of(asig))
        if step == 0:
            asig.reset_values(rng.standard_normal(41) * 0.3)
        elif step == 1:
            asig.add_constant(0.7)
    # zero padded record: k zeros prepended
    base = rng.standard_normal(120)
    for k in [0, 1, 5, 33]:
        asig = eqsig.AccSignal(np.concatenate([np.zeros(k), base]), 0.01)
        for thr in [0.0, 0.3, 1.0, 10.0]:
            add('prepend/k%i/thr%s' % (k, thr), call(eqsig.im.calc_brac_dur, asig, thr, se=True))
    return results


# ----------------------------------------------------------------------------------------------------------
# driver
# ----------------------------------------------------------------------------------------------------------
def worker(pkg_root, out_file):
    sys.path.insert(0, pkg_root)
    import eqsig
    assert os.path.abspath(eqsig.__file__).startswith(os.path.abspath(pkg_root) + os.sep), eqsig.__file__
    res = compute(eqsig)
    with open(out_file, 'wb') as f:
        pickle.dump(res, f)


def run_worker(pkg_root, out_file):
    env = dict(os.environ)
    env.pop('PYTHONPATH', None)
    subprocess.check_call([sys.executable, os.path.abspath(__file__), '--worker', pkg_root, out_file],
                          cwd=pkg_root, env=env)
    with open(out_file, 'rb') as f:
        return pickle.load(f)


def main():
    tmp = tempfile.mkdtemp(prefix='eqsig_orig_C10_1_', dir='/tmp')
    try:
        orig_root = os.path.join(tmp, 'orig')
        os.makedirs(orig_root)
        subprocess.check_call('git archive HEAD eqsig | tar -x -C "%s"' % orig_root, shell=True, cwd=WORKTREE)
        res_o = run_worker(orig_root, os.path.join(tmp, 'orig.pkl'))
        res_e = run_worker(WORKTREE, os.path.join(tmp, 'edit.pkl'))
    finally:
        shutil.rmtree(tmp, ignore_errors=True)
    n_bad = 0
    if len(res_o) != len(res_e):
        print('different number of results: %i vs %i' % (len(res_o), len(res_e)))
        n_bad += 1
    for (lab_o, val_o), (lab_e, val_e) in zip(res_o, res_e):
        if lab_o != lab_e or val_o != val_e:
            n_bad += 1
            if n_bad < 20:
                print('MISMATCH %s:\n   orig: %r\n   edit: %r' % (lab_o, val_o, val_e))
    n_exc = sum(1 for _, v in res_o if isinstance(v, tuple) and len(v) == 2 and isinstance(v[0], tuple)
                and v[0] and v[0][0] == 'exception')
    print('%i comparisons (%i of them exceptions), %i mismatches' % (len(res_o), n_exc, n_bad))
    return 1 if n_bad else 0


if __name__ == '__main__':
    if len(sys.argv) >= 2 and sys.argv[1] == '--worker':
        worker(sys.argv[2], sys.argv[3])
    else:
        sys.exit(main())

"""
Equivalence check for twin3 (C17): the coefficient loop that accumulates the
best-fit polynomial in Signal.remove_poly and eqsig.fns.generic.remove_poly is
replaced by a list of per-coefficient rows reduced with np.sum(terms, axis=0).

Run with twin3 applied and cwd = the worktree.  The ORIGINAL package is taken
from `git archive HEAD eqsig`; original and edited package are each driven by
the same worker in their own subprocess and the pickled observations are
compared bit-for-bit (dtype, shape, raw bytes, object state, aliasing).
"""
import os
import pickle
import subprocess
import sys
import tempfile

WORKER = r'''
import sys, pickle, warnings
root, out_path = sys.argv[1], sys.argv[2]
sys.path.insert(0, root)
import numpy as np
import eqsig
assert eqsig.__file__.startswith(root), (eqsig.__file__, root)
from eqsig.single import Signal, AccSignal
warnings.simplefilter("ignore")


def enc(v):
    if isinstance(v, np.ndarray):
        return ('nd', v.dtype.str, v.shape, v.tobytes())
    if isinstance(v, np.generic):
        return ('sc', type(v).__name__, v.tobytes())
    if isinstance(v, dict):
        return ('dict', tuple((repr(k), enc(v[k])) for k in sorted(v, key=repr)))
    if isinstance(v, (list, tuple)):
        return (type(v).__name__, tuple(enc(i) for i in v))
    if isinstance(v, float):
        return ('float', np.float64(v).tobytes())
    return ('py', type(v).__name__, repr(v))


def state(obj):
    return tuple((k, enc(val)) for k, val in sorted(vars(obj).items()))


def attempt(fn):
    try:
        return ('ok', enc(fn()))
    except Exception as e:  # noqa
        return ('exc', type(e).__name__, str(e))


rng = np.random.RandomState(9876)
obs = []
from eqsig.fns.generic import remove_poly as remove_poly_fn
import eqsig.fns
assert eqsig.fns.remove_poly is remove_poly_fn


def make_values(kind, n):
    x = np.linspace(-1.0, 2.0, n)
    if kind == 'randn':
        return rng.randn(n)
    if kind == 'poly+noise':
        c = rng.randn(5) * 10.0 ** rng.randint(-3, 4, size=5)
        return np.polyval(c, x) + 0.01 * rng.randn(n)
    if kind == 'exactpoly':
        return 3.0 - 2.0 * x + 0.5 * x ** 2
    if kind == 'list':
        return list(rng.randn(n) + 5.0)
    if kind == 'tuple':
        return tuple(rng.randn(n) - 2.0)
    if kind == 'int':
        return rng.randint(-50, 50, size=n)
    if kind == 'intlist':
        return [int(i) for i in rng.randint(-50, 50, size=n)]
    if kind == 'zeros':
        return np.zeros(n)
    if kind == 'negzeros':
        return -np.zeros(n)
    if kind == 'mixedzeros':
        v = np.zeros(n)
        v[::2] = -0.0
        return v
    if kind == 'const':
        return np.full(n, -7.25)
    if kind == 'f32':
        return (rng.randn(n) + 2).astype(np.float32)
    if kind == 'big':
        return 1e12 * rng.randn(n) + 1e15
    if kind == 'tiny':
        return 1e-200 * rng.randn(n)
    raise ValueError(kind)


kinds = ['randn', 'poly+noise', 'exactpoly', 'list', 'tuple', 'int', 'intlist', 'zeros', 'negzeros', 'mixedzeros',
         'const', 'f32', 'big', 'tiny']
# (records containing NaN are left out: np.polyfit fails inside LAPACK before the edited code is reached)
lengths = [1, 2, 3, 4, 5, 6, 7, 8, 9, 10, 16, 33, 100, 257, 1000]
degrees = [0, 1, 2, 3, 4, 5, 6, 7, 8, 10]

# ---- array level: eqsig.fns.generic.remove_poly --------------------------------------
for kind in kinds:
    for n in lengths + [0]:
        src = make_values(kind, n)
        src_before = enc(src)
        for deg in degrees:
            res = attempt(lambda: remove_poly_fn(src, poly_fit=deg))
            obs.append(('fn', kind, n, deg, res, enc(src) == src_before))
        res = attempt(lambda: remove_poly_fn(src))
        res_pos = attempt(lambda: remove_poly_fn(src, 2))
        obs.append(('fn-default', kind, n, res, res_pos, enc(src) == src_before))
        # idempotence chain on the returned arrays
        chain = []
        cur = src
        for deg in (3, 3, 1, 0):
            r = attempt(lambda: remove_poly_fn(cur, deg))
            chain.append(r)
            if r[0] != 'ok':
                break
            cur = remove_poly_fn(cur, deg)
        obs.append(('fn-chain', kind, n, tuple(chain)))

# ---- object level: Signal.remove_poly / AccSignal.remove_poly ------------------------
for cls in (Signal, AccSignal):
    for kind in kinds:
        for n in lengths:
            src = make_values(kind, n)
            src_before = enc(src)
            for deg in degrees:
                sig = cls(src, 0.01)
                _ = sig.fa_spectrum
                if cls is AccSignal and n > 1:
                    _ = sig.velocity
                held = sig.values
                held_before = enc(held)
                res = attempt(lambda: sig.remove_poly(poly_fit=deg))
                obs.append(('obj', cls.__name__, kind, n, deg, res, state(sig), sig.values is held,
                            enc(held) == held_before, enc(src) == src_before))
            # default degree, positional degree and a multi-step history
            sig = cls(src, 0.02)
            r0 = attempt(lambda: sig.remove_poly())
            s0 = state(sig)
            r1 = attempt(lambda: sig.remove_poly(2))
            s1 = state(sig)
            sig.add_series(np.linspace(0.0, 0.2, sig.npts))
            _ = sig.fa_spectrum
            r2 = attempt(lambda: sig.remove_poly(poly_fit=1))
            s2 = state(sig)
            r3 = attempt(lambda: sig.remove_poly(poly_fit=1))
            s3 = state(sig)
            sig.add_constant(4)
            r4 = attempt(lambda: sig.remove_poly(4))
            obs.append(('obj-hist', cls.__name__, kind, n, r0, s0, r1, s1, r2, s2, r3, s3, r4, state(sig)))

# many random records, degrees 0..4
for trial in range(1500):
    n = int(rng.randint(2, 600))
    deg = int(rng.randint(0, 5))
    src = make_values(['randn', 'poly+noise', 'big', 'int'][trial % 4], n)
    sig = Signal(src, 0.01)
    res = attempt(lambda: sig.remove_poly(deg))
    obs.append(('rand', trial, n, deg, res, state(sig), attempt(lambda: remove_poly_fn(src, deg))))

with open(out_path, 'wb') as f:
    pickle.dump(obs, f)
'''


def main():
    here = os.getcwd()
    assert os.path.isdir(os.path.join(here, 'eqsig')), "run with cwd = the worktree"
    tmp = tempfile.mkdtemp(prefix='c17_equiv3_', dir='/tmp')
    orig = os.path.join(tmp, 'orig')
    os.makedirs(orig)
    subprocess.check_call('git archive HEAD eqsig | tar -x -C "%s"' % orig, shell=True, cwd=here)
    worker = os.path.join(tmp, 'worker.py')
    with open(worker, 'w') as f:
        f.write(WORKER)
    results = {}
    for name, root in (('orig', orig), ('new', here)):
        out_path = os.path.join(tmp, name + '.pkl')
        env = dict(os.environ)
        env.pop('PYTHONPATH', None)
        # LAPACK prints "DLASCL ... illegal value" lines for one-point records with degree >= 1 (np.polyfit then
        # raises LinAlgError in both versions); the worker output is only shown if the worker itself fails
        proc = subprocess.run([sys.executable, worker, root, out_path], cwd=root, env=env,
                              stdout=subprocess.PIPE, stderr=subprocess.STDOUT)
        if proc.returncode != 0:
            print(proc.stdout.decode(errors='replace')[-4000:])
            sys.exit(2)
        with open(out_path, 'rb') as f:
            results[name] = pickle.load(f)
    a, b = results['orig'], results['new']
    assert len(a) == len(b) and len(a) > 1000, (len(a), len(b))
    bad = [(x[:6], ) for x, y in zip(a, b) if x != y]
    if bad:
        print("MISMATCHES: %i of %i" % (len(bad), len(a)))
        for item in bad[:20]:
            print(item)
        sys.exit(1)
    n_exc = sum(1 for x in a for part in x if isinstance(part, tuple) and part[:1] == ('exc',))
    print("equiv3: %i observations identical (%i of them exceptions)" % (len(a), n_exc))
    sys.exit(0)


if __name__ == '__main__':
    main()

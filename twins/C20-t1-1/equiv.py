"""Equivalence check for twin1 (eqsig/fns/generic.py: interp2d, interp_left).

Run with twin1 applied, cwd = the worktree.  Loads the ORIGINAL generic.py from git HEAD,
executes it into a fresh module namespace and compares it with the edited module.
"""
import os
import subprocess
import sys
import types
import warnings

ROOT = os.getcwd()
sys.path.insert(0, ROOT)

import numpy as np  # noqa: E402
import eqsig  # noqa: E402
import eqsig.fns.generic as new  # noqa: E402

assert eqsig.__file__.startswith(ROOT), (eqsig.__file__, ROOT)
assert new.__file__.startswith(ROOT), new.__file__


def load_original(relpath, modname, package):
    src = subprocess.check_output(['git', 'show', 'HEAD:' + relpath], cwd=ROOT).decode()
    mod = types.ModuleType(modname)
    mod.__package__ = package
    mod.__file__ = '<HEAD:%s>' % relpath
    exec(compile(src, mod.__file__, 'exec'), mod.__dict__)
    return src, mod


src, old = load_original('eqsig/fns/generic.py', 'eqsig.fns._orig_generic', 'eqsig.fns')
assert src != open(os.path.join(ROOT, 'eqsig/fns/generic.py')).read(), "twin1 is not applied"

n_checks = 0


def same(a, b, ctx):
    """bit-for-bit equality incl. type, dtype and shape (NaNs compare equal)"""
    global n_checks
    n_checks += 1
    assert type(a) is type(b), (ctx, type(a), type(b))
    if isinstance(a, np.ndarray):
        assert a.dtype == b.dtype, (ctx, a.dtype, b.dtype)
        assert a.shape == b.shape, (ctx, a.shape, b.shape)
        if a.dtype.kind in 'fc':
            assert np.array_equal(a, b, equal_nan=True), (ctx, a, b)
            assert np.array_equal(np.signbit(a), np.signbit(b)), (ctx, 'signbit')
        else:
            assert np.array_equal(a, b), (ctx, a, b)
    elif isinstance(a, tuple):
        assert len(a) == len(b), ctx
        for p, q in zip(a, b):
            same(p, q, ctx)
    else:
        assert a == b or (a != a and b != b), (ctx, a, b)


def call(fn, *args, **kwargs):
    """returns ('ok', value) or ('exc', type, args) with warnings recorded"""
    with warnings.catch_warnings(record=True) as w:
        warnings.simplefilter('always')
        try:
            out = ('ok', fn(*args, **kwargs))
        except Exception as e:  # noqa
            out = ('exc', type(e), e.args)
    return out, sorted((str(x.category.__name__), str(x.message)) for x in w)


def compare(name, make_args, ctx, kwargs=None):
    kwargs = kwargs or {}
    args_o = make_args()
    args_n = make_args()
    keep_o = [a.copy() if isinstance(a, np.ndarray) else (list(a) if isinstance(a, list) else a) for a in args_o]
    ro, wo = call(getattr(old, name), *args_o, **kwargs)
    rn, wn = call(getattr(new, name), *args_n, **kwargs)
    assert wo == wn, (ctx, 'warnings', wo, wn)
    assert ro[0] == rn[0], (ctx, ro, rn)
    if ro[0] == 'ok':
        same(ro[1], rn[1], ctx)
    else:
        assert ro[1] is rn[1], (ctx, ro, rn)
        if ro[1] is AssertionError:
            same(tuple(ro[2]), tuple(rn[2]), ctx)
    # no mutation of the arguments, and identically so
    for k, (ao, an, ko) in enumerate(zip(args_o, args_n, keep_o)):
        if isinstance(ao, np.ndarray):
            assert np.array_equal(ao, ko, equal_nan=True), (ctx, 'old mutated arg', k)
            assert np.array_equal(an, ko, equal_nan=True), (ctx, 'new mutated arg', k)
        elif isinstance(ao, list):
            assert ao == ko and an == ko, (ctx, 'list arg mutated', k)
    return ro


rng = np.random.default_rng(20)

# ---------------------------------------------------------------- interp2d
# documented example + tests' examples
f_doc = np.array([[0, 0, 0], [0, 1, 4], [2, 6, 2], [10, 10, 10]])
xf_doc = np.array([0, 1, 2, 3])
compare('interp2d', lambda: (np.array([0.5, 1, 2.2, 2.5]), xf_doc.copy(), f_doc.copy()), 'doc')
compare('interp2d', lambda: (np.array([0.5, 1, 2.2, 2.5]), xf_doc.astype(float), f_doc.astype(float)), 'doc-float')
compare('interp2d', lambda: (np.array([0, 1, 2, 3]), xf_doc.copy(), f_doc.copy()), 'doc-int-on-nodes')
compare('interp2d', lambda: (np.array([-1, 0, 3, 4, 7]), xf_doc.copy(), f_doc.copy()), 'doc-int-outside')
compare('interp2d', lambda: (np.array([-1.5, 0.0, 3.0, 4.0, 1e9, -1e9]), xf_doc.copy(), f_doc.copy()), 'doc-outside')
compare('interp2d', lambda: (np.array([]), xf_doc.copy(), f_doc.copy()), 'empty-x')
compare('interp2d', lambda: (np.array([0.3, np.nan, np.inf, -np.inf]), xf_doc.astype(float), f_doc.astype(float)),
        'nan-inf')

for trial in range(600):
    n = int(rng.integers(1, 9))
    ncol = int(rng.integers(1, 5))
    kind = trial % 6
    if kind == 0:  # strictly increasing float nodes
        xf = np.cumsum(rng.uniform(0.01, 2.0, n)) + rng.uniform(-5, 5)
    elif kind == 1:  # integer nodes
        xf = np.cumsum(rng.integers(1, 4, n)) + int(rng.integers(-5, 5))
    elif kind == 2:  # non-decreasing with repeated nodes
        xf = np.cumsum(rng.integers(0, 2, n)).astype(float)
    elif kind == 3:  # strictly decreasing (monotone) nodes
        xf = -np.cumsum(rng.uniform(0.01, 2.0, n))
    elif kind == 4:  # float32 nodes
        xf = (np.cumsum(rng.uniform(0.01, 2.0, n))).astype(np.float32)
    else:  # very closely spaced nodes (exercise the 1e-10 guard)
        xf = np.cumsum(rng.choice([1e-11, 1e-10, 5e-10, 1.0], n))
    if trial % 4 == 0:
        f = rng.integers(-10, 10, (n, ncol))
    elif trial % 4 == 1:
        f = rng.normal(size=(n, ncol))
    elif trial % 4 == 2:
        f = rng.normal(size=n)  # 1-D table is not in the domain, but compare anyway (error or not)
    else:
        f = rng.normal(size=(n, ncol, 2))
    m = int(rng.integers(0, 12))
    lo, hi = float(np.min(xf)), float(np.max(xf))
    width = max(hi - lo, 1.0)
    x_in = rng.uniform(lo - 0.5 * width, hi + 0.5 * width, m)
    # put some queries exactly on nodes, on midpoints and just beside nodes
    extra = [xf.astype(float), 0.5 * (xf[:-1] + xf[1:]).astype(float),
             np.nextafter(xf.astype(float), np.inf), np.nextafter(xf.astype(float), -np.inf)]
    x = np.concatenate([x_in] + extra)
    rng.shuffle(x)
    if trial % 5 == 0:
        x = np.round(x).astype(int)
    elif trial % 5 == 1:
        x = x.astype(np.float32)
    compare('interp2d', lambda: (x.copy(), xf.copy(), f.copy()), ('interp2d', trial))

# inputs that are not arrays raise the same way
compare('interp2d', lambda: ([0.5, 1.0], xf_doc.copy(), f_doc.copy()), 'list-x')
compare('interp2d', lambda: (np.array([0.5, 1.0]), [0, 1, 2, 3], f_doc.copy()), 'list-xf')
compare('interp2d', lambda: (np.array([0.5, 1.0]), xf_doc.copy(), f_doc.tolist()), 'list-f')
compare('interp2d', lambda: (np.array([0.5, 1.0]), np.array([]), np.zeros((0, 2))), 'empty-xf')

# ---------------------------------------------------------------- interp_left
x_t = [0, 2, 6]
y_t = [1.5, 2.5, 3.5]
compare('interp_left', lambda: ([0, 1, 2, 5, 6, 7], list(x_t), list(y_t)), 'test-list')
compare('interp_left', lambda: ([0, 1, 2, 5, 6, 7], list(x_t)), 'test-list-noy')
compare('interp_left', lambda: (np.array([0, 1, 2, 5, 6, 7]), np.array(x_t), np.array(y_t)), 'test-arr')
compare('interp_left', lambda: ([-1, 0, 1], list(x_t), list(y_t)), 'below-first-node')
compare('interp_left', lambda: (-0.5, list(x_t), list(y_t)), 'scalar-below-first-node')
compare('interp_left', lambda: ([], list(x_t), list(y_t)), 'empty-x0')
compare('interp_left', lambda: (np.array(1.0), list(x_t), list(y_t)), '0-d-x0')
compare('interp_left', lambda: ((1, 2.5), tuple(x_t), tuple(y_t)), 'tuples')
for sc in [0, 1, 2, 5.9, 6, 6.0, 100, np.float64(3.0), np.int64(2), True]:
    compare('interp_left', lambda: (sc, list(x_t), list(y_t)), ('scalar', sc))
    compare('interp_left', lambda: (sc, np.array(x_t), None), ('scalar-noy', sc))
    compare('interp_left', lambda: (sc, np.array(x_t, dtype=float), np.array([[1, 2], [3, 4], [5, 6]])),
            ('scalar-2d-y', sc))

for trial in range(600):
    n = int(rng.integers(1, 10))
    kind = trial % 4
    if kind == 0:
        xs = np.cumsum(rng.uniform(0.01, 2.0, n)) + rng.uniform(-5, 5)
    elif kind == 1:
        xs = np.cumsum(rng.integers(1, 4, n)) + int(rng.integers(-5, 5))
    elif kind == 2:
        xs = np.cumsum(rng.integers(0, 2, n)).astype(float)  # repeated nodes
    else:
        xs = np.cumsum(rng.integers(0, 3, n))
    if trial % 3 == 0:
        ys = None
    elif trial % 3 == 1:
        ys = rng.normal(size=n)
    else:
        ys = rng.integers(-9, 9, n)
    m = int(rng.integers(0, 8))
    lo, hi = float(xs[0]), float(xs[-1])
    q = np.concatenate([rng.uniform(lo, hi + 2.0, m), xs.astype(float),
                        np.nextafter(xs.astype(float), np.inf), [hi + 10.0]])
    if trial % 7 == 0:  # sometimes include a value below the first node -> AssertionError in both
        q = np.concatenate([q, [lo - rng.uniform(0.1, 1.0)]])
    rng.shuffle(q)
    if trial % 5 == 0:
        q = np.ceil(q).astype(int)
    as_list = trial % 2 == 0

    def mk():
        a = q.tolist() if as_list else q.copy()
        b = xs.tolist() if as_list else xs.copy()
        c = None if ys is None else (ys.tolist() if as_list else ys.copy())
        return a, b, c
    compare('interp_left', mk, ('interp_left', trial))
    # one scalar query per trial, python and numpy scalars
    s = q[int(rng.integers(0, len(q)))]
    compare('interp_left', lambda: (s.item(), mk()[1], mk()[2]), ('interp_left-scalar', trial))
    compare('interp_left', lambda: (s, mk()[1], mk()[2]), ('interp_left-npscalar', trial))

# the y argument is copied, never aliased: result of a full-range query is a fresh array
yy = np.array([1.0, 2.0, 3.0])
for mod in (old, new):
    r = mod.interp_left([0, 1, 2], [0, 1, 2], yy)
    assert not np.shares_memory(r, yy)

print('equiv1: %d comparisons identical' % n_checks)

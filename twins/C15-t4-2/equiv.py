"""
Equivalence check for twin2 (get_max_stockwell_freq delegates to get_max_tifq_vals_freq,
shared descending frequency axis).

Run with twin2 applied, cwd = the worktree:
    cd /tmp/twin4/C15 && /venv/bin/python out/equiv2.py
Loads the ORIGINAL eqsig/stockwell.py from git HEAD and compares it with the edited one.
"""
import importlib.util
import os
import subprocess
import sys
import tempfile
import types

WORKTREE = os.getcwd()
sys.path.insert(0, WORKTREE)

import numpy as np  # noqa: E402
import eqsig  # noqa: E402
from eqsig import stockwell as new  # noqa: E402

assert os.path.realpath(eqsig.__file__).startswith(os.path.realpath(WORKTREE)), eqsig.__file__


def load_original():
    tmpdir = tempfile.mkdtemp(prefix="c15_orig_", dir="/tmp")
    subprocess.check_call("git archive HEAD eqsig | tar -x -C %s" % tmpdir, shell=True, cwd=WORKTREE)
    path = os.path.join(tmpdir, "eqsig", "stockwell.py")
    spec = importlib.util.spec_from_file_location("orig_stockwell", path)
    mod = importlib.util.module_from_spec(spec)
    spec.loader.exec_module(mod)
    assert mod.__file__.startswith(tmpdir)
    return mod


orig = load_original()
n_checks = 0


def same(a, b, what):
    """bit-for-bit identical results, incl. type, dtype and shape"""
    global n_checks
    n_checks += 1
    assert type(a) is type(b), (what, type(a), type(b))
    assert a.dtype == b.dtype, (what, a.dtype, b.dtype)
    assert a.shape == b.shape, (what, a.shape, b.shape)
    assert a.tobytes() == b.tobytes(), what


def same_state(o, n, what):
    """identical object state (attribute names; arrays bit-for-bit)"""
    do, dn = vars(o), vars(n)
    assert list(do.keys()) == list(dn.keys()), (what, list(do.keys()), list(dn.keys()))
    for key in do:
        vo, vn = do[key], dn[key]
        assert type(vo) is type(vn), (what, key)
        if isinstance(vo, np.ndarray):
            same(vo, vn, (what, key))
        else:
            assert vo == vn or (vo != vo and vn != vn), (what, key)


def check_tifq(tifq, dt, what):
    t_o, t_n = tifq.copy(), tifq.copy()
    r_o = orig.get_max_tifq_vals_freq(t_o, dt)
    r_n = new.get_max_tifq_vals_freq(t_n, dt)
    same(r_o, r_n, what)
    assert t_o.tobytes() == tifq.tobytes() and t_n.tobytes() == tifq.tobytes(), what
    # result must not alias anything the caller may later modify
    assert r_n.base is None or r_n.base is not t_n
    return r_n


def check_asig(make, what, preset=None, calls=2):
    a_o, a_n = make(), make()
    if preset is not None:
        a_o.swtf = preset.copy()
        a_n.swtf = preset.copy()
    for i in range(calls):  # multi-step history: 2nd call re-uses the cached transform
        r_o = orig.get_max_stockwell_freq(a_o)
        r_n = new.get_max_stockwell_freq(a_n)
        same(r_o, r_n, (what, "call", i))
        same_state(a_o, a_n, (what, "state", i))
        assert hasattr(a_n, "swtf")
    if preset is not None:
        assert a_n.swtf.tobytes() == preset.tobytes(), what
    # change the record: the cached transform is (still) what is used, in both versions
    a_o.swtf = a_o.swtf[::2] * 2.0
    a_n.swtf = a_n.swtf[::2] * 2.0
    same(orig.get_max_stockwell_freq(a_o), new.get_max_stockwell_freq(a_n), (what, "replaced swtf"))
    same_state(a_o, a_n, (what, "state after replace"))
    return r_n


def records(rng):
    lengths = list(range(4, 100)) + [127, 128, 129, 255, 256, 500, 511, 512, 1000, 1023, 1024]
    for n in lengths:
        t = np.arange(n)
        yield "normal", n, rng.standard_normal(n)
        if n <= 100 or n in (512, 1023):
            yield "int", n, rng.integers(-50, 50, size=n)
            yield "zeros", n, np.zeros(n)
            yield "const", n, np.full(n, 3.5)
            yield "impulse", n, np.eye(1, n, n // 3)[0]
            yield "list", n, list(rng.standard_normal(n))
            m = 2 * (n // 2)
            for k in sorted({1, 2, max(1, m // 8), max(1, m // 4), max(1, (3 * m) // 8), m // 2}):
                yield "sine%d" % k, n, np.sin(2 * np.pi * k * t / m)
                yield "cos%d" % k, n, np.cos(2 * np.pi * k * t / m + 0.3)


DTS = [0.01, 0.005, 0.1, 1.0, 1, 2, 1. / 3, 0.02 * 7, np.float64(0.025), np.float32(0.01), 1e-6, 37.5]


def main():
    rng = np.random.default_rng(1502)
    i = 0
    for kind, n, acc in records(rng):
        i += 1
        dt = DTS[i % len(DTS)]
        stock = orig.transform(acc)
        # --- get_max_tifq_vals_freq on complex transforms, amplitudes, views
        r = check_tifq(stock, dt, (kind, n, dt, "complex"))
        assert r.shape == (2 * (n // 2),)
        check_tifq(np.abs(stock), dt, (kind, n, dt, "abs"))
        if n <= 64:
            for dt2 in DTS:
                check_tifq(stock, dt2, (kind, n, dt2, "all dt"))
            check_tifq(np.ascontiguousarray(stock), dt, (kind, n, dt, "C"))
            check_tifq(np.asfortranarray(stock), dt, (kind, n, dt, "F"))
            check_tifq(stock[:, ::2], dt, (kind, n, dt, "every other time"))
            check_tifq(stock[:, 0], dt, (kind, n, dt, "1-d column -> scalar"))
            check_tifq(stock.astype(np.complex64), dt, (kind, n, dt, "c64"))

        # --- get_max_stockwell_freq on Signal / AccSignal objects and plain namespaces
        if isinstance(acc, list) or n > 600:
            makers = {"ns": lambda: types.SimpleNamespace(values=acc, dt=dt)}
        else:
            makers = {
                "AccSignal": lambda: eqsig.AccSignal(np.array(acc, dtype=float), float(dt)),
                "Signal": lambda: eqsig.Signal(np.array(acc, dtype=float), float(dt)),
                "ns": lambda: types.SimpleNamespace(values=acc, dt=dt),
            }
        for mname, make in makers.items():
            r = check_asig(make, (kind, n, dt, mname))
            assert r.shape == (2 * (n // 2),)
            if n <= 64:
                # pre-computed transforms: scipy variant, amplitude only, another record's transform
                check_asig(make, (kind, n, dt, mname, "preset scipy"), preset=orig.transform_w_scipy_fft(acc))
                check_asig(make, (kind, n, dt, mname, "preset abs"), preset=np.abs(stock))
                other = orig.transform(rng.standard_normal(n + 6))
                check_asig(make, (kind, n, dt, mname, "preset other"), preset=other, calls=3)

    # --- arbitrary time-frequency arrays (ties, zeros, negatives, ints)
    for rows in list(range(1, 30)) + [64, 257]:
        for cols in (1, 2, 7, 2 * rows):
            z = rng.standard_normal((rows, cols)) + 1j * rng.standard_normal((rows, cols))
            for dt in (0.01, 1, 0.3):
                check_tifq(z, dt, ("cplx", rows, cols, dt))
                check_tifq(z.real.copy(), dt, ("real", rows, cols, dt))
                check_tifq(rng.integers(-3, 3, size=(rows, cols)), dt, ("int ties", rows, cols, dt))
                check_tifq(np.zeros((rows, cols)), dt, ("zeros", rows, cols, dt))
                check_tifq(np.ones((rows, cols), dtype=complex), dt, ("ones", rows, cols, dt))

    # --- the other anchor functions are untouched by this twin: spot check
    for n in (4, 5, 16, 33, 128):
        acc = rng.standard_normal(n)
        same(orig.transform(acc), new.transform(acc), ("transform", n))
        same(orig.transform_w_scipy_fft(acc), new.transform_w_scipy_fft(acc), ("scipy", n))
        same(orig.generate_gaussian(n // 2), new.generate_gaussian(n // 2), ("gauss", n))
        same(orig.itransform(orig.transform(acc)), new.itransform(new.transform(acc)), ("inv", n))

    print("equiv2: %d comparisons identical" % n_checks)


if __name__ == "__main__":
    main()

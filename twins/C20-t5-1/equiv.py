"""
Equivalence program for twin 1 (optimisation edit of eqsig.fns.average / eqsig.fns.generic).

Run with the edit applied and cwd = the worktree:
    cd <worktree> && PYTHONPATH=<worktree> python out/equiv1.py

It extracts the ORIGINAL package from git (git archive HEAD eqsig) into a temporary
directory, runs the same deterministic battery of calls in two subprocesses (one importing
the original package, one importing the edited package from os.getcwd()) and compares
every outcome bit-for-bit: returned values (dtype, shape, raw bytes), exception type and
message, text printed to stdout, warnings emitted, the state of every argument after the
call, and whether the returned array aliases an argument.
Exit status 0 iff everything matches.
"""
import os
import sys
import io
import pickle
import subprocess
import tempfile
import tarfile
import shutil

FOCUS = "twin1"


# --------------------------------------------------------------------------------------
# worker side
# --------------------------------------------------------------------------------------

def canon(v, depth=0):
    """Canonical, picklable, bit-exact description of a python / numpy value"""
    import numpy as np
    if isinstance(v, np.ndarray):
        if v.dtype == object:
            return ('ndarray-object', v.shape, tuple(canon(i, depth + 1) for i in v.ravel().tolist()))
        return ('ndarray', str(v.dtype), v.shape, np.ascontiguousarray(v).tobytes())
    if isinstance(v, np.generic):
        return ('npscalar', str(v.dtype), v.tobytes())
    if isinstance(v, bool):
        return ('bool', v)
    if isinstance(v, int):
        return ('int', v)
    if isinstance(v, float):
        import struct
        return ('float', struct.pack('<d', v))
    if isinstance(v, (list, tuple)):
        return (type(v).__name__, tuple(canon(i, depth + 1) for i in v))
    if v is None or isinstance(v, str):
        return ('lit', v)
    return ('repr', type(v).__name__, repr(v))


def may_alias(res, args):
    import numpy as np
    out = []
    rs = res if isinstance(res, tuple) else (res,)
    for r in rs:
        if isinstance(r, np.ndarray):
            for k, a in enumerate(args):
                if isinstance(a, np.ndarray) and np.shares_memory(r, a):
                    out.append(k)
    return tuple(out)


def run_case(fn, args, kwargs):
    """Runs one call and returns a fully canonical description of everything observable"""
    import warnings
    import contextlib
    import numpy as np
    buf = io.StringIO()
    rec = {}
    with warnings.catch_warnings(record=True) as wlist:
        warnings.simplefilter('always')
        with contextlib.redirect_stdout(buf):
            try:
                res = fn(*args, **kwargs)
                rec['out'] = ('ok', canon(res))
                rec['alias'] = may_alias(res, list(args) + list(kwargs.values()))
                # the result must be private: writing into it must not change the arguments
                rs = res if isinstance(res, tuple) else (res,)
                for r in rs:
                    if isinstance(r, np.ndarray) and r.size and r.flags.writeable and r.dtype != object:
                        try:
                            r[...] = 0
                        except Exception:
                            pass
            except BaseException as e:  # noqa
                if isinstance(e, (KeyboardInterrupt, SystemExit, MemoryError)):
                    raise
                rec['out'] = ('exc', type(e).__name__, str(e), canon(getattr(e, 'args', ())))
    rec['stdout'] = buf.getvalue()
    rec['warn'] = tuple((w.category.__name__, str(w.message)) for w in wlist)
    rec['args_after'] = (canon(list(args)), canon(sorted(kwargs.items())))
    return rec


def build_cases():
    """Deterministic list of (label, function-name, args, kwargs)"""
    import numpy as np
    rng = np.random.RandomState(20200520)
    cases = []

    def add(name, *args, **kwargs):
        cases.append((name, args, kwargs))

    nan = float('nan')
    inf = float('inf')

    # ---------------------------------------------------------------- interp2d
    def rand_nodes(m, kind):
        if kind == 'int':
            return np.cumsum(rng.randint(1, 4, size=m)) - rng.randint(0, 5)
        if kind == 'dup':
            return np.cumsum(rng.randint(0, 2, size=m)).astype(float)
        if kind == 'dec':
            return -np.cumsum(rng.uniform(0.1, 2.0, size=m))
        if kind == 'f32':
            return np.cumsum(rng.uniform(0.1, 2.0, size=m)).astype(np.float32)
        if kind == 'wide':
            return np.cumsum(10.0 ** rng.uniform(-12, 12, size=m))
        return np.cumsum(rng.uniform(0.01, 2.0, size=m)) - rng.uniform(0, 3)

    kinds = ['float', 'float', 'float', 'int', 'dup', 'dec', 'f32', 'wide']
    for it in range(1400):
        kind = kinds[it % len(kinds)]
        m = int(rng.randint(1, 9))
        xf = rand_nodes(m, kind)
        ncol = int(rng.randint(0, 5))
        if it % 11 == 0:
            f = rng.randint(-9, 10, size=(m, ncol))
        elif it % 13 == 0:
            f = rng.normal(size=m)  # 1-D table
        else:
            f = rng.normal(size=(m, ncol)) * 10 ** rng.uniform(-3, 3)
        nq = int(rng.randint(0, 9))
        lo, hi = float(np.min(xf)), float(np.max(xf))
        span = max(hi - lo, 1.0)
        xq = rng.uniform(lo - 0.5 * span, hi + 0.5 * span, size=nq)
        # put some queries exactly on nodes, on mid points and just beside nodes
        for j in range(nq):
            r = rng.randint(0, 8)
            node = float(xf[rng.randint(0, m)])
            if r == 0:
                xq[j] = node
            elif r == 1:
                xq[j] = np.nextafter(node, inf)
            elif r == 2:
                xq[j] = np.nextafter(node, -inf)
            elif r == 3 and m > 1:
                k = rng.randint(0, m - 1)
                xq[j] = 0.5 * (float(xf[k]) + float(xf[k + 1]))
        if kind == 'int' and it % 2 == 0:
            xq = np.round(xq).astype(int)
        if kind == 'f32':
            xq = xq.astype(np.float32)
        if it % 97 == 0 and nq:
            xq[0] = nan
        if it % 101 == 0 and nq:
            xq[-1] = inf
        add('interp2d', xq, xf, f)
    # argument forms that fail, odd shapes
    xf = np.array([0., 1., 2., 3.])
    f = np.array([[0, 0, 0], [0, 1, 4], [2, 6, 2], [10, 10, 10]])
    add('interp2d', [0.5, 1.0], xf, f)
    add('interp2d', np.array([0.5, 1.0]), [0., 1., 2., 3.], f)
    add('interp2d', np.array([0.5]), [0., 1., 2., 3.], f)
    add('interp2d', np.array([0.5, 1.0]), xf, f.tolist())
    add('interp2d', np.array([0.5, 1.0]), tuple(xf), f)
    add('interp2d', 0.5, xf, f)
    add('interp2d', np.float64(0.5), xf, f)
    add('interp2d', np.array(0.5), xf, f)
    add('interp2d', np.array([[0.5, 1.0], [2.0, 2.5]]), xf, f)
    add('interp2d', np.array([0.5, 1.0]), xf[:3], f)
    add('interp2d', np.array([0.5, 1.0]), xf, f[:3])
    add('interp2d', np.array([0.5, 1.0]), np.array([]), f[:0])
    add('interp2d', np.array([]), np.array([]), f[:0])
    add('interp2d', np.array([0.5, 1.0, 7.0]), xf, np.arange(24.).reshape(4, 3, 2))
    add('interp2d', np.array([1e20, 3.0]), np.array([0.5, 1.0, 2e20]), np.arange(6.).reshape(3, 2))
    add('interp2d', np.array([True, False]), xf, f)
    add('interp2d', np.array([0.5, 1.0]), xf, f.astype(complex))
    add('interp2d', np.array([0.5, 1.0]), xf, np.array([[inf, 1], [2, nan], [3, 4], [-inf, 0]]))

    # ---------------------------------------------------------------- interp_left
    for it in range(900):
        m = int(rng.randint(1, 9))
        if it % 4 == 0:
            x = np.cumsum(rng.randint(0, 3, size=m)) + rng.randint(-3, 3)
        else:
            x = np.cumsum(rng.uniform(0.0, 2.0, size=m)) - rng.uniform(0, 2)
        x_form = x if it % 5 else x.tolist()
        yk = it % 6
        if yk == 0:
            y = None
        elif yk == 1:
            y = rng.normal(size=m).tolist()
        elif yk == 2:
            y = rng.randint(-5, 5, size=m)
        elif yk == 3:
            y = rng.normal(size=(m, 2))
        elif yk == 4:
            y = tuple(rng.normal(size=m).tolist())
        else:
            y = rng.normal(size=m)
        nq = int(rng.randint(0, 7))
        lo, hi = float(x[0]), float(x[-1])
        q = rng.uniform(lo - (0.3 if it % 7 == 0 else 0.0), hi + 1.0, size=nq)
        for j in range(nq):
            r = rng.randint(0, 5)
            if r == 0:
                q[j] = float(x[rng.randint(0, m)])
            elif r == 1:
                q[j] = np.nextafter(float(x[rng.randint(0, m)]), inf)
        form = it % 9
        if form == 0:
            x0 = q.tolist()
        elif form == 1:
            x0 = tuple(q.tolist())
        elif form == 2:
            x0 = float(q[0]) if nq else lo
        elif form == 3:
            x0 = np.float64(q[0]) if nq else np.float64(lo)
        elif form == 4:
            x0 = int(np.ceil(lo)) + int(rng.randint(0, 3))
        elif form == 5:
            x0 = np.ceil(q).astype(int)
        elif form == 6:
            x0 = np.array(q[0]) if nq else np.array(lo)  # 0-d array
        else:
            x0 = q
        if y is None:
            if it % 2:
                add('interp_left', x0, x_form)
            else:
                add('interp_left', x0, x_form, None)
        elif it % 3 == 0:
            add('interp_left', x0, x_form, y=y)
        else:
            add('interp_left', x0, x_form, y)
    add('interp_left', [], [0., 1.], [3., 4.])
    add('interp_left', np.array([]), [0., 1.], [3., 4.])
    add('interp_left', -1.0, [0., 1.], [3., 4.])
    add('interp_left', [-1.0, 0.5], np.array([0., 1.]), [3., 4.])
    add('interp_left', [nan, 0.5], np.array([0., 1.]), [3., 4.])
    add('interp_left', nan, np.array([0., 1.]))
    add('interp_left', [0.5], [], [])
    add('interp_left', [0.5, 5.0], [0., 1., 2.], [3., 4.])
    add('interp_left', [0.5, 1.0], [0., 1., 2.], [3., 4.])
    add('interp_left', np.array([[0.5, 1.0], [1.5, 2.5]]), [0., 1., 2.], [3., 4., 5.])
    add('interp_left', "1", [0., 1., 2.], [3., 4., 5.])
    add('interp_left', [0.5], [0., 1., 2.], 7.0)

    # ---------------------------------------------------------------- calc_roll_av_vals
    modes = ['forward', 'backward', 'centre', 'center', 'Forward', None, 'fwd']
    for it in range(2600):
        n = int(rng.randint(1, 14))
        k = it % 10
        if k == 0:
            v = rng.randint(-9, 10, size=n)
        elif k == 1:
            v = rng.randint(-9, 10, size=n).tolist()
        elif k == 2:
            v = tuple(rng.normal(size=n).tolist())
        elif k == 3:
            v = rng.normal(size=n).astype(np.float32)
        elif k == 4:
            v = rng.normal(size=n) * 10.0 ** rng.uniform(-8, 8, size=n)
        elif k == 5:
            v = np.full(n, rng.normal())  # constants must be preserved
        elif k == 6:
            v = rng.randint(0, 2, size=n).astype(bool)
        elif k == 7:
            v = (rng.randint(-2 ** 62, 2 ** 62, size=n, dtype=np.int64))
        elif k == 8:
            v = rng.normal(size=2 * n)[::2]  # non contiguous view
        else:
            v = rng.normal(size=n)
        if it % 131 == 0 and isinstance(v, np.ndarray) and v.dtype == float:
            v = v.copy()
            v[rng.randint(0, n)] = [nan, inf, -inf][it % 3]
        r = it % 17
        if r < 11:
            steps = int(rng.randint(1, n + 1))
        elif r == 11:
            steps = n + int(rng.randint(1, 4))
        elif r == 12:
            steps = float(rng.randint(1, n + 1)) + 0.7
        elif r == 13:
            steps = np.int64(rng.randint(1, n + 1))
        elif r == 14:
            steps = int(rng.randint(-2, 1))
        elif r == 15:
            steps = str(int(rng.randint(1, n + 1)))
        else:
            steps = 1
        mode = modes[int(rng.randint(0, len(modes)))] if it % 3 == 0 else modes[it % 3]
        if it % 5 == 0 and mode == 'forward':
            add('calc_roll_av_vals', v, steps)
        elif it % 5 == 1:
            add('calc_roll_av_vals', v, steps=steps, mode=mode)
        elif it % 5 == 2:
            add('calc_roll_av_vals', values=v, steps=steps, mode=mode)
        else:
            add('calc_roll_av_vals', v, steps, mode)
    for mode in modes:
        for steps in (-1, 0, 1, 2, 3):
            add('calc_roll_av_vals', [], steps, mode)
            add('calc_roll_av_vals', np.array([]), steps, mode)
            add('calc_roll_av_vals', 3.5, steps, mode)
            add('calc_roll_av_vals', np.array(3.5), steps, mode)
            add('calc_roll_av_vals', np.arange(6.).reshape(2, 3), steps, mode)
            add('calc_roll_av_vals', np.arange(6).reshape(3, 2), steps, mode)
            add('calc_roll_av_vals', [[1., 2.]], steps, mode)
            add('calc_roll_av_vals', np.array([1 + 2j, 3 - 1j, 0.5j]), steps, mode)
            add('calc_roll_av_vals', np.array([1, 2.5, None], dtype=object), steps, mode)
            add('calc_roll_av_vals', ['a', 'b'], steps, mode)
        add('calc_roll_av_vals', [1., 2., 3.], None, mode)
        add('calc_roll_av_vals', [1., 2., 3.], 'x', mode)
        add('calc_roll_av_vals', [1., 2., 3.], [2], mode)
        add('calc_roll_av_vals', [1., 2., 3.], np.array([2]), mode)
        add('calc_roll_av_vals', [1., 2., 3.], nan, mode)
    add('calc_roll_av_vals', np.arange(3000.) ** 1.5, 250, 'centre')
    add('calc_roll_av_vals', np.arange(3000), 2999, 'backward')
    add('calc_roll_av_vals', np.arange(3000), 3000, 'forward')

    # ---------------------------------------------------------------- calc_step_fn_vals_error
    pows = [1, 2, 1, 2, 1.0, 2.0, 3, 0.5, 0, -1]
    dirs = [None, 'down', 'up', None, 'other', 'Down']
    for it in range(2200):
        n = int(rng.randint(1, 13))
        k = it % 8
        if k == 0:
            v = rng.randint(-9, 10, size=n)
        elif k == 1:
            v = rng.randint(-9, 10, size=n).tolist()
        elif k == 2:
            v = rng.normal(size=n).tolist()
        elif k == 3:
            b = int(rng.randint(0, n))
            v = np.where(np.arange(n) < b, rng.normal(), rng.normal()) + 0.01 * rng.normal(size=n)
        elif k == 4:
            v = -np.abs(rng.normal(size=n))  # negative side means
        elif k == 5:
            v = rng.normal(size=n).astype(np.float32)
        elif k == 6:
            v = tuple(rng.randint(-3, 4, size=n).tolist())
        else:
            v = rng.normal(size=n) * 10.0 ** rng.uniform(-5, 5)
        p = pows[int(rng.randint(0, len(pows)))] if it % 4 == 0 else pows[it % 4]
        d = dirs[int(rng.randint(0, len(dirs)))]
        r = it % 6
        if r == 0:
            add('calc_step_fn_vals_error', v)
        elif r == 1:
            add('calc_step_fn_vals_error', v, p)
        elif r == 2:
            add('calc_step_fn_vals_error', v, pow=p, dir=d)
        elif r == 3:
            add('calc_step_fn_vals_error', values=v, dir=d, pow=p)
        else:
            add('calc_step_fn_vals_error', v, p, d)
    for d in dirs:
        for p in (1, 2):
            add('calc_step_fn_vals_error', [], p, d)
            add('calc_step_fn_vals_error', np.array([]), p, d)
            add('calc_step_fn_vals_error', 2.0, p, d)
            add('calc_step_fn_vals_error', np.arange(6.).reshape(2, 3), p, d)
            add('calc_step_fn_vals_error', np.arange(9).reshape(3, 3) - 4, p, d)
            add('calc_step_fn_vals_error', [4, 4, 4, 4, 1, 1, 1, 1], p, d)
            add('calc_step_fn_vals_error', [4, 5, 4, 4, 1, 1, 2, 1], p, d)
            add('calc_step_fn_vals_error', [nan, 1., 2., inf], p, d)
            add('calc_step_fn_vals_error', np.array([True, False, True]), p, d)
            add('calc_step_fn_vals_error', np.array([1 + 1j, 2, 3 - 2j]), p, d)
    add('calc_step_fn_vals_error', np.sin(np.arange(300.)) + (np.arange(300) > 120), 2, 'up')
    add('calc_step_fn_vals_error', np.sin(np.arange(300.)) - (np.arange(300) > 120), 1, 'down')

    # ---------------------------------------------------------------- calc_step_fn_steps_vals
    for it in range(900):
        n = int(rng.randint(1, 13))
        k = it % 5
        if k == 0:
            v = rng.randint(-9, 10, size=n)
        elif k == 1:
            v = rng.randint(-9, 10, size=n).tolist()
        elif k == 2:
            v = rng.normal(size=n).tolist()
        elif k == 3:
            b = int(rng.randint(0, n))
            v = np.where(np.arange(n) < b, rng.normal(), rng.normal()) + 0.01 * rng.normal(size=n)
        else:
            v = rng.normal(size=n)
        r = it % 7
        if r == 0:
            add('calc_step_fn_steps_vals', v)
        elif r == 1:
            add('calc_step_fn_steps_vals', v, None)
        elif r == 2:
            add('calc_step_fn_steps_vals', v, ind=int(rng.randint(0, n)))
        elif r == 3:
            add('calc_step_fn_steps_vals', v, np.int64(rng.randint(0, n)))
        elif r == 4:
            add('calc_step_fn_steps_vals', v, int(rng.randint(-n - 1, n + 2)))
        elif r == 5:
            add('calc_step_fn_steps_vals', values=v, ind=0)
        else:
            add('calc_step_fn_steps_vals', v, n - 1)
    add('calc_step_fn_steps_vals', [])
    add('calc_step_fn_steps_vals', [], 0)
    add('calc_step_fn_steps_vals', [1., 2., 3.], 1.5)
    add('calc_step_fn_steps_vals', np.arange(12.).reshape(3, 4), 1)
    add('calc_step_fn_steps_vals', np.arange(12.).reshape(3, 4))

    # ---------------------------------------------------------------- memory layouts / read-only inputs
    for it in range(600):
        n = int(rng.randint(1, 12))
        base = rng.normal(size=3 * n + 2) if it % 3 else rng.randint(-9, 10, size=3 * n + 2)
        lay = it % 4
        if lay == 0:
            v = base[:n][::-1]  # negative stride
        elif lay == 1:
            v = base[1:1 + 3 * n:3]  # strided view
        elif lay == 2:
            v = np.asfortranarray(base[:n])
        else:
            v = base[:n]
        steps = int(rng.randint(1, n + 2))
        mode = modes[it % 4]
        p = [1, 2][it % 2]
        d = dirs[it % 3]
        add('calc_roll_av_vals@ro', v, steps, mode)
        add('calc_roll_av_vals', v, steps, mode)
        add('calc_step_fn_vals_error@ro', v, p, d)
        add('calc_step_fn_vals_error', v, p, d)
        add('calc_step_fn_steps_vals@ro', v)
        add('calc_step_fn_steps_vals@ro', v, int(rng.randint(0, n)))
        xs = np.sort(rng.normal(size=3 * n))[::3]
        q = rng.uniform(float(xs[0]), float(xs[-1]) + 1.0, size=4)
        add('interp_left@ro', q[::2], xs, v)
        add('interp_left@ro', float(q[0]), xs, v)
        add('interp_left@ro', q, xs)
        tab = rng.normal(size=(n, 6))[:, ::2]
        xq = rng.uniform(float(xs[0]) - 0.2, float(xs[-1]) + 0.2, size=8)[::2]
        add('interp2d@ro', xq, xs, tab)
        add('interp2d@ro', xq, xs, np.asfortranarray(tab))
        add('c_h_factor@ro', np.abs(base[:n][::-1]) * 0.5, 'CDE'[it % 3])
        add('sd_nzs@ro', np.abs(base[:1]) * 0.5, 'CDE'[it % 3], 0.3, 1.0, 1.0)

    # ---------------------------------------------------------------- design spectra
    bounds = [0.0, 0.1, 0.3, 0.56, 1.0, 1.5, 3.0]
    specials = []
    for b in bounds:
        specials += [b, float(np.nextafter(b, inf)), float(np.nextafter(b, -inf))]
    specials += [-0.0, 1e-300, 5e-324, 1e300, inf, nan, -1.0, -1e-300, -inf, 0.05, 0.2, 0.45, 0.8, 1.2, 2.0, 4.0, 10.0]
    classes = ['C', 'D', 'E', 'X', 'c', None, '', 'CD', 3]
    for sc in classes:
        for t in specials:
            add('c_h_factor', t, sc)
            add('c_h_factor', np.float64(t), sc)
            add('c_h_factor', [t], site_class=sc)
            add('sd_nzs', t, sc, 0.4, 1.0, 1.0)
            add('sd_nzs', np.float64(t), sc, 0.13, 1.3, 1.1)
            add('sd_nzs', np.array([t]), sc, 0.3, 1.0, 1.0)
        add('c_h_factor', specials[:9], sc)
        add('c_h_factor', np.array(specials[:16]), sc)
        add('c_h_factor', np.array(specials), sc)
        add('c_h_factor', tuple(specials[3:12]), sc)
        add('c_h_factor', [], sc)
        add('c_h_factor', np.array([]), sc)
        add('c_h_factor', [0.5, -1.0, 0.7], sc)
        add('c_h_factor', [-1.0, 0.7], sc)
        add('c_h_factor', 1, sc)
        add('c_h_factor', np.int64(2), sc)
        add('c_h_factor', np.float32(0.5), sc)
        add('c_h_factor', [0, 1, 2, 3, 4], sc)
        add('c_h_factor', np.arange(5), sc)
        add('c_h_factor', np.array([0.05, 0.5, 2.0], dtype=np.float32), sc)
        add('c_h_factor', np.array(0.5), sc)
        add('c_h_factor', np.array([[0.5, 1.0], [2.0, 4.0]]), sc)
        add('c_h_factor', '0.5', sc)
        add('c_h_factor', None, sc)
        add('c_h_factor', [0.5, None], sc)
        add('c_h_factor', [0.5, 'a'], sc)
        for t in (0, 1, 2, 3, 5, -1, np.int64(2), np.float32(0.7), True):
            add('sd_nzs', t, sc, 0.4, 1, 1)
        add('sd_nzs', np.array([0.5, 1.0]), sc, 0.4, 1.0, 1.0)
        add('sd_nzs', [0.5], sc, 0.4, 1.0, 1.0)
        add('sd_nzs', None, sc, 0.4, 1.0, 1.0)
        add('sd_nzs', 0.5, sc, np.array([0.1, 0.2]), 1.0, np.array([1.0, 1.2]))
        add('sd_nzs', 0.5, sc, None, 1.0, 1.0)
        add('sd_nzs', period=3.5, site_class=sc, z_factor=0.4, r_factor=1.8, n_factor=1.2)
    add('c_h_factor', 0.5)
    add('c_h_factor', [0.05, 0.2, 1.0, 2.0, 5.0])
    add('c_h_factor', period=np.linspace(0, 6, 25))
    for it in range(1500):
        sc = classes[int(rng.randint(0, 3))] if it % 9 else classes[int(rng.randint(0, len(classes)))]
        r = it % 4
        if r == 0:
            t = float(rng.uniform(0, 6))
        elif r == 1:
            t = float(10.0 ** rng.uniform(-6, 1.5))
        elif r == 2:
            t = float(bounds[int(rng.randint(0, len(bounds)))] + rng.normal() * 1e-15)
        else:
            t = float(rng.uniform(-0.1, 3.2))
        z = float(rng.uniform(0.1, 0.6))
        rr = float(rng.uniform(0.2, 1.8))
        nn = float(rng.uniform(1.0, 1.6))
        add('c_h_factor', t, sc)
        add('sd_nzs', t, sc, z, rr, nn)
        arr = rng.uniform(0, 5, size=int(rng.randint(0, 7)))
        if it % 25 == 0 and arr.size:
            arr[int(rng.randint(0, arr.size))] = -0.3
        add('c_h_factor', arr if it % 2 else arr.tolist(), sc)
        # effective period
        g = 9.81
        coef = {'C': 3.96, 'D': 6.42, 'E': 9.96}.get(sc, 5.0)
        d_c = coef * z * rr * nn / (2 * np.pi) ** 2 * g
        d = [d_c, float(np.nextafter(d_c, inf)), float(np.nextafter(d_c, -inf)), 0.0, -0.1,
             float(rng.uniform(0, 1.2)) * d_c, nan, inf][it % 8]
        add('t_eff', d, sc, z, rr, nn)
        if it % 10 == 0:
            add('t_eff', np.float64(d), sc, z, rr, nn)
            add('t_eff', np.array([d]), sc, z, rr, nn)
            add('t_eff', displacement=d, site_class=sc, z_factor=z, r_factor=rr, n_factor=nn)
    for sc in classes:
        add('t_eff', 0.1, sc, 0.4, 1.0, 1.0)
        add('t_eff', 0.1, sc, 0, 1.0, 1.0)
        add('t_eff', 0.0, sc, 0.0, 1.0, 1.0)
        add('t_eff', 0.1, sc, np.float64(0), 1.0, 1.0)
        add('t_eff', 1, sc, 1, 1, 1)
        add('t_eff', np.array([0.1, 0.2]), sc, 0.4, 1.0, 1.0)
        add('t_eff', 0.1, sc, np.array([0.4, 0.5]), 1.0, 1.0)
        add('t_eff', None, sc, 0.4, 1.0, 1.0)
        add('t_eff', 0.1, sc, None, 1.0, 1.0)
        add('t_eff', 100.0, sc, 0.4, 1.0, 1.0)
    return cases


def worker(pkg_root, out_path):
    sys.path.insert(0, pkg_root)
    import inspect
    import numpy as np
    np.seterr(all='warn')
    import eqsig
    import eqsig.fns
    import eqsig.design_spectra
    assert os.path.abspath(eqsig.__file__).startswith(os.path.abspath(pkg_root)), (eqsig.__file__, pkg_root)

    table = {
        'interp2d': eqsig.fns.interp2d,
        'interp_left': eqsig.fns.interp_left,
        'calc_roll_av_vals': eqsig.fns.calc_roll_av_vals,
        'calc_step_fn_vals_error': eqsig.fns.calc_step_fn_vals_error,
        'calc_step_fn_steps_vals': eqsig.fns.calc_step_fn_steps_vals,
        'c_h_factor': eqsig.design_spectra.c_h_factor,
        'sd_nzs': eqsig.design_spectra.sd_nzs,
        't_eff': eqsig.design_spectra.t_eff,
    }
    # the same objects must be reachable through the sub-modules
    assert eqsig.fns.average.calc_roll_av_vals is table['calc_roll_av_vals']
    assert eqsig.fns.generic.interp2d is table['interp2d']

    cases = build_cases()
    results = []
    labels = []
    def prepared(name, args, kwargs):
        # no copies here: the memory layout of the arguments (strided / reversed views) is part of the case
        fn_name = name
        if name.endswith('@ro'):  # all array arguments are passed as read-only views
            fn_name = name[:-3]

            def ro(obj):
                if isinstance(obj, np.ndarray):
                    obj = obj[...]
                    obj.setflags(write=False)
                return obj
            args = tuple(ro(a) for a in args)
            kwargs = dict((key, ro(val)) for key, val in kwargs.items())
        return table[fn_name], args, kwargs

    for name, args, kwargs in cases:
        labels.append(name + ' ' + repr((args, kwargs))[:300])
        results.append(run_case(*prepared(name, args, kwargs)))
    # a second, shuffled pass in the same process on freshly built arguments: any state kept
    # between calls (caches, mutated tables) would show up
    cases = build_cases()
    order = np.random.RandomState(7).permutation(len(cases))[:3000]
    for i in order:
        name, args, kwargs = cases[i]
        labels.append('(2nd pass) ' + name + ' ' + repr((args, kwargs))[:300])
        results.append(run_case(*prepared(name, args, kwargs)))

    # public namespace and signatures
    meta = {}
    for modname, mod in (('eqsig.fns', eqsig.fns), ('eqsig.fns.average', eqsig.fns.average),
                         ('eqsig.fns.generic', eqsig.fns.generic), ('eqsig.design_spectra', eqsig.design_spectra)):
        meta[modname] = sorted(n for n in dir(mod) if not n.startswith('_'))
    for name, fn in table.items():
        meta['sig ' + name] = str(inspect.signature(fn))
        meta['doc ' + name] = fn.__doc__
        meta['mod ' + name] = fn.__module__
    with open(out_path, 'wb') as fh:
        pickle.dump({'results': results, 'labels': labels, 'meta': meta}, fh)


# --------------------------------------------------------------------------------------
# driver side
# --------------------------------------------------------------------------------------

def main():
    cwd = os.getcwd()
    if not os.path.isdir(os.path.join(cwd, 'eqsig')):
        print('run me with cwd = the worktree')
        return 2
    tmp = tempfile.mkdtemp(prefix='equiv_' + FOCUS + '_')
    try:
        orig_root = os.path.join(tmp, 'orig')
        os.makedirs(orig_root)
        tar_path = os.path.join(tmp, 'orig.tar')
        subprocess.check_call(['git', 'archive', '-o', tar_path, 'HEAD', 'eqsig'], cwd=cwd)
        with tarfile.open(tar_path) as tf:
            tf.extractall(orig_root)
        outs = {}
        for tag, root in (('orig', orig_root), ('edit', cwd)):
            out_path = os.path.join(tmp, tag + '.pkl')
            env = dict(os.environ)
            env['PYTHONPATH'] = root
            env['PYTHONHASHSEED'] = '0'
            env['PYTHONDONTWRITEBYTECODE'] = '1'
            p = subprocess.run([sys.executable, os.path.abspath(__file__), '--worker', root, out_path],
                               env=env, cwd=tmp, stdout=subprocess.PIPE, stderr=subprocess.STDOUT)
            if p.returncode != 0:
                print('worker %s failed:\n%s' % (tag, p.stdout.decode(errors='replace')[-4000:]))
                return 3
            with open(out_path, 'rb') as fh:
                outs[tag] = pickle.load(fh)
        a, b = outs['orig'], outs['edit']
        nbad = 0
        if a['labels'] != b['labels']:
            print('case lists differ (non deterministic generator?)')
            nbad += 1
        for key in sorted(set(a['meta']) | set(b['meta'])):
            if a['meta'].get(key) != b['meta'].get(key):
                nbad += 1
                print('META MISMATCH %s:\n   orig=%r\n   edit=%r' % (key, a['meta'].get(key), b['meta'].get(key)))
        n_exc = 0
        for lab, ra, rb in zip(a['labels'], a['results'], b['results']):
            if ra['out'][0] == 'exc':
                n_exc += 1
            if ra != rb:
                nbad += 1
                if nbad <= 25:
                    print('MISMATCH in %s' % lab)
                    for key in ra:
                        if ra[key] != rb.get(key):
                            print('   %s:\n      orig=%r\n      edit=%r' % (key, str(ra[key])[:400], str(rb.get(key))[:400]))
        print('%s: %d calls compared (%d raise in the original), %d mismatches'
              % (FOCUS, len(a['results']), n_exc, nbad))
        return 0 if nbad == 0 else 1
    finally:
        shutil.rmtree(tmp, ignore_errors=True)


if __name__ == '__main__':
    if len(sys.argv) >= 4 and sys.argv[1] == '--worker':
        worker(sys.argv[2], sys.argv[3])
        sys.exit(0)
    sys.exit(main())

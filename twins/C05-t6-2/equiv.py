"""Equivalence program for twin 2 (the duplicated rolling-mean loops of Signal.running_average and
AccSignal.remove_rolling_average in eqsig/single.py are moved behind the private helpers
_rolling_window / _fill_rolling_mean).

Run with the edit applied and cwd = the worktree:

    cd <worktree> && PYTHONPATH=<worktree> python out/equiv2.py

The ORIGINAL package is taken from `git archive HEAD eqsig` into a temporary directory.  The same
deterministic scenario script is then executed in two separate subprocesses (one importing the original
package, one importing the edited package of the worktree) and every observation (returned values, object
state seen through the public API, the caller's arrays, previously handed-out references, exceptions and
warnings) is compared bit-for-bit.  Exit status 0 iff everything matches.
"""
import hashlib
import io
import os
import pickle
import shutil
import struct
import subprocess
import sys
import tarfile
import tempfile
import warnings


# ----------------------------------------------------------------------------------------------------------
# canonical (bit exact) description of python / numpy objects
# ----------------------------------------------------------------------------------------------------------
def canon(obj, depth=0):
    import numpy as np
    if depth > 6:
        return ('deep', type(obj).__name__)
    if isinstance(obj, np.ndarray):
        arr = np.ascontiguousarray(obj)
        if arr.dtype == object:
            return ('ndobj', obj.shape, tuple(canon(x, depth + 1) for x in arr.ravel().tolist()))
        return ('nd', arr.dtype.str, obj.shape, hashlib.sha1(arr.tobytes()).hexdigest(),
                bool(obj.flags.writeable))
    if isinstance(obj, np.generic):
        return ('npscalar', obj.dtype.str, obj.tobytes())
    if isinstance(obj, bool):
        return ('bool', obj)
    if isinstance(obj, int):
        return ('int', obj)
    if isinstance(obj, float):
        return ('float', struct.pack('<d', obj))
    if isinstance(obj, complex):
        return ('complex', struct.pack('<dd', obj.real, obj.imag))
    if obj is None or isinstance(obj, str):
        return ('lit', obj)
    if isinstance(obj, (list, tuple)):
        return (type(obj).__name__, tuple(canon(x, depth + 1) for x in obj))
    if isinstance(obj, dict):
        return ('dict', tuple((canon(k, depth + 1), canon(v, depth + 1)) for k, v in obj.items()))
    if isinstance(obj, BaseException):
        return ('exc', type(obj).__name__, str(obj))
    return ('other', type(obj).__name__, repr(obj))


def guarded(fn, *args, **kwargs):
    """Call fn and return (tag, canonical result or exception, warnings)."""
    with warnings.catch_warnings(record=True) as wlist:
        warnings.simplefilter('always')
        try:
            out = ('ok', canon(fn(*args, **kwargs)))
        except Exception as e:  # noqa
            out = ('raised', type(e).__name__, str(e))
    wrn = tuple((w.category.__name__, str(w.message)) for w in wlist)
    return out + (wrn,)


# ----------------------------------------------------------------------------------------------------------
# worker: runs the scenarios against whichever eqsig is first on sys.path
# ----------------------------------------------------------------------------------------------------------
def make_records():
    import numpy as np
    rs = np.random.RandomState(20240605)
    records = []
    lengths = [1, 2, 3, 4, 7, 16, 33, 80]
    dts = [0.01, 0.02, 0.005, 0.1, 1, 0.25, 0.04]
    k = 0
    for n in lengths:
        t = np.arange(n)
        variants = [
            ('f64_normal', rs.normal(size=n)),
            ('f64_sine_drift', np.sin(0.3 * t) + 0.05 * t / max(n, 1) + 0.2),
            ('f64_pulse', np.where(t < n / 2, 1.0, -0.4)),
            ('f64_zeros', np.zeros(n)),
            ('i64', rs.randint(-50, 50, size=n)),
            ('i32', rs.randint(-9, 9, size=n).astype(np.int32)),
            ('f32', rs.normal(size=n).astype(np.float32)),
            ('list_float', [float(x) for x in rs.normal(size=n)]),
            ('list_int', [int(x) for x in rs.randint(-5, 6, size=n)]),
            ('tuple_mixed', tuple([1] + [float(x) for x in rs.normal(size=n - 1)])),
            ('f64_strided', rs.normal(size=2 * n)[::2]),
        ]
        for name, data in variants:
            records.append(('%s_n%i' % (name, n), data, dts[k % len(dts)]))
            k += 1
    return records


def data_digest(data):
    import numpy as np
    if isinstance(data, np.ndarray):
        return canon(data)
    return ('py', type(data).__name__, tuple(canon(x) for x in data))


def observe(sig, full=True):
    obs = [guarded(lambda: sig.values), guarded(lambda: sig.npts), guarded(lambda: sig.time),
           guarded(lambda: sig.dt), guarded(lambda: len(sig.values) == sig.npts)]
    if full:
        obs += [guarded(lambda: sig.velocity), guarded(lambda: sig.displacement), guarded(lambda: sig.pga),
                guarded(lambda: sig.pgv), guarded(lambda: sig.pgd), guarded(lambda: sig.fa_spectrum),
                guarded(lambda: sig.fa_freqs), guarded(lambda: sig.arias_intensity),
                guarded(lambda: sig.t_595)]
    return tuple(obs)


def prefixes(n, dt):
    """Histories of other public mutators applied before the operation under study."""
    import numpy as np
    tt = n * dt
    return [
        ('none', []),
        ('add_constant', [('add_constant', (0.3,), {})]),
        ('add_constant_int', [('add_constant', (2,), {})]),
        ('reset_list', [('reset_values', ([0.5 * ((-1) ** i) + 0.01 * i for i in range(n)],), {})]),
        ('reset_int_arr', [('reset_values', (np.arange(n) % 5 - 2,), {})]),
        ('reset_int_list', [('reset_values', ([(7 * i) % 11 - 5 for i in range(n)],), {})]),
        ('reset_longer', [('reset_values', (np.cos(np.arange(2 * n + 3) * 0.7),), {})]),
        ('run_av3', [('running_average', (3,), {})]),
        ('roll_acc', [('remove_rolling_average', (), {'mtype': 'acc', 'freq_window': 1. / (3 * dt)})]),
        ('roll_vel', [('remove_rolling_average', (), {'mtype': 'velocity', 'freq_window': 1. / (4 * dt)})]),
        ('add_series', [('add_series', (np.linspace(-1, 1, n),), {})]),
        ('zrv', [('set_zero_residual_velocity', (), {'timezone': (0, tt / 2)})]),
        ('rebase_runav', [('rebase_displacement', (), {}), ('running_average', (2,), {})]),
    ]


def targets(n, dt, acc):
    import numpy as np
    out = [('running_average', (), {})]
    widths = [1, 2, 3, 4, 5, 6, 10, 2.5, 0.5, 0, -3, -1.5, n, n + 1, 2 * n + 1, 1000, None, 'a', np.int64(3),
              np.float64(4.0), np.float32(5), True, float('nan'), float('inf'), [3], np.array([3]),
              np.array([3, 4]), 3 + 0j, max(n - 1, 1), max(n // 2, 1)]
    for w in widths:
        out.append(('running_average', (w,), {}))
    out.append(('running_average', (), {'width': 7}))
    if acc:
        out.append(('remove_rolling_average', (), {}))
        for mtype in ['velocity', 'acc', 'other', None]:
            for fw in [5, 1. / dt, 1. / (2 * dt), 1. / (3 * dt), 1. / (5 * dt), 1. / (8 * dt), 1. / (n * dt),
                       1. / (3 * n * dt), 1.000001 / dt, 1e9, 0, -1, None, np.float64(1. / (4 * dt)), 1]:
                out.append(('remove_rolling_average', (), {'mtype': mtype, 'freq_window': fw}))
        out.append(('remove_rolling_average', ('velocity', 1. / (6 * dt)), {}))
    return out


def run_case(eqsig, cls, data, dt, prefix, target, follow):
    import numpy as np
    before = data_digest(data)
    res = []
    with warnings.catch_warnings():
        warnings.simplefilter('ignore')
        try:
            sig = cls(data, dt)
            twin_sig = cls(data, dt)  # a second object built from the same caller data
        except Exception as e:  # noqa
            return 'ctor_raised', ('ctor_raised', type(e).__name__, str(e))
    held = [sig.values]
    for name, args, kwargs in prefix:
        args_before = canon(list(args))
        res.append(guarded(getattr(sig, name), *args, **kwargs)[:2])  # warnings of prefix ops not of interest
        res.append(canon(list(args)) == args_before)
        held.append(sig.values)
    name, args, kwargs = target
    pre_obs = observe(sig, full=False)
    held.append(sig.values)
    args_before = canon([list(args), kwargs])
    res.append(guarded(getattr(sig, name), *args, **kwargs))
    status = res[-1][0] if res[-1][0] == 'ok' else 'raised:' + res[-1][1]
    res.append(('args_unchanged', canon([list(args), kwargs]) == args_before))
    res.append(pre_obs)
    res.append(observe(sig))
    res.append(tuple(canon(h) for h in held))  # previously handed-out references
    res.append(tuple(h is sig.values for h in held))
    res.append(('caller_unchanged', data_digest(data) == before, data_digest(data)))
    res.append(observe(twin_sig, full=False))
    for name2, args2, kwargs2 in follow:
        res.append(guarded(getattr(sig, name2), *args2, **kwargs2))
        res.append(observe(sig))
    # write through the object's array must never reach the caller
    try:
        v = sig.values
        if len(v):
            v[0] = 7
        res.append(('after_write', data_digest(data) == before, canon(sig.values)))
    except Exception as e:  # noqa
        res.append(('write_raised', type(e).__name__))
    return status, tuple(res)


def worker(root, outfile):
    sys.path.insert(0, root)
    import numpy as np  # noqa
    import eqsig
    assert os.path.realpath(eqsig.__file__).startswith(os.path.realpath(root)), (eqsig.__file__, root)
    results = []
    records = make_records()
    for ri, (rname, data, dt) in enumerate(records):
        n = len(data)
        pres = prefixes(n, dt)
        for cname, cls in (('AccSignal', eqsig.AccSignal), ('Signal', eqsig.Signal)):
            acc = cname == 'AccSignal'
            tars = targets(n, dt, acc)
            follows = [[], [('running_average', (2,), {})],
                       [('remove_rolling_average', (), {'mtype': 'acc', 'freq_window': 1. / (2 * dt)}),
                        ('running_average', (3,), {})]]
            ci = 0
            for pi, (pname, prefix) in enumerate(pres):
                if not acc and pname in ('roll_acc', 'roll_vel', 'zrv', 'rebase_runav'):
                    continue
                for ti, target in enumerate(tars):
                    # the full cross product for the plain history, a rotating subset otherwise
                    if pi != 0 and (ti + pi + ri) % 5 != 0:
                        continue
                    if not acc and pi != 0 and (ti + ri) % 3 != 0:
                        continue
                    follow = follows[ci % len(follows)] if acc else follows[ci % 2]
                    ci += 1
                    key = '%s|%s|dt=%r|%s|%s%r|follow%i' % (cname, rname, dt, pname, target[0],
                                                            target[2] or target[1], len(follow))
                    status, out = run_case(eqsig, cls, data, dt, prefix, target, follow)
                    results.append((key, hashlib.sha1(repr(out).encode()).hexdigest(), repr(out)[:3000],
                                    status))
    with open(outfile, 'wb') as f:
        pickle.dump(results, f)


# ----------------------------------------------------------------------------------------------------------
# driver
# ----------------------------------------------------------------------------------------------------------
def main():
    cwd = os.getcwd()
    tmp = tempfile.mkdtemp(prefix='equiv2_')
    try:
        orig_root = os.path.join(tmp, 'orig')
        os.makedirs(orig_root)
        blob = subprocess.check_output(['git', 'archive', 'HEAD', 'eqsig'], cwd=cwd)
        with tarfile.open(fileobj=io.BytesIO(blob)) as tf:
            tf.extractall(orig_root)
        same = open(os.path.join(orig_root, 'eqsig', 'single.py')).read() == \
            open(os.path.join(cwd, 'eqsig', 'single.py')).read()
        if same:
            print('NOTE: eqsig/single.py of the worktree is identical to HEAD (edit not applied?)')
        outs = {}
        procs = []
        for label, root in (('orig', orig_root), ('edit', cwd)):  # the two workers run side by side
            outfile = os.path.join(tmp, label + '.pkl')
            env = dict(os.environ)
            env['PYTHONPATH'] = root
            env['PYTHONHASHSEED'] = '0'
            logfile = open(os.path.join(tmp, label + '.log'), 'wb')
            proc = subprocess.Popen([sys.executable, os.path.abspath(__file__), '--worker', root, outfile],
                                    env=env, cwd=tmp, stdout=logfile, stderr=subprocess.STDOUT)
            procs.append((label, outfile, logfile, proc))
        for label, outfile, logfile, proc in procs:
            proc.wait()
            logfile.close()
            if proc.returncode != 0:  # (the log only holds LAPACK chatter otherwise)
                print(open(logfile.name, errors='replace').read()[-4000:])
                print('worker for %s failed' % label)
                return 1
            with open(outfile, 'rb') as f:
                outs[label] = pickle.load(f)
        a, b = outs['orig'], outs['edit']
        bad = 0
        if len(a) != len(b):
            print('different number of cases', len(a), len(b))
            bad += 1
        stats = {}
        for (ka, ha, ra, sa), (kb, hb, rb, sb) in zip(a, b):
            stats[sa] = stats.get(sa, 0) + 1
            if ka != kb or ha != hb or sa != sb:
                bad += 1
                if bad <= 10:
                    print('MISMATCH in case', ka)
                    print('   orig:', ra[:1500])
                    print('   edit:', rb[:1500])
        print('outcome of the operation under study over the cases:', sorted(stats.items()))
        print('cases compared: %i, mismatches: %i' % (len(a), bad))
        return 1 if bad else 0
    finally:
        shutil.rmtree(tmp, ignore_errors=True)


if __name__ == '__main__':
    if len(sys.argv) > 1 and sys.argv[1] == '--worker':
        worker(sys.argv[2], sys.argv[3])
        sys.exit(0)
    sys.exit(main())

"""
Equivalence check for twin1 (eqsig/fns/time_shift.py: put_array_in_2d_array / join_values_w_shifts /
join_sig_w_time_shift).

Run with twin1 applied and cwd = the worktree.  The ORIGINAL package is extracted from git (HEAD) into a temp dir
and evaluated in a subprocess; the EDITED package (the worktree) is evaluated in another subprocess; the pickled
result lists are then compared exactly (dtype, shape, bytes), including exceptions, argument mutation and
signal-object state.
"""
import os
import pickle
import subprocess
import sys
import tempfile

import numpy as np

WORKTREE = os.path.dirname(os.path.dirname(os.path.abspath(__file__)))


# ----------------------------------------------------------------------------------------------------------------
# generic helpers (run inside the workers)
# ----------------------------------------------------------------------------------------------------------------
def freeze(obj):
    """Turn an object into a picklable, exactly comparable description."""
    if isinstance(obj, np.ndarray):
        return ('nd', str(obj.dtype), obj.shape, np.ascontiguousarray(obj).tobytes())
    if isinstance(obj, np.generic):
        return ('npscalar', str(obj.dtype), obj.tobytes())
    if isinstance(obj, (list, tuple)):
        return (type(obj).__name__, tuple(freeze(o) for o in obj))
    if isinstance(obj, dict):
        return ('dict', tuple((k, freeze(obj[k])) for k in sorted(obj, key=str)))
    if isinstance(obj, (int, float, str, bool, type(None))):
        return (type(obj).__name__, repr(obj))
    return ('other', type(obj).__name__, repr(obj))


def sig_state(sig):
    return freeze(dict(sig.__dict__))


def call(fn, args, kwargs, sig=None):
    """Call fn and record the result or exception + the post-call state of all arguments."""
    try:
        out = ('ok', freeze(fn(*args, **kwargs)))
    except Exception as e:  # noqa
        out = ('exc', type(e).__name__, str(e))
    post_args = tuple(freeze(a) if not hasattr(a, '__dict__') else sig_state(a) for a in args)
    post_kwargs = freeze({k: v for k, v in kwargs.items()})
    return out, post_args, post_kwargs, (sig_state(sig) if sig is not None else None)


# ----------------------------------------------------------------------------------------------------------------
# the cases
# ----------------------------------------------------------------------------------------------------------------
def run_cases(eqsig):
    ts = eqsig.fns.time_shift
    rng = np.random.RandomState(1234)
    res = []
    clips = ['none', 'start', 'end', 'both', None, 'other']

    def value_sets():
        yield np.arange(1, 5)  # int dtype
        yield np.arange(4, 6)
        yield [1.5, -2.0, 3.25]  # list
        yield (1, 2, 3)  # tuple
        yield np.zeros(6)
        yield np.array([7.0])
        yield np.array([], dtype=float)
        yield np.array([1, 2, 3], dtype=np.int32)
        yield np.array([1.0, 2.0, 3.0], dtype=np.float32)
        yield np.array([True, False, True])
        for n in (2, 3, 10, 57):
            yield rng.randn(n)

    def shift_sets():
        yield np.array([1, 2, 3])
        yield np.array([-1, 2])
        yield np.array([0])
        yield np.array([0, 0, 0])
        yield np.array([-3, -1])
        yield np.array([-2, 0, 2])
        yield np.array([5])
        yield np.array([-5])
        yield [1, 2, 3]  # list of python ints
        yield [-1, 0, 4]
        yield (2, -2)
        yield np.array([3, 1, 2], dtype=np.int32)
        yield np.array([3, -1, 2], dtype=np.int16)
        yield np.array([2, 1], dtype=np.uint8)
        yield np.array([], dtype=int)  # error case
        yield np.array([1.0, 2.0])  # float shifts (error case)
        yield np.array([100, -100])
        for n in (1, 2, 5, 12):
            yield rng.randint(-9, 10, size=n)
            yield rng.randint(0, 10, size=n)
            yield rng.randint(-9, 1, size=n)

    vsets = list(value_sets())
    ssets = list(shift_sets())
    for vals in vsets:
        for sfs in ssets:
            for clip in clips:
                v = vals.copy() if isinstance(vals, np.ndarray) else type(vals)(vals)
                s = sfs.copy() if isinstance(sfs, np.ndarray) else type(sfs)(sfs)
                res.append(('put', call(ts.put_array_in_2d_array, (v, s), {'clip': clip})))
            v = vals.copy() if isinstance(vals, np.ndarray) else type(vals)(vals)
            s = sfs.copy() if isinstance(sfs, np.ndarray) else type(sfs)(sfs)
            res.append(('put-default', call(ts.put_array_in_2d_array, (v, s), {})))
            for jtype in ('add', 'sub', 'mul'):
                v = vals.copy() if isinstance(vals, np.ndarray) else type(vals)(vals)
                s = sfs.copy() if isinstance(sfs, np.ndarray) else type(sfs)(sfs)
                res.append(('join', call(ts.join_values_w_shifts, (v, s), {'jtype': jtype})))
            v = vals.copy() if isinstance(vals, np.ndarray) else type(vals)(vals)
            s = sfs.copy() if isinstance(sfs, np.ndarray) else type(sfs)(sfs)
            res.append(('join-default', call(ts.join_values_w_shifts, (v, s), {})))

    # views of the output must behave the same (base / writeable / contiguity flags)
    for sfs in ssets[:8]:
        for clip in clips[:4]:
            out = ts.put_array_in_2d_array(np.arange(1., 6.), sfs, clip=clip)
            res.append(('flags', out.base is None, out.flags['C_CONTIGUOUS'], out.flags['OWNDATA'],
                        out.flags['WRITEABLE'], out.strides))

    # signal based joins (multi-step history on one signal object: state must stay identical)
    for n, dt in ((20, 0.1), (57, 0.01), (5, 0.5), (131, 0.005)):
        for make in (eqsig.Signal, eqsig.AccSignal):
            sig = make(rng.randn(n), dt)
            for tshifts in (np.array([0.0]), np.array([dt, 2 * dt, 3 * dt]), np.array([0.26 * dt, 7.9 * dt]),
                            np.array([0.0, 0.05, 0.11]), rng.rand(4) * n * dt * 0.5, np.array([-dt, dt]),
                            np.array([-2 * dt])):
                for jtype in ('add', 'sub', 'neither'):
                    res.append(('join-sig', call(ts.join_sig_w_time_shift, (sig, tshifts.copy()), {'jtype': jtype},
                                                 sig=sig)))
                res.append(('join-sig-default', call(ts.join_sig_w_time_shift, (sig, tshifts.copy()), {}, sig=sig)))

    # large random sweep
    for _ in range(400):
        n = rng.randint(1, 40)
        vals = rng.randn(n) if rng.rand() < 0.7 else rng.randint(-5, 6, size=n)
        k = rng.randint(1, 8)
        lo = rng.choice([-12, -3, 0])
        sfs = rng.randint(lo, 13, size=k)
        clip = clips[rng.randint(0, 4)]
        res.append(('rand-put', call(ts.put_array_in_2d_array, (vals.copy(), sfs.copy()), {'clip': clip})))
        jtype = ('add', 'sub')[rng.randint(0, 2)]
        res.append(('rand-join', call(ts.join_values_w_shifts, (vals.copy(), sfs.copy()), {'jtype': jtype})))
    return res


# ----------------------------------------------------------------------------------------------------------------
# driver
# ----------------------------------------------------------------------------------------------------------------
def worker(pkg_root, out_file):
    sys.path.insert(0, pkg_root)
    import eqsig
    import eqsig.fns.time_shift  # noqa
    assert os.path.abspath(eqsig.__file__).startswith(os.path.abspath(pkg_root) + os.sep), eqsig.__file__
    import warnings
    warnings.simplefilter('ignore')
    np.seterr(all='ignore')
    res = run_cases(eqsig)
    with open(out_file, 'wb') as f:
        pickle.dump(res, f)


def main():
    tmp = tempfile.mkdtemp(prefix='c19_equiv1_', dir='/tmp')
    orig_root = os.path.join(tmp, 'orig')
    os.makedirs(orig_root)
    subprocess.check_call('git archive HEAD eqsig | tar -x -C "%s"' % orig_root, shell=True, cwd=WORKTREE)
    outs = {}
    for name, root in (('orig', orig_root), ('edit', WORKTREE)):
        of = os.path.join(tmp, name + '.pkl')
        env = dict(os.environ)
        env.pop('PYTHONPATH', None)
        subprocess.check_call([sys.executable, os.path.abspath(__file__), '--worker', root, of], cwd=root, env=env)
        with open(of, 'rb') as f:
            outs[name] = pickle.load(f)
    a, b = outs['orig'], outs['edit']
    assert len(a) == len(b) and len(a) > 0, (len(a), len(b))
    n_ok = 0
    n_exc = 0
    bad = []
    for i, (x, y) in enumerate(zip(a, b)):
        if x != y:
            bad.append((i, x[0]))
        if len(x) > 1 and isinstance(x[1], tuple) and x[1] and isinstance(x[1][0], tuple):
            if x[1][0][0] == 'ok':
                n_ok += 1
            elif x[1][0][0] == 'exc':
                n_exc += 1
    print('cases: %d (returned: %d, raised: %d); mismatches: %d' % (len(a), n_ok, n_exc, len(bad)))
    if bad:
        print('first mismatches:', bad[:10])
        i = bad[0][0]
        print('orig:', a[i])
        print('edit:', b[i])
        sys.exit(1)
    print('twin1 equivalent to original on all cases')
    sys.exit(0)


if __name__ == '__main__':
    if len(sys.argv) >= 4 and sys.argv[1] == '--worker':
        worker(sys.argv[2], sys.argv[3])
    else:
        main()

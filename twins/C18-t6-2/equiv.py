#!/usr/bin/env python
"""
equiv2.py - equivalence program for twin 2 (property C18: two-component rotation and cluster alignment).

Run with the edit applied and cwd = the worktree:

    cd <worktree> && PYTHONPATH=<worktree> python out/equiv2.py

The ORIGINAL package is taken from git (``git archive HEAD eqsig``) into a temporary directory.  The same
deterministic battery of cases is executed by two worker subprocesses, one importing the original package and
one importing the edited package found in os.getcwd().  Every case records the returned value (arrays bit for
bit, with dtype and shape), the exception (type and message), the text printed on stdout, the warnings issued,
and the state of the objects involved as seen through the public API.  The two logs must be identical.

Exit status 0 iff everything matches.
"""
import contextlib
import io
import os
import pickle
import subprocess
import sys
import tarfile
import tempfile
import types
import warnings

TWIN = 2
DTYPES = ['>f8', '<f4', '>i4', '<i2', 'f2', 'u1', 'u8', 'c16', '?', 'O']


# ----------------------------------------------------------------------------------------------------------
# encoding of results into plain comparable python structures
# ----------------------------------------------------------------------------------------------------------
def enc(obj, depth=0):
    import numpy as np
    if depth > 6:
        return ('deep', repr(type(obj)))
    if obj is None or isinstance(obj, (bool, str, bytes)):
        return (type(obj).__name__, obj)
    if isinstance(obj, int):
        return ('int', obj)
    if isinstance(obj, float) and not isinstance(obj, np.generic):
        return ('float', repr(obj))
    if isinstance(obj, complex) and not isinstance(obj, np.generic):
        return ('complex', repr(obj))
    if isinstance(obj, np.ndarray):
        if obj.dtype == object:
            return ('ndo', obj.shape, [enc(x, depth + 1) for x in obj.ravel().tolist()])
        return ('nd', obj.dtype.str, obj.shape, np.ascontiguousarray(obj).tobytes())
    if isinstance(obj, np.generic):
        return ('ns', obj.dtype.str, obj.tobytes())
    if isinstance(obj, (list, tuple)):
        return (type(obj).__name__, [enc(x, depth + 1) for x in obj])
    if isinstance(obj, dict):
        return ('dict', [(enc(k, depth + 1), enc(v, depth + 1)) for k, v in obj.items()])
    cname = type(obj).__name__
    if cname in ('Signal', 'AccSignal'):
        return ('sig', cname, enc(obj.label), enc(obj.dt), enc(obj.values), enc(obj.npts))
    if cname == 'Cluster':
        return cluster_state(obj)
    return ('other', cname)


def cluster_state(c):
    return ('cluster', enc(c.master_index), enc(c.master), enc(list(c.names)), enc(c.dt), enc(c.n_signals),
            [(enc(k), enc(sig)) for k, sig in c.signals.items()])


def run_case(fn):
    buf = io.StringIO()
    with warnings.catch_warnings(record=True) as wlist:
        warnings.simplefilter('always')
        with contextlib.redirect_stdout(buf):
            try:
                res = ('ok', enc(fn()))
            except Exception as e:
                res = ('exc', type(e).__name__, str(e))
    return res, buf.getvalue(), [(w.category.__name__, str(w.message)) for w in wlist]


# ----------------------------------------------------------------------------------------------------------
# the battery (executed inside each worker)
# ----------------------------------------------------------------------------------------------------------
def battery():
    import numpy as np
    import eqsig
    from eqsig import multiple
    from eqsig.fns import average as fav
    from eqsig.fns import time_shift as fts

    log = []

    def rec(cid, fn, *after):
        out = run_case(fn)
        extra = [enc(a() if callable(a) else a) for a in after]
        log.append((cid, out, extra))

    nan = float('nan')

    # ---- A. time_indices over a full grid -------------------------------------------------------------
    npts_l = [0, 1, 5, 100]
    dt_l = [0.01, 0.1, 0.5, 1, 2, 0.3, 0, np.float32(0.02), np.float64(0.25)]
    start_l = [0, 0.0, 0.3, 1, 2.5, -1, -0.5, 7, nan, np.int64(2)]
    end_l = [-1, -1.0, 0, 0.5, 1, 3, 4.99, 50, 1000, -2, None, np.int64(-1), np.float64(-1), nan, True]
    index_l = [False, True, 0, 1, None, np.False_, "x"]
    for npts in npts_l:
        for dt in dt_l:
            for start in start_l:
                for end in end_l:
                    for index in index_l:
                        cid = ('A', npts, repr(dt), repr(start), repr(end), repr(index))
                        rec(cid, lambda: fts.time_indices(npts, dt, start, end, index))
    rec(('A', 'public-names'), lambda: (eqsig.time_indices is fts.time_indices,
                                          eqsig.get_section_average is fav.get_section_average,
                                          eqsig.fns.time_indices is fts.time_indices))

    # ---- B. get_section_average on many series ----------------------------------------------------------
    rng = np.random.RandomState(1801)
    series = []
    for k in range(36):
        n = [1, 2, 3, 7, 20, 101, 250][k % 7]
        dt = [0.01, 0.1, 0.5, 1.0, 0.3, 2][k % 6]
        kind = k % 5
        if kind == 0:
            vals = rng.randn(n)
        elif kind == 1:
            vals = rng.randint(-9, 10, size=n)
        elif kind == 2:
            vals = list(rng.randn(n))
        elif kind == 3:
            vals = rng.randn(n).astype(np.float32)
        else:
            vals = [int(v) for v in rng.randint(-3, 4, size=n)]
        if k % 3 == 0:
            s = eqsig.Signal(vals, dt)
        elif k % 3 == 1:
            s = eqsig.AccSignal(vals, dt)
        else:
            s = types.SimpleNamespace(values=np.array(vals), dt=dt, npts=n)
        series.append((k, s))
    sa_args = [dict(), dict(start=0, end=1), dict(start=0.0, end=-1), dict(start=0.2, end=0.9),
               dict(start=1, end=5), dict(start=0, end=0), dict(start=3, end=1), dict(start=-1, end=2),
               dict(end=-1.0), dict(end=1e6), dict(start=2, end=6, index=True), dict(start=0, end=-1, index=True),
               dict(start=0, end=None, index=True), dict(start=None, end=None, index=True),
               dict(start=1, end=3, index=1), dict(start=1, end=3, index=0), dict(start=1.5, end=3, index=True),
               dict(start=0, end=10 ** 6, index=True), dict(start=-3, end=-1, index=True),
               dict(start=0.05, end=0.15), dict(start=0, end=0.5), dict(start=0, end=2.0), dict(end=0.999),
               dict(start=0, end=np.int64(1)), dict(start=np.float64(0.1), end=np.float64(0.4))]
    for k, s in series:
        for j, kw in enumerate(sa_args):
            before = enc(s.values)
            rec(('B', 'fn', k, j), lambda: fav.get_section_average(s, **kw), lambda: enc(s.values) == before)
            rec(('B', 'top', k, j), lambda: eqsig.get_section_average(s, **kw))
            if hasattr(s, 'get_section_average'):
                rec(('B', 'meth', k, j), lambda: s.get_section_average(**kw), lambda: enc(s.values) == before)
        rec(('B', 'pos', k), lambda: fav.get_section_average(s, 0, 1, False))
        rec(('B', 'pos2', k), lambda: fav.get_section_average(s, 0, 1, True))

    # ---- C. combine_at_angle ------------------------------------------------------------------------------
    rng = np.random.RandomState(1802)
    pairs = []
    for k in range(48):
        n = [1, 2, 3, 5, 16, 33, 64, 120][k % 8]
        dt = [0.01, 0.02, 0.005, 0.1, 1][k % 5]
        kind = k % 6
        if kind == 0:
            a, b = rng.randn(n), rng.randn(n)
        elif kind == 1:
            a, b = rng.randint(-50, 51, size=n), rng.randint(-50, 51, size=n)
        elif kind == 2:
            a, b = list(rng.randn(n)), list(rng.randn(n))
        elif kind == 3:
            a, b = rng.randn(n).astype(np.float32), rng.randn(n)
        elif kind == 4:
            a, b = rng.randn(n) * 1e-8, rng.randint(0, 3, size=n)
        else:
            t = np.arange(n) * dt
            a, b = np.sin(3 * t), np.cos(2 * t) * 0.3
        cls_a = eqsig.AccSignal if k % 4 != 3 else eqsig.Signal
        cls_b = eqsig.AccSignal if k % 7 != 6 else eqsig.Signal
        pairs.append((k, cls_a(a, dt, label='ns%i' % k), cls_b(b, dt * (2 if k % 11 == 10 else 1), label='we%i' % k)))
    angles = [0, 0.0, 90, 90.0, 180, 270, 360, 45, -45, 30.5, 1e-9, 123.456, -720.25, 1e6, np.float64(12.5),
              np.float32(12.5), np.int64(60), 89.99999999, nan, float('inf'), True]
    angles += list(np.random.RandomState(5).uniform(-400, 400, size=20))
    for k, ns, we in pairs:
        for j, ang in enumerate(angles):
            b_ns, b_we = enc(ns), enc(we)
            rec(('C', k, j), lambda: multiple.combine_at_angle(ns, we, ang),
                lambda: (enc(ns) == b_ns, enc(we) == b_we))
            rec(('C', 'top', k, j), lambda: eqsig.combine_at_angle(ns, we, angle=ang + 180))
    # unequal lengths / odd angle forms
    s5 = eqsig.AccSignal(np.arange(5.), 0.1)
    s6 = eqsig.AccSignal(np.arange(6.), 0.1)
    s1 = eqsig.AccSignal([2.0], 0.1)
    for j, ang in enumerate([0, 33.0, [10.0], np.array([10.0, 20.0, 30.0, 40.0, 50.0]), None, 'x']):
        rec(('C', 'odd', j, 0), lambda: multiple.combine_at_angle(s5, s6, ang))
        rec(('C', 'odd', j, 1), lambda: multiple.combine_at_angle(s5, s1, ang))
        rec(('C', 'odd', j, 2), lambda: multiple.combine_at_angle(s5, s5, ang))
    rec(('C', 'odd', 'noattr'), lambda: multiple.combine_at_angle(np.arange(3.), s5, 10))

    # ---- D. compute_rotated -------------------------------------------------------------------------------
    rng = np.random.RandomState(1803)
    rpairs = []
    for k in range(8):
        n = [2, 3, 8, 31, 64, 100, 17, 50][k]
        dt = [0.01, 0.02, 0.005, 0.1, 0.01, 0.05, 1, 0.01][k]
        if k % 3 == 0:
            a, b = rng.randn(n), rng.randn(n)
        elif k % 3 == 1:
            a, b = rng.randint(-5, 6, size=n), rng.randint(-5, 6, size=n)
        else:
            t = np.arange(n) * dt
            a, b = list(np.sin(7 * t) * np.exp(-t)), list(0.5 * np.cos(5 * t))
        rpairs.append((k, eqsig.AccSignal(a, dt), eqsig.AccSignal(b, dt)))

    calls = []

    def f_scalar(sig):
        return float(np.max(np.abs(sig.values)))

    def f_np(sig):
        return np.sum(sig.values ** 2)

    def f_arr(sig):
        return np.cumsum(np.abs(sig.values))

    def f_list(sig):
        return [1.0, float(sig.values[0])]

    def f_tuple(sig):
        return (sig.npts, sig.dt)

    def f_str(sig):
        return "ab%i" % sig.npts

    def f_empty(sig):
        return []

    def f_none(sig):
        return None

    def f_state(sig):
        calls.append((type(sig).__name__, sig.label, enc(sig.dt), enc(sig.values)))
        return len(calls)

    def f_raise(sig):
        calls.append('r')
        if len(calls) >= 2:
            raise RuntimeError("stop at %i" % len(calls))
        return 1.0

    def f_mut(sig):
        sig.reset_values(sig.values * 0 + 1.5)
        return sig.pga

    measures = [dict(parameter='arias_intensity'), dict(parameter='pga'), dict(parameter='pgv'),
                dict(parameter='pgd'), dict(parameter='npts'), dict(parameter='values'), dict(parameter='label'),
                dict(parameter='nope'), dict(parameter='arias_intensity', func=f_scalar),
                dict(parameter='pga', func=f_scalar), dict(), dict(parameter=None, func=None),
                dict(func=f_scalar), dict(func=f_np), dict(func=f_arr), dict(func=f_list), dict(func=f_tuple),
                dict(func=f_str), dict(func=f_empty), dict(func=f_none), dict(func=f_state), dict(func=f_raise),
                dict(func=f_mut), dict(func=eqsig.im.calc_arias_intensity), dict(func=eqsig.im.calc_cav),
                dict(parameter='', func=f_scalar), dict(parameter=0, func=f_scalar), dict(func=0)]
    offsets = [0.0, 0, 30, -30.5, 200, 540.25, np.float64(-12.0)]
    points_l = [0, 1, 2, 5, 13]
    for k, ns, we in rpairs:
        for io_, off in enumerate(offsets):
            for im_, m in enumerate(measures):
                for pts in (points_l if (k + io_ + im_) % 2 == 0 else [points_l[(k + io_ + im_) % 5]]):
                    del calls[:]
                    b_ns, b_we = enc(ns), enc(we)
                    rec(('D', k, io_, im_, pts),
                        lambda: multiple.compute_rotated(ns, we, angle_off_ns=off, points=pts, **m),
                        lambda: list(calls), lambda: (enc(ns) == b_ns, enc(we) == b_we))
    # defaults, positional forms, top-level name, assertion failures
    k, ns, we = rpairs[4]
    rec(('D', 'default'), lambda: eqsig.compute_rotated(ns, we, parameter='pga'))
    rec(('D', 'default-arias'), lambda: eqsig.compute_rotated(ns, we, 15.0, 'arias_intensity'))
    rec(('D', 'positional'), lambda: multiple.compute_rotated(ns, we, 10.0, None, f_np, 7))
    rec(('D', 'positional2'), lambda: multiple.compute_rotated(ns, we, 10.0, 'pgv', None, 7))
    rec(('D', 'half-circle'), lambda: multiple.compute_rotated(ns, we, func=f_np, points=181))
    sg = eqsig.Signal(ns.values, ns.dt)
    other_dt = eqsig.AccSignal(ns.values, ns.dt * 2)
    other_n = eqsig.AccSignal(ns.values[:-3], ns.dt)
    for j, (x, y) in enumerate([(sg, we), (ns, sg), (ns, other_dt), (other_n, we), (ns, other_n), (None, we),
                                (ns.values, we.values)]):
        rec(('D', 'assert', j), lambda: multiple.compute_rotated(x, y, parameter='pga', points=3))
    for j, pts in enumerate([-1, 2.0, None, '3', True, np.int64(4)]):
        rec(('D', 'points', j), lambda: multiple.compute_rotated(ns, we, parameter='pga', points=pts))
    for j, off in enumerate([None, 'a', [0.0, 10.0], nan, float('inf')]):
        rec(('D', 'off', j), lambda: multiple.compute_rotated(ns, we, angle_off_ns=off, func=f_np, points=4))

    # ---- E. Cluster: construction, time_match, same_start, histories --------------------------------------
    rng = np.random.RandomState(1804)
    n_clusters = 1500
    for ci in range(n_clusters):
        n_sig = [2, 3, 4, 2, 3, 4, 2, 1][ci % 8]
        length = int(rng.choice([4, 6, 9, 12, 15, 21, 30, 47, 64, 90, 120]))
        steps_gen = int(rng.choice([1, 2, 3, 5, 8, 10, 12]))
        dt = float(rng.choice([0.01, 0.1, 0.5, 1.0, 0.3]))
        kind = ci % 9
        total = length + 2 * steps_gen + 2
        if kind == 0:
            base = np.cumsum(rng.randn(total))
        elif kind == 1:
            base = rng.randint(-6, 7, size=total)                    # integer typed
        elif kind == 2:
            base = np.sin(np.arange(total) * 0.37) + 0.01 * np.arange(total)
        elif kind == 3:
            base = np.tile(np.array([1, 3, 2]), total // 3 + 1)[:total]          # periodic integers: exact ties
        elif kind == 4:
            base = np.tile(np.array([0.5, -1.25, 2.0, 0.75]), total // 4 + 1)[:total]  # periodic floats (exact)
        elif kind == 5:
            base = np.ones(total) * 2.5                               # constant: everything ties
        elif kind == 6:
            base = rng.randn(total).astype(np.float32)
        elif kind == 7:
            base = rng.randn(total)
            base[rng.randint(0, total)] = nan                          # a NaN somewhere
        else:
            base = np.round(rng.randn(total) * 4) / 4.0               # quarter valued: exact arithmetic, some ties
        lags = [int(rng.randint(-steps_gen + 1, steps_gen)) if steps_gen > 1 else 0 for _ in range(n_sig)]
        if ci % 4 == 0:
            lags[int(rng.randint(0, n_sig))] = 0
        vals = []
        for s in range(n_sig):
            st = steps_gen + 1 + lags[s]
            ln = length
            if ci % 10 == 7 and s == n_sig - 1:
                ln = length - int(rng.randint(1, 3))                   # ragged: last one shorter
            if ci % 10 == 8 and s == n_sig - 1:
                ln = length + 2                                         # ragged: last one longer
            if ci % 10 == 9 and s == 0:
                ln = max(length - 2, 1)                                 # ragged: first one shorter
            v = base[st:st + ln]
            if ci % 3 == 1 and kind not in (1, 3):
                v = v + [0.0, 0.3, -1.7, 12.0][s]                       # offsets (for same_start)
            elif ci % 3 == 2 and kind == 0:
                v = v + 1e-3 * rng.randn(len(v))                        # noise
            else:
                v = np.array(v)
            if ci % 5 == 3:
                v = [x.item() for x in v]                               # plain python lists
            vals.append(v)
        master_index = int(rng.randint(0, n_sig)) if ci % 6 else int(rng.randint(-1, n_sig + 2))
        ckw = dict(dt=dt)
        if ci % 7 == 1:
            ckw['names'] = ['a', 'b', 'c', 'd', 'e'][:int(rng.randint(0, n_sig + 2))]
        if ci % 7 == 2:
            ckw['stypes'] = 'acc'
        if ci % 7 == 3:
            ckw['stypes'] = ['acc', 'custom', 'acc', 'other'][:n_sig]
        if ci % 7 == 4:
            vals = tuple(vals)
        if ci % 9 == 5:
            ckw['freq_range'] = [0.5, 10]
        inputs_before = enc(list(vals))

        # operations are drawn BEFORE anything is executed so both workers see the same history
        ops = []
        n_ops = int(rng.randint(1, 6))
        for oi in range(n_ops):
            r = rng.randint(0, 100)
            if r < 40:
                kw = [dict(), dict(steps=steps_gen), dict(steps=steps_gen + 1), dict(steps=steps_gen, verbose=1),
                      dict(steps=int(rng.randint(0, 16))), dict(steps=length + 3), dict(steps=length),
                      dict(steps=length - 1), dict(steps=-2), dict(set_step=3), dict(set_step=0),
                      dict(set_step=True, verbose=1), dict(set_step=False, trim=False, foo=1, steps=steps_gen),
                      dict(verbose=2), dict(steps=2.0), dict(steps=None)][int(rng.randint(0, 16))]
                ops.append(('time_match', kw))
            elif r < 75:
                kw = [dict(), dict(verbose=1), dict(start=0, end=-1), dict(start=0.0, end=float(dt * 3)),
                      dict(start=float(dt), end=float(dt * (length // 2))), dict(base=3, foo=2),
                      dict(end=-1.0), dict(end=1e6), dict(start=-dt, end=dt * 2), dict(start=2, end=1),
                      dict(end=float(dt * (length - 1))), dict(end=float(dt * length)), dict(start=None),
                      dict(start=0, end=0, verbose=True)][int(rng.randint(0, 14))]
                ops.append(('same_start', kw))
            elif r < 85:
                ops.append(('set_master', int(rng.randint(-2, n_sig + 1))))
            elif r < 93:
                i = int(rng.randint(0, n_sig))
                newlen = length if rng.randint(0, 3) else length + int(rng.randint(-2, 3))
                ops.append(('reset', i, rng.randn(max(newlen, 1)) if rng.randint(0, 2)
                            else [int(x) for x in rng.randint(-4, 5, size=max(newlen, 1))]))
            else:
                ops.append(('add_constant', int(rng.randint(0, n_sig)), float(rng.randn())))

        holder = {}

        def build():
            holder['c'] = multiple.Cluster(vals, master_index=master_index, **ckw)
            return holder['c']

        rec(('E', ci, 'init', lags, master_index), build, lambda: enc(list(vals)) == inputs_before)
        c = holder.get('c')
        if c is None:
            continue
        rec(('E', ci, 'access'), lambda: (c.time, c.values_by_index(0), c.name_by_index(n_sig - 1),
                                          c.values(c.master), c.signal_by_index(-1)))
        for oi, op in enumerate(ops):
            if op[0] == 'time_match':
                fn = (lambda: c.time_match(**op[1]))
            elif op[0] == 'same_start':
                fn = (lambda: c.same_start(**op[1]))
            elif op[0] == 'set_master':
                fn = (lambda: setattr(c, 'master_index', op[1]))
            elif op[0] == 'reset':
                fn = (lambda: c.signal_by_index(op[1]).reset_values(op[2]))
            else:
                fn = (lambda: c.signal_by_index(op[1]).add_constant(op[2]))
            rec(('E', ci, oi, op[0], repr(op[1])), fn, lambda: cluster_state(c),
                lambda: enc(list(vals)) == inputs_before)

    # ---- F. directed alignment cases: every lag in (-steps, steps), every master, 2..4 signals --------------
    rng = np.random.RandomState(1805)
    for steps in [1, 2, 4, 10]:
        for n_sig in [2, 3, 4]:
            for master_index in range(n_sig):
                for lag in range(-steps + 1, steps):
                    for dtype_kind in range(3):
                        length = 40 + steps
                        total = length + 2 * steps + 2
                        if dtype_kind == 0:
                            base = np.cumsum(rng.randn(total))
                        elif dtype_kind == 1:
                            base = rng.randint(-100, 101, size=total)
                        else:
                            base = np.cumsum(rng.randn(total)).astype(np.float32)
                        vals = []
                        for s in range(n_sig):
                            lg = 0 if s == master_index else (lag if s % 2 else -lag)
                            vals.append(base[steps + 1 + lg: steps + 1 + lg + length].copy())
                        c = multiple.Cluster(vals, dt=0.1, master_index=master_index,
                                             stypes='acc' if lag % 2 else 'custom')
                        cid = ('F', steps, n_sig, master_index, lag, dtype_kind)
                        rec(cid + ('tm',), lambda: c.time_match(steps=steps), lambda: cluster_state(c))
                        rec(cid + ('ss',), lambda: c.same_start(start=0.5, end=2.0), lambda: cluster_state(c))
                        rec(cid + ('tm2',), lambda: c.time_match(steps=steps, verbose=lag == 1),
                            lambda: cluster_state(c))
                        rec(cid + ('ss2',), lambda: c.same_start(), lambda: cluster_state(c))

    # ---- G. unusual element types (byte order, narrow / unsigned integers, half floats, complex, bool, object) ---
    rng = np.random.RandomState(1806)
    for dt_ in DTYPES:
        for lag in (-3, -1, 0, 2, 4):
            for master_index in (0, 1, 2):
                base = np.cumsum(rng.randn(70)) * 3
                if dt_ in ('u1', 'u8'):
                    base = np.abs(base)
                base = base.astype(dt_)
                vals = []
                for s in range(3):
                    lg = 0 if s == master_index else (lag if s == 2 else -lag)
                    vals.append(base[10 + lg: 50 + lg])
                holder = {}

                def build():
                    holder['c'] = multiple.Cluster(vals, dt=0.1, master_index=master_index)
                    return holder['c']
                cid = ('G', dt_, lag, master_index)
                rec(cid + ('init',), build)
                c = holder['c']
                rec(cid + ('tm',), lambda: c.time_match(steps=5), lambda: cluster_state(c))
                rec(cid + ('ss',), lambda: c.same_start(start=0, end=1.0), lambda: cluster_state(c))
                rec(cid + ('tm2',), lambda: c.time_match(steps=5, verbose=1), lambda: cluster_state(c))
        a_ns = eqsig.AccSignal(np.abs(np.cumsum(rng.randn(20))).astype(dt_), 0.01)
        a_we = eqsig.AccSignal(np.abs(np.cumsum(rng.randn(20))).astype(dt_), 0.01)
        for ang in (0, 30.0, 90, 200.5):
            rec(('G', dt_, 'combine', ang), lambda: multiple.combine_at_angle(a_ns, a_we, ang))
        rec(('G', dt_, 'rot'), lambda: multiple.compute_rotated(a_ns, a_we, 12.0, func=lambda x: np.sum(x.values), points=5))
    return log


# ----------------------------------------------------------------------------------------------------------
# driver
# ----------------------------------------------------------------------------------------------------------
def worker(pkgroot, outfile):
    sys.path[:] = [pkgroot] + [p for p in sys.path if os.path.abspath(p or '.') != os.path.abspath(pkgroot)]
    import eqsig
    loaded = os.path.dirname(os.path.dirname(os.path.abspath(eqsig.__file__)))
    assert os.path.realpath(loaded) == os.path.realpath(pkgroot), (loaded, pkgroot)
    log = battery()
    with open(outfile, 'wb') as f:
        pickle.dump(log, f, protocol=pickle.HIGHEST_PROTOCOL)


def main():
    cwd = os.getcwd()
    if not os.path.isdir(os.path.join(cwd, 'eqsig')):
        print('run with cwd = the worktree')
        return 2
    tmp = tempfile.mkdtemp(prefix='equiv%i_' % TWIN)
    try:
        orig_root = os.path.join(tmp, 'orig')
        os.mkdir(orig_root)
        tar_path = os.path.join(tmp, 'orig.tar')
        subprocess.check_call(['git', 'archive', '-o', tar_path, 'HEAD', 'eqsig'], cwd=cwd)
        with tarfile.open(tar_path) as tf:
            tf.extractall(orig_root)
        outs = []
        procs = []
        for tag, root in (('orig', orig_root), ('edit', cwd)):
            out = os.path.join(tmp, tag + '.pkl')
            env = dict(os.environ)
            env['PYTHONPATH'] = root
            env['PYTHONDONTWRITEBYTECODE'] = '1'
            env['PYTHONHASHSEED'] = '0'
            procs.append((tag, subprocess.Popen([sys.executable, os.path.abspath(__file__), '--worker', root, out],
                                                cwd=tmp, env=env)))
            outs.append(out)
        for tag, p in procs:
            if p.wait() != 0:
                print('worker %s failed with status %i' % (tag, p.returncode))
                return 3
        logs = []
        for out in outs:
            with open(out, 'rb') as f:
                logs.append(pickle.load(f))
    finally:
        import shutil
        shutil.rmtree(tmp, ignore_errors=True)
    a, b = logs
    bad = 0
    if len(a) != len(b):
        print('different number of cases: %i vs %i' % (len(a), len(b)))
        bad += 1
    for ra, rb in zip(a, b):
        if ra != rb:
            bad += 1
            if bad <= 10:
                print('MISMATCH in case', ra[0])
                print('   original:', repr(ra[1:])[:600])
                print('   edited  :', repr(rb[1:])[:600])
    n_exc = sum(1 for r in a if r[1][0][0] == 'exc')
    print('twin %i: %i cases compared (%i of them raise), %i mismatches' % (TWIN, len(a), n_exc, bad))
    return 0 if bad == 0 else 1


if __name__ == '__main__':
    if len(sys.argv) == 4 and sys.argv[1] == '--worker':
        worker(sys.argv[2], sys.argv[3])
        sys.exit(0)
    sys.exit(main())

"""Equivalence check for twin1 (calc_roll_av_vals staged with an _EdgePad namedtuple).

Run with twin1 applied, cwd = the worktree.  Exit status 0 iff original and edited agree.
"""
import os
import subprocess
import sys
import tempfile
import itertools

import numpy as np

HERE = os.getcwd()


def load_pair():
    """returns (original package, edited package)"""
    sys.path.insert(0, HERE)
    import eqsig as new
    assert new.__file__.startswith(HERE), new.__file__
    saved = {k: v for k, v in sys.modules.items() if k == 'eqsig' or k.startswith('eqsig.')}
    for k in saved:
        del sys.modules[k]
    tmp = tempfile.mkdtemp(prefix='c20_orig_', dir='/tmp')
    subprocess.check_call('git archive HEAD eqsig | tar -x -C %s' % tmp, shell=True, cwd=HERE)
    sys.path.insert(0, tmp)
    import eqsig as old
    assert old.__file__.startswith(tmp), old.__file__
    sys.path.remove(tmp)
    for k in [k for k in sys.modules if k == 'eqsig' or k.startswith('eqsig.')]:
        del sys.modules[k]
    sys.modules.update(saved)
    return old, new


old, new = load_pair()
n_checked = 0


def same(a, b):
    if isinstance(a, tuple):
        return isinstance(b, tuple) and len(a) == len(b) and all(same(p, q) for p, q in zip(a, b))
    if type(a) is not type(b):
        return False
    if isinstance(a, np.ndarray):
        return a.dtype == b.dtype and a.shape == b.shape and np.array_equal(a, b, equal_nan=True) \
            and np.array_equal(np.signbit(a), np.signbit(b))
    if isinstance(a, (float, np.floating)):
        return (a == b or (a != a and b != b))
    return a == b


def call(fn, args, kwargs):
    try:
        return 'ok', fn(*args, **kwargs)
    except Exception as e:  # compare exception classes as well
        return 'exc', type(e)


def check(name, fo, fn_, args, kwargs=None, copier=None):
    """calls both versions on separate copies of the arguments, compares results and argument mutation"""
    global n_checked
    kwargs = kwargs or {}
    import copy
    a_o = copy.deepcopy(args)
    a_n = copy.deepcopy(args)
    ro = call(fo, a_o, kwargs)
    rn = call(fn_, a_n, kwargs)
    assert ro[0] == rn[0], (name, args, kwargs, ro, rn)
    if ro[0] == 'exc':
        assert ro[1] is rn[1], (name, args, kwargs, ro, rn)
    else:
        assert same(ro[1], rn[1]), (name, args, kwargs, ro, rn)
    # arguments must be left in the same state by both (and here: untouched)
    for x, y, z in zip(a_o, a_n, args):
        if isinstance(z, np.ndarray):
            assert same(x, y) and same(x, z), (name, 'argument mutated')
        else:
            assert type(x) is type(y) and x == y and x == z, (name, 'argument mutated')
    n_checked += 1


fo = old.fns.average.calc_roll_av_vals
fn_ = new.fns.average.calc_roll_av_vals
assert fo is not fn_ and fo.__module__ == fn_.__module__
assert new.fns.calc_roll_av_vals is fn_ and old.fns.calc_roll_av_vals is fo
# public names exported by the star-import are unchanged
pub = lambda m: sorted(k for k in vars(m) if not k.startswith('_'))
assert pub(old.fns) == pub(new.fns), set(pub(old.fns)) ^ set(pub(new.fns))
assert pub(old.fns.average) == pub(new.fns.average)
assert fo.__doc__ == fn_.__doc__

rng = np.random.default_rng(20)
modes = ['forward', 'backward', 'centre', 'center', 'other']

# exhaustive: every length 1..12, every window 1..len, every mode, several data kinds
for n in range(1, 13):
    datas = [
        rng.normal(size=n),
        rng.normal(size=n) * 1e6 + 1e3,
        rng.integers(-9, 9, size=n),                 # integer dtype
        list(rng.integers(-9, 9, size=n)),           # list of numpy ints
        [int(v) for v in rng.integers(-9, 9, size=n)],  # list of python ints
        [float(v) for v in rng.normal(size=n)],      # list of floats
        tuple(float(v) for v in rng.normal(size=n)),
        np.zeros(n),
        -np.zeros(n),
        np.full(n, 3.7),
        np.full(n, -2, dtype=np.int32),
        rng.normal(size=n).astype(np.float32),
        rng.random(n) > 0.5,                         # bool
        np.arange(n)[::-1] * 0.1,                    # non-contiguous view
    ]
    for d in datas:
        for steps in range(1, n + 1):
            for mode in modes:
                check('roll', fo, fn_, (d, steps), {'mode': mode})
            check('roll-default', fo, fn_, (d, steps))
            check('roll-positional', fo, fn_, (d, steps, 'backward'))
            # steps given as float / numpy integer / string of digits
            check('roll-floatsteps', fo, fn_, (d, float(steps)), {'mode': 'centre'})
            check('roll-npsteps', fo, fn_, (d, np.int64(steps)), {'mode': 'forward'})
            check('roll-strsteps', fo, fn_, (d, str(steps)), {'mode': 'backward'})

# random longer series
for _ in range(1500):
    n = int(rng.integers(1, 400))
    kind = rng.integers(0, 4)
    if kind == 0:
        d = rng.normal(size=n)
    elif kind == 1:
        d = np.cumsum(rng.normal(size=n)) * 10.0 ** int(rng.integers(-8, 8))
    elif kind == 2:
        d = rng.integers(-1000, 1000, size=n)
    else:
        d = list(rng.normal(size=n))
    steps = int(rng.integers(1, n + 1))
    for mode in modes[:3]:
        check('roll-rand', fo, fn_, (d, steps), {'mode': mode})

# values with nan / inf and signed zeros
for d in ([np.nan, 1.0, 2.0, 3.0], [1.0, np.inf, 2.0, -1.0], [np.inf, 1.0, 2.0, -np.inf], [-0.0, 0.0, -0.0, -0.0, 5.0]):
    for steps in range(1, len(d) + 1):
        for mode in modes:
            with np.errstate(all='ignore'):
                check('roll-nonfinite', fo, fn_, (np.array(d), steps), {'mode': mode})

# outside the documented domain: both must fail (or not) in the same way
for d, steps in itertools.product([np.arange(5.0), [1, 2, 3]], [0, -1, -2, 7, 9, 2.9]):
    for mode in modes:
        check('roll-odd', fo, fn_, (d, steps), {'mode': mode})
for mode in modes:
    check('roll-empty', fo, fn_, (np.array([]), 1), {'mode': mode})
    check('roll-empty', fo, fn_, ([], 2), {'mode': mode})
    check('roll-2d', fo, fn_, (np.arange(6.0).reshape(2, 3), 2), {'mode': mode})
    check('roll-none', fo, fn_, (None, 2), {'mode': mode})

# the other functions of the module are untouched
for name in ['calc_step_fn_vals_error', 'calc_step_fn_steps_vals', 'get_section_average']:
    import inspect
    assert inspect.getsource(getattr(old.fns.average, name)) == inspect.getsource(getattr(new.fns.average, name))
for _ in range(200):
    n = int(rng.integers(2, 30))
    d = rng.normal(size=n)
    for p in (1, 2):
        for dr in (None, 'up', 'down'):
            check('err', old.fns.calc_step_fn_vals_error, new.fns.calc_step_fn_vals_error, (d,), {'pow': p, 'dir': dr})
    check('steps', old.fns.calc_step_fn_steps_vals, new.fns.calc_step_fn_steps_vals, (d,))

print('equiv1: %d comparisons identical' % n_checked)
sys.exit(0)

"""Equivalence check for twin3 (eqsig/surface.py: shared helper _calc_up_and_down_waves extracted).

Run with the twin applied and cwd = the worktree. Compares the ORIGINAL (git HEAD) versions of
trim_to_length / calc_surface_energy / calc_cum_abs_surface_energy / get_time_shift_motions with
the edited ones, bit for bit. Exit status 0 iff everything matches.
"""
import copy
import itertools
import os
import subprocess
import sys
import types

sys.path.insert(0, os.getcwd())

import numpy as np

import eqsig
import eqsig.surface as new_mod

assert os.path.abspath(eqsig.__file__).startswith(os.getcwd()), eqsig.__file__
np.seterr(all='ignore')


def load_original(relpath, modname, package):
    src = subprocess.check_output(['git', 'show', 'HEAD:' + relpath]).decode()
    mod = types.ModuleType(modname)
    mod.__package__ = package
    mod.__file__ = '<git HEAD:%s>' % relpath
    exec(compile(src, mod.__file__, 'exec'), mod.__dict__)
    return mod


old_mod = load_original('eqsig/surface.py', 'eqsig._orig_surface', 'eqsig')

N_CHECKS = 0
N_OK = 0


def snapshot(obj):
    """A comparable picture of an argument / object state (used to detect mutation)."""
    if isinstance(obj, np.ndarray):
        return ('nd', obj.dtype.str, obj.shape, obj.tobytes())
    if isinstance(obj, (list, tuple)):
        return (type(obj).__name__, tuple(snapshot(o) for o in obj))
    if isinstance(obj, dict):
        return ('dict', tuple(sorted((repr(k), snapshot(v)) for k, v in obj.items())))
    if hasattr(obj, '__dict__') and not isinstance(obj, type):
        return ('obj', type(obj).__name__, tuple(sorted((k, snapshot(v)) for k, v in vars(obj).items())))
    return ('val', repr(obj))


def same_array(a, b, ctx):
    assert type(a) is type(b), (ctx, type(a), type(b))
    assert isinstance(a, np.ndarray), (ctx, type(a))
    assert a.dtype == b.dtype, (ctx, a.dtype, b.dtype)
    assert a.shape == b.shape, (ctx, a.shape, b.shape)
    assert np.array_equal(a, b, equal_nan=True), (ctx, a, b)
    assert a.tobytes() == b.tobytes(), (ctx, 'bytes differ')  # bit for bit, signed zeros included
    assert (a.base is None) == (b.base is None), (ctx, 'view/owner differs')
    assert a.flags['C_CONTIGUOUS'] == b.flags['C_CONTIGUOUS'], ctx
    assert a.flags['WRITEABLE'] == b.flags['WRITEABLE'], ctx


def run(fn, args, kwargs):
    try:
        return ('ok', fn(*args, **kwargs))
    except Exception as exc:  # noqa
        return ('exc', type(exc))


def compare(name, args, kwargs=None, identity_arg=None):
    """Call old and new on private deep copies of the arguments and compare everything observable."""
    global N_CHECKS, N_OK
    kwargs = kwargs or {}
    a_old, k_old = copy.deepcopy(args), copy.deepcopy(kwargs)
    a_new, k_new = copy.deepcopy(args), copy.deepcopy(kwargs)
    before = snapshot(list(args)), snapshot(kwargs)
    r_old = run(getattr(old_mod, name), a_old, k_old)
    r_new = run(getattr(new_mod, name), a_new, k_new)
    ctx = (name, args, kwargs)
    assert r_old[0] == r_new[0], (ctx, r_old, r_new)
    if r_old[0] == 'exc':
        assert r_old[1] is r_new[1], (ctx, r_old, r_new)
    else:
        same_array(r_old[1], r_new[1], ctx)
        if identity_arg is not None:  # "returns its argument unchanged" must stay so
            assert (r_old[1] is a_old[identity_arg]) == (r_new[1] is a_new[identity_arg]), (ctx, 'identity')
    after_old = snapshot(list(a_old)), snapshot(k_old)
    after_new = snapshot(list(a_new)), snapshot(k_new)
    assert after_old == after_new, (ctx, 'argument / object state effects differ')
    assert after_old == before, (ctx, 'arguments were modified')
    N_CHECKS += 1
    N_OK += r_old[0] == 'ok'
    return r_old


rng = np.random.RandomState(19)
BOOLS = [True, False]

# ------------------------------------------------------------------ trim_to_length, directly
for _ in range(1500):
    npts = rng.randint(1, 25)
    dt = [0.01, 0.1, 0.5, 0.25, 1.0][rng.randint(5)]
    k = rng.randint(1, 5)
    kind = rng.randint(5)
    if kind == 0:
        tts = rng.randint(0, 8, size=k) * dt                     # integer multiples of dt
    elif kind == 1:
        tts = rng.randint(0, 16, size=k) * dt / 2                # integer multiples of dt / 2
    elif kind == 2:
        tts = rng.rand(k) * 6 * dt                               # fractional
    elif kind == 3:
        tts = np.zeros(k)                                        # zero travel time
    else:
        tts = rng.randint(-4, 8, size=k) * dt                    # (out of domain) negative entries
    stt = [0.0, 0.0, dt, 3 * dt, 2.5 * dt, 10 * dt, rng.rand() * 8 * dt][rng.randint(7)]
    width = npts + rng.randint(0, 40)                            # sometimes too narrow: must fail alike
    values = rng.randn(k, width)
    if rng.rand() < 0.2:
        values = rng.randint(-5, 5, size=(k, width))             # integer dtype
    for trim, start in itertools.product(BOOLS, BOOLS):
        compare('trim_to_length', [values, npts, tts, dt],
                {'trim': trim, 'start': start, 's2s_travel_time': stt}, identity_arg=0)
    compare('trim_to_length', [values, npts, tts, dt], identity_arg=0)          # defaults
    compare('trim_to_length', [values, npts, tts, dt, 1, 0, stt], identity_arg=0)  # truthy ints, positional
    compare('trim_to_length', [values, npts, tts, dt, 0, 1, stt], identity_arg=0)
# wide enough for every case, with large start shifts
for _ in range(300):
    npts = rng.randint(1, 12)
    dt = 0.1
    k = rng.randint(1, 4)
    tts = rng.randint(0, 6, size=k) * dt
    stt = rng.randint(0, 15) * dt
    values = rng.randn(k, 4 * npts + 60)
    for trim, start in itertools.product(BOOLS, BOOLS):
        compare('trim_to_length', [values, npts, tts, dt],
                {'trim': trim, 'start': start, 's2s_travel_time': stt}, identity_arg=0)
# invalid travel-time containers fail alike
compare('trim_to_length', [np.zeros((2, 9)), 5, [0.1, 0.2], 0.1], {'trim': True})
compare('trim_to_length', [np.zeros((2, 9)), 5, np.float64(0.1), 0.1], {'trim': True})
compare('trim_to_length', [np.zeros((2, 9)), 5, np.float64(0.1), 0.1], {'start': True})
compare('trim_to_length', [np.zeros((2, 9)), 5, np.float64(0.1), 0.1], identity_arg=0)


# ------------------------------------------------------------------ the public functions
def make_records():
    recs = []
    recs.append((np.arange(10), 0.5))                                 # integer dtype (test-suite case)
    recs.append((np.sin(np.linspace(0, 10, 100)), 0.1))
    recs.append((np.zeros(12), 0.01))                                 # zeros
    recs.append((np.array([1.0, -2.0]), 0.1))                         # short
    recs.append((np.array([3.0]), 0.2))                               # single sample
    recs.append(([0.0, 1.0, 0.5, -0.25, 0.0, 2.0], 0.05))             # list
    recs.append((rng.randn(57), 0.01))
    recs.append((rng.randn(200) * 1e6, 0.005))
    recs.append((rng.randint(-3, 4, size=31), 0.02))
    return recs


def travel_time_sets(dt, npts):
    sets = [
        0.0, dt / 2, dt, 0.37 * dt, 2.5 * dt, 3,                          # scalars (float and int)
        np.float64(dt),                                                     # numpy scalar (has no length -> fails alike)
        np.array([0.0]), np.array([dt]), np.array([0.3 * dt]),              # single-entry arrays
        np.array([0.0, 0.0]),
        np.array([0.0, dt / 2, dt, 1.5 * dt, 4 * dt]),                      # integer multiples of dt / 2
        np.array([0.0, 0.01, 0.2, 1.5]),
        np.array([0.13 * dt, 2.71 * dt, 0.0]),                              # fractional, unordered
        [0.0, dt, 2 * dt],                                                  # list
        (dt, 3 * dt),                                                       # tuple
        np.array([1, 2, 0]),                                                # integer dtype
        np.array([npts * dt, 2 * npts * dt]),                               # delays longer than the record
        np.array([-dt, dt]),                                                # (out of domain) negative
    ]
    return sets


def reductions(tts):
    n = len(tts) if hasattr(tts, '__len__') else 1
    alpha = rng.rand(n) + 0.25
    return [
        {},                                                      # defaults
        {'up_red': 1, 'down_red': 1},
        {'up_red': 0.8, 'down_red': 0.6},
        {'up_red': 2.0, 'down_red': 2.0},
        {'up_red': alpha, 'down_red': alpha[::-1].copy()},       # arrays
        {'up_red': np.ones(n), 'down_red': np.ones(n)},
        {'up_red': list(alpha), 'down_red': list(alpha)},        # lists are rejected - alike
        {'up_red': alpha, 'down_red': 0.5},                      # mixed forms
        {'up_red': np.float64(0.9), 'down_red': np.float64(0.7)},
    ]


FUNCS = ['calc_surface_energy', 'calc_cum_abs_surface_energy', 'get_time_shift_motions']
for vals, dt in make_records():
    npts = len(vals)
    for tts in travel_time_sets(dt, npts):
        for red in reductions(tts):
            for nodal, trim, start in itertools.product(BOOLS, BOOLS, BOOLS):
                for stt in (0.0, dt, 2.6 * dt, 12 * dt):
                    if stt and not start and rng.rand() < 0.6:
                        continue  # stt only matters with start=True; keep a sample of the rest
                    asig = eqsig.AccSignal(np.array(vals), dt)
                    kw = dict(red, nodal=nodal, trim=trim, start=start, stt=stt)
                    for fname in FUNCS:
                        compare(fname, [asig, tts], kw)
            asig = eqsig.AccSignal(np.array(vals), dt)
            for fname in FUNCS:
                compare(fname, [asig, tts], dict(red))                       # all options defaulted
                if not red:
                    compare(fname, [asig, tts, False, 0.9, 0.8, dt, True, True])  # positional

# ------------------------------------------------------------------ multi-step histories on one object
for _ in range(25):
    n = rng.randint(2, 80)
    dt = [0.01, 0.02, 0.1][rng.randint(3)]
    base = rng.randn(n)
    sig_old = eqsig.AccSignal(base.copy(), dt)
    sig_new = eqsig.AccSignal(base.copy(), dt)
    for step in range(8):
        action = rng.randint(4)
        if action == 0:      # warm caches
            for s in (sig_old, sig_new):
                _ = s.velocity
                _ = s.displacement
        elif action == 1:    # edit the record in place through the public API
            extra = rng.randn(len(sig_old.values))
            sig_old.add_series(extra)
            sig_new.add_series(extra)
        elif action == 2:
            for s in (sig_old, sig_new):
                s.generate_response_spectrum(response_times=np.array([0.1, 0.5]))
        k = rng.randint(1, 4)
        tts = rng.rand(k) * 5 * dt * (rng.rand() > 0.2)
        kw = dict(nodal=bool(rng.randint(2)), trim=bool(rng.randint(2)), start=bool(rng.randint(2)),
                  stt=float(rng.randint(0, 4) * dt))
        if rng.rand() < 0.5:
            kw.update(up_red=rng.rand(k) + 0.5, down_red=rng.rand(k) + 0.5)
        fname = FUNCS[rng.randint(3)]
        r_old = getattr(old_mod, fname)(sig_old, tts.copy(), **copy.deepcopy(kw))
        r_new = getattr(new_mod, fname)(sig_new, tts.copy(), **copy.deepcopy(kw))
        same_array(r_old, r_new, (fname, 'history', step))
        assert snapshot(sig_old) == snapshot(sig_new), ('object state differs', fname, step)
        N_CHECKS += 1
        N_OK += 1

# ------------------------------------------------------------------ the property itself still holds on the new code
asig = eqsig.AccSignal(np.sin(np.linspace(0, 10, 100)), 0.1)
tts = np.array([0.0, 0.05, 0.1, 0.23])
cum = new_mod.calc_cum_abs_surface_energy(asig, tts, nodal=True, trim=True)
assert cum.shape == (4, asig.npts)
assert np.all(np.diff(cum, axis=-1) >= 0)
assert np.all(cum[0] == 0.0)
for i, tt in enumerate(tts):
    assert np.array_equal(new_mod.calc_cum_abs_surface_energy(asig, tt, nodal=True, trim=True), cum[i])

assert N_OK > 0.6 * N_CHECKS, (N_OK, N_CHECKS)
print('%s: %d comparisons (%d returning normally), all identical'
      % (os.path.basename(__file__), N_CHECKS, N_OK))
sys.exit(0)

"""
Equivalence program for a behaviour-preserving edit of eqsig (property C18:
combine_at_angle / compute_rotated / Cluster.same_start / Cluster.time_match /
get_section_average / time_indices).

Run with the edit applied and cwd = the worktree:

    cd <worktree> && PYTHONPATH=<worktree> /venv/bin/python out/equivK.py

The ORIGINAL package is extracted with `git archive HEAD eqsig` into a temporary
directory.  The original and the edited package are each exercised by a worker
subprocess (this same file, `--worker <root> <out.pkl>`) on the same deterministic
list of cases; every observable (returned values, exceptions, printed text, state of
every object involved seen through the public API, mutation of arguments) is recorded
and the two records are compared bit for bit.  Exit code 0 iff everything matches.
"""
import contextlib
import io
import os
import pickle
import subprocess
import sys
import tarfile
import tempfile
import warnings

SEED = 180518


# --------------------------------------------------------------------------------------
# recording helpers (worker side)
# --------------------------------------------------------------------------------------

def enc(x, depth=0):
    """Encode any result into plain, picklable, exactly comparable python data"""
    import numpy as np
    if depth > 6:
        return ('deep', repr(type(x)))
    if isinstance(x, np.ndarray):
        if x.dtype == object:
            return ('ndarray-object', x.shape, [enc(v, depth + 1) for v in x.ravel().tolist()])
        return ('ndarray', str(x.dtype), x.shape, np.ascontiguousarray(x).tobytes())
    if isinstance(x, np.generic):
        return ('npscalar', str(x.dtype), np.asarray(x).tobytes())
    if isinstance(x, bool) or x is None or isinstance(x, (int, str, bytes)):
        return ('py', type(x).__name__, x)
    if isinstance(x, float):
        return ('pyfloat', x.hex())
    if isinstance(x, complex):
        return ('pycomplex', x.real.hex(), x.imag.hex())
    if isinstance(x, (list, tuple)):
        return (type(x).__name__, [enc(v, depth + 1) for v in x])
    if isinstance(x, dict):
        return ('dict', [(enc(k, depth + 1), enc(v, depth + 1)) for k, v in x.items()])
    if hasattr(x, 'values') and hasattr(x, 'dt') and hasattr(x, 'npts'):
        return sig_state(x)
    return ('other', type(x).__name__)


def sig_state(sig):
    """State of a Signal / AccSignal as seen through its public API"""
    return ('signal', type(sig).__name__, enc(sig.values), enc(sig.dt), enc(sig.npts), enc(sig.label),
            enc(sig.time), type(sig.values).__name__)


def cluster_state(cl):
    out = ['cluster', enc(cl.n_signals), enc(cl.master_index), enc(cl.master), enc(list(cl.names)),
           enc(cl.dt), enc(list(cl.signals.keys()))]
    for i in range(cl.n_signals):
        out.append(sig_state(cl.signal_by_index(i)))
        out.append(enc(cl.values_by_index(i)))
        out.append(enc(cl.name_by_index(i)))
        out.append(enc(cl.values(cl.name_by_index(i))))
    return out


def call(fn, *args, **kwargs):
    """Run fn, return (kind, payload, printed text)"""
    buf = io.StringIO()
    with contextlib.redirect_stdout(buf):
        try:
            res = fn(*args, **kwargs)
            out = ('ok', enc(res))
        except Exception as e:  # noqa - everything that is raised is an observable
            out = ('exc', type(e).__name__, enc_exc_args(e))
    return out + (buf.getvalue(),)


def enc_exc_args(e):
    try:
        return enc(tuple(e.args))
    except Exception:  # pragma: no cover
        return repr(e)


# --------------------------------------------------------------------------------------
# the cases (worker side)
# --------------------------------------------------------------------------------------

def make_series(rng, n, kind):
    import numpy as np
    t = np.arange(n)
    if kind == 'noise':
        return rng.standard_normal(n)
    if kind == 'sine':
        return np.sin(0.31 * t + rng.uniform(0, 3)) + 0.2 * np.sin(1.7 * t)
    if kind == 'walk':
        return np.cumsum(rng.standard_normal(n))
    if kind == 'const':
        return np.full(n, float(rng.integers(-3, 4)))
    if kind == 'periodic4':
        return np.tile(np.array([0.5, -1.25, 2.0, 0.75]), n // 4 + 1)[:n]
    if kind == 'periodic3':
        return np.tile(np.array([1.0, -2.0, 0.5]), n // 3 + 1)[:n]
    if kind == 'int':
        return rng.integers(-50, 50, n)
    if kind == 'int_small':
        return rng.integers(0, 3, n)
    if kind == 'bigint':
        return rng.integers(-4 * 10 ** 9, 4 * 10 ** 9, n)
    if kind == 'int32':
        return rng.integers(-1000, 1000, n).astype(np.int32)
    if kind == 'uint8':
        return rng.integers(0, 255, n).astype(np.uint8)
    if kind == 'float32':
        return rng.standard_normal(n).astype(np.float32)
    if kind == 'dyadic':
        # values on a coarse dyadic grid: all sums are exact, produces many exact ties
        return rng.integers(-8, 9, n) / 4.0
    if kind == 'nan':
        v = rng.standard_normal(n)
        if n:
            v[rng.integers(0, n)] = np.nan
        return v
    if kind == 'inf':
        v = rng.standard_normal(n)
        if n:
            v[rng.integers(0, n)] = np.inf
        return v
    if kind == 'huge':
        return rng.standard_normal(n) * 1e160
    if kind == 'zeros':
        return np.zeros(n)
    if kind == 'bool':
        return rng.integers(0, 2, n).astype(bool)
    if kind == 'complex':
        return rng.standard_normal(n) + 1j * rng.standard_normal(n)
    raise ValueError(kind)


def shifted(base, lag, n):
    """A length-n series that is `base` delayed (lag > 0) or advanced (lag < 0) by |lag| samples.

    base must have at least n + 2 * |lag| samples"""
    off = abs(lag) + 0
    return base[off + lag: off + lag + n], base[off: off + n]


def as_form(rng, arr, form):
    import numpy as np
    if form == 'array':
        return np.array(arr)
    if form == 'list':
        return list(arr.tolist())
    if form == 'tuple':
        return tuple(arr.tolist())
    if form == 'scalars':
        return list(arr)  # list of numpy scalars
    raise ValueError(form)


def rotation_cases(eqsig, np, rng, rec):
    kinds = ['noise', 'sine', 'walk', 'int', 'float32', 'const', 'dyadic', 'int32', 'zeros']
    # ---- combine_at_angle -------------------------------------------------------------
    angles = [0, 0.0, 90, 90.0, 180, 270, 360, 45, -45, 30.5, 720.25, -1e3, np.float64(12.5), np.float32(77.0),
              np.int64(33), 1e-9, 89.999999, True]
    for k in range(400):
        n = int(rng.choice([0, 1, 2, 3, 5, 17, 64, 200]))
        k1, k2 = rng.choice(kinds, 2)
        v1 = make_series(rng, n, k1)
        v2 = make_series(rng, n, k2)
        dt = float(rng.choice([0.01, 0.005, 0.02, 1.0, 0.1]))
        form = str(rng.choice(['array', 'list', 'scalars', 'tuple']))
        a1 = eqsig.AccSignal(as_form(rng, v1, form), dt, label='ns%i' % k)
        a2 = eqsig.AccSignal(as_form(rng, v2, form), dt if k % 7 else dt * 2, label='we%i' % k)
        if k < len(angles):
            ang = angles[k]
        elif k % 5 == 0:
            ang = int(rng.integers(-400, 800))
        else:
            ang = float(rng.uniform(-400, 800))
        before = (sig_state(a1), sig_state(a2))
        r = call(eqsig.combine_at_angle, a1, a2, ang)
        rec(('caa', k), r, before == (sig_state(a1), sig_state(a2)))
        # theta + 180 and module-level access path
        r = call(eqsig.multiple.combine_at_angle, a1, a2, ang + 180)
        rec(('caa180', k), r)
    # mixtures of Signal / AccSignal, different lengths, array-valued angle
    s1 = eqsig.Signal(rng.standard_normal(10), 0.01)
    a1 = eqsig.AccSignal(rng.standard_normal(10), 0.01)
    a3 = eqsig.AccSignal(rng.standard_normal(11), 0.01)
    rec('caa-sig', call(eqsig.combine_at_angle, s1, a1, 20.0))
    rec('caa-sig2', call(eqsig.combine_at_angle, a1, s1, 20.0))
    rec('caa-len', call(eqsig.combine_at_angle, a1, a3, 20.0))
    rec('caa-arr1', call(eqsig.combine_at_angle, a1, a1, np.array([20.0])))
    rec('caa-arr10', call(eqsig.combine_at_angle, a1, a1, np.linspace(0, 90, 10)))
    rec('caa-str', call(eqsig.combine_at_angle, a1, a1, 'x'))
    rec('caa-none', call(eqsig.combine_at_angle, a1, a1, None))

    # ---- compute_rotated --------------------------------------------------------------
    calls_seen = []

    def f_scalar(sig):
        calls_seen.append(sig_state(sig))
        return float(np.max(np.abs(sig.values))) if sig.npts else 0.0

    def f_npscalar(sig):
        return np.sum(sig.values ** 2)

    def f_array(sig):
        return np.cumsum(np.abs(sig.values))

    def f_list(sig):
        return [1.0, 2.0, float(sig.npts) + float(np.sum(sig.values))]

    def f_empty(sig):
        return []

    def f_str(sig):
        return 'ab%i' % sig.npts

    def f_none(sig):
        return None

    def f_raise(sig):
        raise KeyError('boom %i' % sig.npts)

    def f_tuple2d(sig):
        return (1, np.array([sig.values.sum(), 2.0]))

    def f_mutate(sig):
        # mutating the combined signal must not leak into the inputs
        sig.reset_values(sig.values * 2)
        return sig.values[-1] if sig.npts else -1.0

    def f_arias(sig):
        return eqsig.im.calc_arias_intensity(sig)

    def f_cav(sig):
        return eqsig.im.calc_cav(sig)

    def f_type(sig):
        return (type(sig).__name__ == 'AccSignal') * 1.0 + sig.dt + len(sig.label)

    funcs = [f_scalar, f_npscalar, f_array, f_list, f_empty, f_str, f_none, f_raise, f_tuple2d, f_mutate, f_arias,
             f_cav, f_type]
    params = ['arias_intensity', 'pga', 'pgv', 'pgd', 'npts', 'dt', 'values', 'label', 'time', 'velocity',
              'displacement', 'nonexistent', '', 'arias_intensity', 'arias_intensity', 'fa_spectrum']
    point_opts = [0, 1, 2, 3, 4, 7, 10, 100]
    k = 0
    for rep in range(260):
        n = int(rng.choice([0, 1, 2, 3, 8, 33, 128]))
        k1, k2 = rng.choice(kinds, 2)
        dt = float(rng.choice([0.01, 0.005, 0.02, 1.0]))
        form = str(rng.choice(['array', 'list', 'scalars']))
        a1 = eqsig.AccSignal(as_form(rng, make_series(rng, n, k1), form), dt, label='ns')
        a2 = eqsig.AccSignal(as_form(rng, make_series(rng, n, k2), form), dt, label='we')
        off = [0.0, 0, 30, -30.5, 90, 180, 359.9, 400, -720.5][rep % 9] if rep % 2 else float(rng.uniform(-400, 400))
        pts = point_opts[rep % len(point_opts)] if rep % 3 else int(rng.integers(0, 12))
        mode = rep % 4
        kw = dict(angle_off_ns=off, points=pts)
        if mode == 0:
            kw['parameter'] = params[(rep // 4) % len(params)]
        elif mode == 1:
            kw['func'] = funcs[(rep // 4) % len(funcs)]
        elif mode == 2:
            kw['parameter'] = params[(rep // 4) % len(params)]
            kw['func'] = funcs[(rep // 4) % len(funcs)]
        before = (sig_state(a1), sig_state(a2))
        del calls_seen[:]
        r = call(eqsig.compute_rotated, a1, a2, **kw)
        rec(('cr', rep), r, list(calls_seen), before == (sig_state(a1), sig_state(a2)),
            sig_state(a1), sig_state(a2))
        k += 1
    # default arguments, positional arguments
    a1 = eqsig.AccSignal(make_series(rng, 60, 'sine'), 0.01)
    a2 = eqsig.AccSignal(make_series(rng, 60, 'noise'), 0.01)
    rec('cr-default', call(eqsig.compute_rotated, a1, a2))
    rec('cr-default-arias', call(eqsig.compute_rotated, a1, a2, parameter='arias_intensity'))
    rec('cr-positional', call(eqsig.compute_rotated, a1, a2, 15.0, 'pga', None, 5))
    rec('cr-positional-f', call(eqsig.compute_rotated, a1, a2, 15.0, None, f_scalar, 5))
    rec('cr-multiple', call(eqsig.multiple.compute_rotated, a1, a2, 15.0, 'arias_intensity', f_scalar, 5))
    # option combinations are only checked when a measure is evaluated (not for an empty scan)
    for pts in [0, 1, 2]:
        for par in [None, 'arias_intensity', 'pga', 'nonexistent', 'npts']:
            for fn in [None, f_scalar, f_raise, f_empty, 5]:
                for off in [0.0, 270.0]:
                    rec(('cr-opts', pts, par, getattr(fn, '__name__', repr(fn)), off),
                        call(eqsig.compute_rotated, a1, a2, angle_off_ns=off, parameter=par, func=fn, points=pts))
    # each angle of the scan equals the measure of the combination at that angle
    deg, vals = eqsig.compute_rotated(a1, a2, angle_off_ns=12.0, parameter='arias_intensity', points=9)
    rec('cr-scan', enc(deg), enc(vals), [enc(eqsig.im.calc_arias_intensity(eqsig.combine_at_angle(a1, a2, d))[-1])
                                           for d in deg])
    # failing preconditions
    s1 = eqsig.Signal(make_series(rng, 60, 'sine'), 0.01)
    a3 = eqsig.AccSignal(make_series(rng, 61, 'sine'), 0.01)
    a4 = eqsig.AccSignal(make_series(rng, 60, 'sine'), 0.02)
    for name, args in [('sig-ns', (s1, a2)), ('sig-we', (a1, s1)), ('npts', (a1, a3)), ('dt', (a1, a4)),
                       ('none', (None, a1)), ('arr', (a1.values, a2))]:
        for par in ['arias_intensity', 'pga', None]:
            rec(('cr-pre', name, par), call(eqsig.compute_rotated, *args, parameter=par))
    for pts in [-1, 2.5, None, 'a', np.int64(3), True]:
        for par in ['arias_intensity', 'pga']:
            rec(('cr-pts', repr(pts), par), call(eqsig.compute_rotated, a1, a2, parameter=par, points=pts))
    for off in [None, 'a', np.array([1.0, 2.0]), np.nan, np.inf]:
        for par in ['arias_intensity', 'pga']:
            rec(('cr-off', repr(off), par), call(eqsig.compute_rotated, a1, a2, parameter=par, points=4,
                                                 angle_off_ns=off))
    # cached stats of the inputs are neither needed nor disturbed
    rec('cr-stats', call(a1.generate_all_motion_stats), call(a1.generate_peak_values))
    rec('cr-cached', call(eqsig.compute_rotated, a1, a2, parameter='arias_intensity', points=3), call(getattr, a1, 'pga'),
        call(getattr, a1, 'arias_intensity'))


def section_cases(eqsig, np, rng, rec):
    from eqsig.fns.average import get_section_average
    from eqsig.fns.time_shift import time_indices

    class Duck(object):
        def __init__(self, values, dt):
            self.values = values
            self.dt = dt
            self.npts = len(values)

    for k in range(1500):
        n = int(rng.choice([0, 1, 2, 5, 20, 101]))
        kind = str(rng.choice(['noise', 'int', 'float32', 'const', 'nan', 'bigint']))
        dt = float(rng.choice([0.01, 0.005, 0.1, 1.0, 0.3]))
        vals = make_series(rng, n, kind)
        index = bool(k % 2)
        if index:
            start = int(rng.integers(-3, n + 3))
            end = int(rng.integers(-3, n + 5)) if k % 5 else -1
        else:
            start = float(rng.uniform(-0.1, 1.1) * n * dt) if k % 3 else int(rng.integers(0, 3))
            end = float(rng.uniform(-0.1, 1.3) * n * dt) if k % 5 else -1
        sig = eqsig.Signal(vals, dt) if k % 4 else eqsig.AccSignal(vals, dt)
        rec(('gsa', k), call(get_section_average, sig, start, end, index),
            call(sig.get_section_average, start=start, end=end, index=index),
            call(eqsig.get_section_average, Duck(vals, dt), start=start, end=end, index=index),
            call(time_indices, n, dt, start, end, index),
            call(eqsig.time_indices, n, dt, start, end, index if k % 7 else 0),
            sig_state(sig))
    s = eqsig.Signal(np.arange(10.), 0.1)
    rec('gsa-default', call(get_section_average, s), call(s.get_section_average),
        call(get_section_average, s, end=0.5), call(get_section_average, s, 2, 5, True),
        call(get_section_average, s, None, None, True), call(get_section_average, s, 'a', 1),
        call(get_section_average, s, 0, 1, None), call(get_section_average, [1, 2, 3]),
        call(time_indices, 10, 0.0, 0, 1, False), call(time_indices, 10, 0.1, 0, np.nan, False))


def build_cluster(eqsig, np, rng, k):
    """Returns (constructor args, description) for a random cluster"""
    n_sig = int(rng.choice([2, 2, 3, 4]))
    steps = int(rng.choice([0, 1, 2, 3, 5, 10, 10, 10, 15]))
    n = int(rng.choice([0, 1, 2, 3, max(steps - 1, 0), steps, steps + 1, steps + 2, 2 * steps + 1, 40, 90, 150,
                        40, 90, 150, 61, 33, 120]))
    kind = str(rng.choice(['noise', 'sine', 'walk', 'const', 'periodic4', 'periodic3', 'int', 'int_small', 'bigint',
                           'int32', 'uint8', 'float32', 'dyadic', 'dyadic', 'nan', 'inf', 'huge', 'zeros', 'sine',
                           'noise', 'bool', 'complex']))
    base = make_series(rng, n + 2 * max(steps, 1) + 4, kind)
    master_index = int(rng.integers(0, n_sig))
    mode = str(rng.choice(['exact', 'exact', 'noisy', 'independent', 'offset']))
    values = []
    for s in range(n_sig):
        if steps > 0:
            lag = int(rng.integers(-steps + 1, steps)) if k % 11 else int(rng.choice([-steps, steps, 0]))
        else:
            lag = 0
        if s == master_index:
            lag = 0
        lag = max(min(lag, max(steps, 1) + 1), -max(steps, 1) - 1)
        off = max(steps, 1) + 2
        v = base[off + lag: off + lag + n]
        if s != master_index:
            if mode == 'noisy' and v.dtype.kind == 'f':
                v = v + 1e-3 * rng.standard_normal(len(v))
            elif mode == 'independent':
                v = make_series(rng, n, kind)
            elif mode == 'offset' and v.dtype.kind in 'fiu':
                v = v + (2 if v.dtype.kind != 'f' else 0.375)
        values.append(np.array(v))
    # sometimes different lengths
    if k % 6 == 0 and n > 3:
        j = int(rng.integers(0, n_sig))
        values[j] = values[j][:n - int(rng.integers(1, 3))]
    if k % 13 == 0 and n > 3:
        j = int(rng.integers(0, n_sig))
        values[j] = np.concatenate([values[j], values[j][:3]])
    form = str(rng.choice(['array', 'array', 'list', 'scalars', '2d']))
    if form == '2d' and len(set(len(v) for v in values)) == 1:
        cvalues = np.array(values)
    elif form in ('list', 'scalars'):
        cvalues = [as_form(rng, v, form) for v in values]
    else:
        cvalues = [np.array(v) for v in values]
    dt = float(rng.choice([0.01, 0.005, 0.02, 0.1, 1.0]))
    kw = {'master_index': master_index}
    st = k % 5
    if st == 1:
        kw['stypes'] = 'acc'
    elif st == 2:
        kw['stypes'] = [['acc', 'custom'][int(rng.integers(0, 2))] for _ in range(n_sig)]
    if k % 4 == 0:
        kw['names'] = ['n%i' % i for i in range(int(rng.integers(0, n_sig + 1)))]
    return cvalues, dt, kw, steps, n


def cluster_cases(eqsig, np, rng, rec):
    for k in range(1400):
        cvalues, dt, kw, steps, n = build_cluster(eqsig, np, rng, k)
        keep = pickle.dumps(cvalues)
        r = call(eqsig.Cluster, cvalues, dt, **kw)
        if r[0] != 'ok':
            rec(('cl-init', k), r)
            continue
        cl = eqsig.Cluster(cvalues, dt, **kw) if k % 2 else eqsig.multiple.Cluster(cvalues, dt, **kw)
        log = [cluster_state(cl)]
        n_ops = int(rng.integers(1, 5))
        for j in range(n_ops):
            op = str(rng.choice(['tm', 'tm', 'tm', 'ss', 'ss', 'reset', 'master', 'tm_opts', 'ss_opts', 'shift']))
            verbose = int(rng.integers(0, 4) == 0)
            if op == 'tm':
                okw = {}
                if steps != 10 or rng.integers(0, 2):
                    okw['steps'] = steps
                if verbose:
                    okw['verbose'] = 1
                r = call(cl.time_match, **okw)
            elif op == 'tm_opts':
                okw = [{'steps': -3}, {'steps': 2.0}, {'set_step': 3}, {'set_step': 0}, {'set_step': True},
                       {'trim': False, 'steps': steps}, {'steps': np.int64(max(steps, 1))}, {'steps': '3'},
                       {'verbose': 2, 'steps': 3}, {'set_step': None, 'verbose': 1}, {'steps': None},
                       {'base': 1, 'steps': 4}][int(rng.integers(0, 12))]
                r = call(cl.time_match, **okw)
            elif op == 'ss':
                okw = {}
                choice = int(rng.integers(0, 8))
                if choice == 1:
                    okw = {'start': 0, 'end': -1}
                elif choice == 2:
                    okw = {'start': 0.0, 'end': float(rng.uniform(0, 1.2) * n * dt)}
                elif choice == 3:
                    a, b = sorted(rng.uniform(0, 1.0, 2) * n * dt)
                    okw = {'start': float(a), 'end': float(b)}
                elif choice == 4:
                    okw = {'start': float(0.5 * n * dt), 'end': float(0.2 * n * dt)}
                elif choice == 5:
                    okw = {'end': dt * 3}
                elif choice == 6:
                    okw = {'start': dt, 'end': dt * 2, 'base': 1}
                if verbose:
                    okw['verbose'] = 1
                r = call(cl.same_start, **okw)
            elif op == 'ss_opts':
                okw = [{'start': -1.0, 'end': 0.5 * n * dt}, {'start': None}, {'end': None}, {'start': 'a'},
                       {'end': 1e9}, {'verbose': 3, 'end': -1}, {'start': 1, 'end': 2}][int(rng.integers(0, 7))]
                r = call(cl.same_start, **okw)
            elif op == 'reset':
                i = int(rng.integers(0, cl.n_signals))
                sig = cl.signal_by_index(i)
                m = int(rng.choice([sig.npts, sig.npts, max(sig.npts - 1, 0), sig.npts + 2]))
                newv = make_series(rng, m, str(rng.choice(['noise', 'int', 'dyadic'])))
                r = call(sig.reset_values, newv if j % 2 else list(newv))
            elif op == 'shift':
                # put a fresh integer lag on one signal (relative to the master) through the public API
                i = int(rng.integers(0, cl.n_signals))
                mv = cl.values_by_index(cl.master_index if 0 <= cl.master_index < cl.n_signals else 0)
                lag = int(rng.integers(-max(steps, 1), max(steps, 1) + 1))
                newv = np.roll(mv, lag) if len(mv) else mv
                r = call(cl.signal_by_index(i).reset_values, newv)
            else:
                new_master = int(rng.integers(0, cl.n_signals)) if j % 3 else int(rng.integers(-2, cl.n_signals + 2))
                cl.master_index = new_master
                r = ('ok', 'master_index=%i' % new_master, '')
            log.append((op, r, cluster_state(cl)))
        rec(('cl', k), log, keep == pickle.dumps(cvalues))

    # ---- deterministic families: every lag in (-steps, steps), every master, 2..4 signals ----
    case = 0
    for steps in [1, 2, 4, 10]:
        for n_sig in [2, 3, 4]:
            for master_index in range(n_sig):
                for lag in range(-steps + 1, steps):
                    for kind in ['sine', 'dyadic', 'int']:
                        n = 3 * steps + 7
                        base = make_series(rng, n + 4 * steps + 4, kind)
                        values = []
                        for s in range(n_sig):
                            this_lag = 0 if s == master_index else (lag if s % 2 else -lag)
                            off = 2 * steps + 1
                            values.append(np.array(base[off + this_lag: off + this_lag + n]))
                        inputs = [v.copy() for v in values]
                        cl = eqsig.Cluster(values, 0.01, master_index=master_index,
                                           stypes='acc' if case % 2 else 'custom')
                        r1 = call(cl.time_match, steps=steps)
                        st1 = cluster_state(cl)
                        r2 = call(cl.same_start, start=0.0, end=0.05)
                        st2 = cluster_state(cl)
                        r3 = call(cl.time_match, steps=steps, verbose=1)
                        st3 = cluster_state(cl)
                        r4 = call(cl.same_start, end=-1)
                        same_inputs = all(np.array_equal(a, b) for a, b in zip(inputs, values))
                        rec(('cl-fam', case), r1, st1, r2, st2, r3, st3, r4, cluster_state(cl), same_inputs)
                        case += 1

    # ---- the two situations of the test-suite / examples, default options ----
    time = np.linspace(0, 102, 1020)
    acc = np.sin(time)
    cl = eqsig.Cluster([acc[:-6], acc[6:]], dt=0.01)
    rec('cl-test-tm', call(cl.time_match, verbose=0), cluster_state(cl), call(cl.time_match), cluster_state(cl))
    cl = eqsig.Cluster([acc[6:], acc[:-6], acc[3:-3]], dt=0.01, master_index=2, stypes='acc')
    rec('cl-test-tm3', call(cl.time_match, verbose=1), cluster_state(cl), call(cl.same_start), cluster_state(cl))
    cl = eqsig.Cluster([acc, acc + 0.3, acc - 1, 2 * acc], dt=0.01, master_index=3)
    rec('cl-test-ss', call(cl.same_start), cluster_state(cl), call(cl.same_start, verbose=1, start=1, end=5),
        cluster_state(cl), call(cl.time_match), cluster_state(cl))
    # one signal only, empty cluster
    cl = eqsig.Cluster([acc], dt=0.01)
    rec('cl-one', call(cl.time_match), call(cl.same_start), cluster_state(cl))
    rec('cl-zero', call(eqsig.Cluster, [], 0.01))
    # the arrays held by the cluster are not shared with what time_match returns / previous values
    cl = eqsig.Cluster([acc[:-6], acc[6:]], dt=0.01)
    old = cl.values_by_index(1)
    old_copy = old.copy()
    cl.time_match()
    rec('cl-alias', enc(old), np.array_equal(old, old_copy), cluster_state(cl))
    # combine_motions after matching (unchanged sibling method, uses the same signals)
    cl = eqsig.Cluster([acc[:-6], acc[6:]], dt=0.01, stypes='acc')
    cl.time_match()
    rec('cl-combine', call(cl.combine_motions, 2.0), cluster_state(cl))


def run_worker(root, out_path):
    sys.path.insert(0, root)
    warnings.simplefilter('ignore')
    import numpy as np
    np.seterr(all='ignore')
    import eqsig
    import eqsig.multiple
    assert os.path.realpath(eqsig.__file__).startswith(os.path.realpath(root) + os.sep), (eqsig.__file__, root)
    assert os.path.realpath(eqsig.multiple.__file__).startswith(os.path.realpath(root) + os.sep)
    records = []

    def rec(key, *payload):
        records.append((key, payload))

    # public surface: names and signatures
    import inspect
    import eqsig.fns.time_shift
    import eqsig.fns.average
    for mod in [eqsig, eqsig.multiple, eqsig.fns, eqsig.fns.time_shift, eqsig.fns.average]:
        rec(('names', mod.__name__), sorted(n for n in dir(mod) if not n.startswith('_')))
    for obj in [eqsig.combine_at_angle, eqsig.compute_rotated, eqsig.Cluster.__init__, eqsig.Cluster.same_start,
                eqsig.Cluster.time_match, eqsig.Cluster.combine_motions, eqsig.get_section_average,
                eqsig.time_indices, eqsig.Signal.get_section_average]:
        rec(('signature', obj.__qualname__), str(inspect.signature(obj)), obj.__doc__)
    rec('cluster-members', sorted(n for n in dir(eqsig.Cluster) if not n.startswith('_')))
    for fn, seed in [(rotation_cases, SEED), (section_cases, SEED + 1), (cluster_cases, SEED + 2)]:
        rng = np.random.default_rng(seed)
        fn(eqsig, np, rng, rec)
    with open(out_path, 'wb') as f:
        pickle.dump(records, f, protocol=4)


# --------------------------------------------------------------------------------------
# main side
# --------------------------------------------------------------------------------------

def first_difference(a, b, path=''):
    if type(a) != type(b):
        return '%s: type %s != %s' % (path, type(a).__name__, type(b).__name__)
    if isinstance(a, (list, tuple)):
        if len(a) != len(b):
            return '%s: len %i != %i' % (path, len(a), len(b))
        for i, (x, y) in enumerate(zip(a, b)):
            d = first_difference(x, y, '%s[%i]' % (path, i))
            if d:
                return d
        return None
    if a != b:
        ra, rb = repr(a), repr(b)
        return '%s: %s != %s' % (path, ra[:200], rb[:200])
    return None


def main():
    cwd = os.getcwd()
    here = os.path.abspath(__file__)
    if not os.path.isdir(os.path.join(cwd, 'eqsig')):
        print('run from the worktree root')
        return 2
    with tempfile.TemporaryDirectory() as tmp:
        orig_root = os.path.join(tmp, 'orig')
        os.makedirs(orig_root)
        tar_path = os.path.join(tmp, 'orig.tar')
        with open(tar_path, 'wb') as f:
            subprocess.check_call(['git', 'archive', 'HEAD', 'eqsig'], cwd=cwd, stdout=f)
        with tarfile.open(tar_path) as tf:
            tf.extractall(orig_root)
        outs = {}
        procs = {}
        for name, root in [('orig', orig_root), ('edit', cwd)]:
            outs[name] = os.path.join(tmp, name + '.pkl')
            env = dict(os.environ)
            env.pop('PYTHONPATH', None)
            env['PYTHONDONTWRITEBYTECODE'] = '1'
            env['PYTHONHASHSEED'] = '0'
            procs[name] = subprocess.Popen([sys.executable, here, '--worker', root, outs[name]], cwd=tmp, env=env)
        failed = False
        for name, p in procs.items():
            if p.wait() != 0:
                print('worker %s failed with code %s' % (name, p.returncode))
                failed = True
        if failed:
            return 3
        with open(outs['orig'], 'rb') as f:
            ro = pickle.load(f)
        with open(outs['edit'], 'rb') as f:
            re_ = pickle.load(f)
    n_diff = 0
    if len(ro) != len(re_):
        print('different number of records: %i vs %i' % (len(ro), len(re_)))
        n_diff += 1
    n_exc = 0
    for (ko, po), (ke, pe) in zip(ro, re_):
        if ko != ke:
            print('record keys differ: %r vs %r' % (ko, ke))
            n_diff += 1
            continue
        if "'exc'" in repr(po)[:40]:
            n_exc += 1
        d = first_difference(po, pe, repr(ko))
        if d:
            n_diff += 1
            if n_diff <= 15:
                print('DIFF', d)
    print('%i records compared, %i differences' % (len(ro), n_diff))
    return 0 if n_diff == 0 else 1


if __name__ == '__main__':
    if len(sys.argv) == 4 and sys.argv[1] == '--worker':
        run_worker(sys.argv[2], sys.argv[3])
        sys.exit(0)
    sys.exit(main())

"""
Equivalence program for twin 1 (property C08: velocity / displacement / peak values).

Run from the worktree root with the edit applied:

    cd <worktree> && PYTHONPATH=<worktree> python out/equiv1.py

The program extracts the ORIGINAL package with ``git archive HEAD eqsig`` into a temporary
directory, then runs the same deterministic battery of calls twice in separate subprocesses
(once with the original package first on sys.path, once with the edited package of the
current working directory) and compares the recorded outcomes bit for bit: returned values
(type, dtype, shape, raw bytes, flags), exceptions (type and message), warnings, mutation of
the arguments and aliasing between arguments and results, and object state seen through the
public API after every step of random histories of public operations.

Exit code 0 iff every recorded outcome matches.
"""
import hashlib
import io
import os
import pickle
import subprocess
import sys
import tarfile
import tempfile

TWIN = 1


# --------------------------------------------------------------------------------------
# worker: runs in a subprocess with either the original or the edited package importable
# --------------------------------------------------------------------------------------

def enc(x, depth=0):
    """Encode a value in a comparable, picklable, bit-exact form"""
    import numpy as np
    if depth > 12:
        return ('deep', repr(type(x)))
    if isinstance(x, np.ndarray):
        if x.dtype.kind == 'O':
            payload = repr(x.tolist())
        elif x.dtype.char in 'gG':  # long double: padding bytes are not significant
            payload = repr([repr(v) for v in x.ravel().tolist()] if x.dtype.itemsize <= 8 else [repr(v) for v in x.ravel()])
        else:
            payload = hashlib.sha1(np.ascontiguousarray(x).tobytes()).hexdigest()
        return ('nd', type(x).__name__, x.dtype.str, x.shape, payload,
                bool(x.flags.writeable), bool(x.flags.c_contiguous), bool(x.flags.owndata))
    if isinstance(x, np.generic):
        if x.dtype.char in 'gG':
            return ('sc', type(x).__name__, x.dtype.str, repr(x))
        return ('sc', type(x).__name__, x.dtype.str, x.tobytes().hex())
    if isinstance(x, bool):
        return ('b', x)
    if isinstance(x, float):
        return ('f', x.hex())
    if isinstance(x, int):
        return ('i', x)
    if isinstance(x, complex):
        return ('c', x.real.hex(), x.imag.hex())
    if isinstance(x, (tuple, list)):
        return (type(x).__name__, tuple(enc(v, depth + 1) for v in x))
    if isinstance(x, dict):
        return ('dict', tuple((repr(k), enc(v, depth + 1)) for k, v in sorted(x.items(), key=lambda kv: repr(kv[0]))))
    if x is None:
        return ('none',)
    if isinstance(x, str):
        return ('s', x)
    return ('other', type(x).__name__, repr(x)[:200])


def guarded(fn):
    """Run fn, return encoded (result | exception) together with the warnings raised"""
    import warnings
    with warnings.catch_warnings(record=True) as wlist:
        warnings.simplefilter('always')
        try:
            res = ('ok', fn())
        except BaseException as e:  # noqa - recording everything is the point
            if isinstance(e, (KeyboardInterrupt, SystemExit, MemoryError)):
                raise
            res = ('exc', type(e).__name__, str(e))
    wrn = tuple((w.category.__name__, str(w.message)) for w in wlist)
    return res, wrn


def snapshot_arg(a):
    import numpy as np
    if isinstance(a, np.ndarray):
        return enc(a)
    if isinstance(a, (list, tuple)):
        return enc(a)
    return ('other', repr(a)[:100])


def make_accel_forms(rng):
    """Yield (label, factory) pairs; each factory builds a fresh argument"""
    import numpy as np
    forms = []
    lengths = [0, 1, 2, 3, 4, 5, 7, 8, 9, 16, 17, 31, 64, 100, 257, 1000, 4099]
    for n in lengths:
        base = rng.standard_normal(n) * 10 ** rng.uniform(-3, 3)
        forms.append(('f64 n=%d' % n, lambda b=base: b.copy()))
    for n in [2, 3, 5, 50]:
        base = rng.standard_normal(n)
        ib = rng.randint(-50, 50, size=n)
        forms.append(('list n=%d' % n, lambda b=base: list(b.tolist())))
        forms.append(('tuple n=%d' % n, lambda b=base: tuple(b.tolist())))
        forms.append(('intlist n=%d' % n, lambda b=ib: [int(v) for v in b]))
        forms.append(('mixedlist n=%d' % n, lambda b=base: [int(b[0] * 3)] + list(b.tolist()[1:])))
        forms.append(('f32 n=%d' % n, lambda b=base: b.astype(np.float32)))
        forms.append(('f16 n=%d' % n, lambda b=base: b.astype(np.float16)))
        forms.append(('longdouble n=%d' % n, lambda b=base: b.astype(np.longdouble)))
        forms.append(('i64 n=%d' % n, lambda b=ib: b.astype(np.int64)))
        forms.append(('i32 n=%d' % n, lambda b=ib: b.astype(np.int32)))
        forms.append(('i8 n=%d' % n, lambda b=ib: b.astype(np.int8)))
        forms.append(('u8 n=%d' % n, lambda b=ib: (b + 60).astype(np.uint8)))
        forms.append(('u64 n=%d' % n, lambda b=ib: (b + 60).astype(np.uint64)))
        forms.append(('bool n=%d' % n, lambda b=ib: b > 0))
        forms.append(('c128 n=%d' % n, lambda b=base: b + 1j * b[::-1]))
        forms.append(('object n=%d' % n, lambda b=base: b.astype(object)))
        forms.append(('bigendian n=%d' % n, lambda b=base: b.astype('>f8')))
        forms.append(('strided n=%d' % n, lambda b=base: np.repeat(b, 2)[::2]))
        forms.append(('reversed n=%d' % n, lambda b=base: b.copy()[::-1]))
        forms.append(('offset-view n=%d' % n, lambda b=base: np.concatenate([[9.], b, [7.]])[1:-1]))
        forms.append(('readonly n=%d' % n, lambda b=base: _readonly(b.copy())))
        forms.append(('masked n=%d' % n, lambda b=base: np.ma.masked_array(b.copy(), mask=(np.arange(len(b)) % 3 == 0))))
        forms.append(('subclass n=%d' % n, lambda b=base: b.copy().view(_sub())))
        forms.append(('col2d n=%d' % n, lambda b=base: b.copy().reshape(-1, 1)))
        forms.append(('row2d n=%d' % n, lambda b=base: b.copy().reshape(1, -1)))
        forms.append(('fcol n=%d' % n, lambda b=base: np.asfortranarray(np.vstack([b, 2 * b]).T)[:, 0]))
    special = {
        'zeros': np.zeros(6), 'negzeros': -np.zeros(6), 'const': np.full(9, 2.5), 'linear': np.arange(12.) * 0.3 - 1,
        'nan-mid': np.array([1., np.nan, 2., 3.]), 'nan-first': np.array([np.nan, 1., -2.]),
        'nan-last': np.array([1., -2., np.nan]), 'inf': np.array([1., np.inf, -2., 3.]),
        'inf-both': np.array([-np.inf, np.inf, 1.]), 'huge': np.array([1e308, 1e308, -1e308, 3.]),
        'tiny': np.array([5e-324, -5e-324, 1e-310, 0.]), 'alt': np.array([1., -1.] * 20),
        'f64 2x3': np.arange(6.).reshape(2, 3), 'f64 3x2': np.arange(6.).reshape(3, 2) - 2.5,
        'f64 1x1': np.array([[3.]]), 'f64 2x1': np.array([[3.], [4.]]), 'f64 1x4': np.array([[3., 1., 2., -5.]]),
        'f64 2x2x2': np.arange(8.).reshape(2, 2, 2), 'f64 0x3': np.zeros((0, 3)), 'f64 3x0': np.zeros((3, 0)),
        'f-order 3x4': np.asfortranarray(np.arange(12.).reshape(3, 4)),
    }
    for k, v in special.items():
        forms.append((k, lambda b=v: b.copy(order='K')))
    forms.append(('0-d', lambda: np.array(3.5)))
    forms.append(('np scalar', lambda: np.float64(3.5)))
    forms.append(('py float', lambda: 3.5))
    forms.append(('py int', lambda: 3))
    forms.append(('None', lambda: None))
    forms.append(('str', lambda: 'abc'))
    forms.append(('str list', lambda: ['a', 'b', 'c']))
    forms.append(('ragged', lambda: [[1., 2.], [3.]]))
    forms.append(('nested list', lambda: [[1., 2.], [3., 5.]]))
    forms.append(('list w None', lambda: [1., None, 2.]))
    forms.append(('range', lambda: range(5)))
    forms.append(('empty list', lambda: []))
    forms.append(('bytes', lambda: b'abcd'))
    forms.append(('dict', lambda: {0: 1., 1: 2.}))
    return forms


def _readonly(a):
    a.setflags(write=False)
    return a


_SUB = []


def _sub():
    import numpy as np
    if not _SUB:
        class MyArr(np.ndarray):
            pass
        _SUB.append(MyArr)
    return _SUB[0]


def make_dts():
    import numpy as np
    from fractions import Fraction
    from decimal import Decimal
    return [
        ('0.01', lambda: 0.01), ('0.005', lambda: 0.005), ('1.0', lambda: 1.0), ('2', lambda: 2), ('1', lambda: 1),
        ('0', lambda: 0), ('0.0', lambda: 0.0), ('-0.02', lambda: -0.02), ('1e-300', lambda: 1e-300),
        ('1e300', lambda: 1e300), ('nan', lambda: float('nan')), ('inf', lambda: float('inf')),
        ('np.f64', lambda: np.float64(0.02)), ('np.f32', lambda: np.float32(0.02)), ('np.f16', lambda: np.float16(0.5)),
        ('np.longdouble', lambda: np.longdouble(0.02)),
        ('np.i64', lambda: np.int64(2)), ('np.i32', lambda: np.int32(3)), ('np.u8', lambda: np.uint8(3)),
        ('np.bool', lambda: np.bool_(True)), ('True', lambda: True), ('False', lambda: False),
        ('bigint', lambda: 10 ** 30), ('hugeint', lambda: 10 ** 400), ('-hugeint', lambda: -10 ** 400),
        ('2**63', lambda: 2 ** 63), ('complex', lambda: 0.01 + 0.5j), ('np.c128', lambda: np.complex128(0.01 + 0.5j)),
        ('Fraction', lambda: Fraction(1, 100)), ('Decimal', lambda: Decimal('0.01')),
        ('str', lambda: '0.01'), ('None', lambda: None), ('0-d arr', lambda: np.array(0.01)),
        ('arr1', lambda: np.array([0.01])), ('list1', lambda: [0.01]), ('arr2', lambda: np.array([0.01, 0.02])),
        ('arr3', lambda: np.array([0.01, 0.02, 0.03])), ('arr4', lambda: np.array([0.01, 0.02, 0.03, 0.04])),
        ('arr5', lambda: np.linspace(0.01, 0.05, 5)), ('tuple', lambda: (0.01,)),
    ]


def make_traps():
    import numpy as np
    return [
        ('default', None), ('True', True), ('False', False), ('0', 0), ('1', 1), ('None', None), ('0.0', 0.0),
        ('np.False_', np.False_), ('np.True_', np.True_), ("'False'", 'False'), ('[]', []), ('np.array(False)', np.array(False)),
    ]


def call_integrator(fn, acc_factory, dt_factory, trap_label, trap, style):
    """One recorded call of an array-level integrator"""
    import numpy as np
    acc = acc_factory()
    dt = dt_factory()
    before = snapshot_arg(acc)
    dt_before = snapshot_arg(dt)

    def run():
        if trap_label == 'default':
            out = fn(acc, dt)
        elif style == 'kw':
            out = fn(acceleration=acc, dt=dt, trap=trap)
        elif style == 'pos':
            out = fn(acc, dt, trap)
        else:
            out = fn(acc, dt, trap=trap)
        return out

    res, wrn = guarded(run)
    extra = ()
    if res[0] == 'ok':
        out = res[1]
        info = [type(out).__name__, len(out) if hasattr(out, '__len__') else -1]
        if isinstance(out, tuple) and len(out) == 2:
            v, d = out
            if isinstance(v, np.ndarray) and isinstance(d, np.ndarray):
                info.append(bool(np.shares_memory(v, d)))
                if isinstance(acc, np.ndarray):
                    info.append(bool(np.shares_memory(v, acc)))
                    info.append(bool(np.shares_memory(d, acc)))
                # results must be independently writable buffers: write and re-read
                ok_write = []
                for arr in (v, d):
                    if arr.size and arr.flags.writeable:
                        keep = arr.flat[0]
                        arr.flat[0] = 0
                        arr.flat[0] = keep
                        ok_write.append(True)
                    else:
                        ok_write.append(False)
                info.append(tuple(ok_write))
        res = ('ok', enc(out))
        extra = tuple(info)
    after = snapshot_arg(acc)
    return (res, wrn, before == after, after, dt_before == snapshot_arg(dt), extra)


def battery_integrators(rec):
    import numpy as np
    import eqsig
    import eqsig.displacements as sd
    rng = np.random.RandomState(20240508)
    forms = make_accel_forms(rng)
    dts = make_dts()
    traps = make_traps()
    fns = [('calc', sd.calc_velo_and_disp_from_accel_arr), ('old', sd.velocity_and_displacement_from_acceleration)]
    # 1. every form x a core of dts x core of traps (both functions)
    core_dts = [d for d in dts if d[0] in ('0.01', '2', 'np.f64', 'np.f32', '-0.02', '0', 'nan', 'True', 'np.i64')]
    core_traps = [t for t in traps if t[0] in ('default', 'True', 'False', '0', 'np.False_')]
    for fl, ff in forms:
        for dl, df in core_dts:
            for tl, tv in core_traps:
                for fnl, fn in fns:
                    rec(('integ', fnl, fl, dl, tl), call_integrator(fn, ff, df, tl, tv, 'mixed'))
    # 2. a core of forms x every dt x every trap
    core_forms = [f for f in forms if f[0] in (
        'f64 n=1', 'f64 n=2', 'f64 n=3', 'f64 n=5', 'f64 n=100', 'list n=3', 'list n=5', 'intlist n=5', 'i64 n=5',
        'f32 n=5', 'f16 n=5', 'longdouble n=5', 'c128 n=5', 'tuple n=5', 'strided n=5', 'masked n=5', 'subclass n=5',
        'f64 2x3', 'f64 3x2', 'row2d n=5', 'col2d n=5', '0-d', 'py float', 'f64 n=0', 'bool n=5', 'u8 n=5',
        'object n=5', 'bigendian n=5', 'f64 1x1', 'f64 2x1')]
    assert len(core_forms) == 30, len(core_forms)
    for fl, ff in core_forms:
        for dl, df in dts:
            for tl, tv in traps:
                for style in ('kw', 'pos'):
                    rec(('integ2', fl, dl, tl, style),
                        call_integrator(sd.calc_velo_and_disp_from_accel_arr, ff, df, tl, tv, style))
    # 3. many random float64 records, default and explicit trap, python float / np.float64 dt
    for i in range(1500):
        n = int(rng.choice([2, 3, 4, 5, 6, 10, 33, 128, 500, 2048]))
        a = rng.standard_normal(n) * 10 ** rng.uniform(-6, 6)
        if i % 7 == 0:
            a = np.round(a)
        if i % 11 == 0:
            a[rng.randint(n)] = 0.0
        dt = float(10 ** rng.uniform(-4, 1))
        dtv = [dt, np.float64(dt), int(dt * 10) + 1][i % 3]
        tl, tv = [('default', None), ('True', True), ('False', False)][i % 3 if i % 2 else (i // 2) % 3]
        rec(('integ3', i), call_integrator(sd.calc_velo_and_disp_from_accel_arr, lambda a=a: a, lambda d=dtv: d, tl, tv, 'kw'))
    # 4. public re-exports resolve to the same callables
    rec(('names',), (sorted(n for n in dir(sd) if not n.startswith('_')),
                     eqsig.displacements.calc_velo_and_disp_from_accel_arr is sd.calc_velo_and_disp_from_accel_arr))
    import inspect
    rec(('sig',), (str(inspect.signature(sd.calc_velo_and_disp_from_accel_arr)),
                   str(inspect.signature(sd.velocity_and_displacement_from_acceleration))))


def battery_peaks(rec):
    import numpy as np
    import eqsig
    from eqsig import im
    rng = np.random.RandomState(77)
    forms = make_accel_forms(rng)
    for fl, ff in forms:
        for fnl, fn in (('calc_peak', im.calc_peak), ('calculate_peak', im.calculate_peak)):
            arg = ff()
            before = snapshot_arg(arg)
            res, wrn = guarded(lambda: fn(arg))
            if res[0] == 'ok':
                res = ('ok', enc(res[1]))
            rec(('peak', fnl, fl), (res, wrn, before == snapshot_arg(arg)))
    # generators / iterators
    for lbl, mk in [('gen', lambda: (x for x in [1., -3., 2.])), ('iter', lambda: iter([1., -3., 2.])),
                    ('set', lambda: {1., -3., 2.}), ('dictkeys', lambda: {1.: 0, -4.: 1}.keys()),
                    ('str nums', lambda: ['1', '-3']), ('kw', None)]:
        if mk is None:
            res, wrn = guarded(lambda: im.calc_peak(motion=np.array([1., -3.])))
        else:
            res, wrn = guarded(lambda: im.calc_peak(mk()))
        if res[0] == 'ok':
            res = ('ok', enc(res[1]))
        rec(('peak-it', lbl), (res, wrn))
    # many random arrays: sign patterns, ties, zeros of both signs, nan/inf positions, dtypes
    dtypes = [np.float64, np.float32, np.float16, np.int64, np.int32, np.int16, np.int8, np.uint8, np.uint16, np.uint64,
              np.longdouble]
    for i in range(4000):
        n = int(rng.choice([1, 2, 3, 4, 5, 8, 13, 50, 300]))
        a = rng.standard_normal(n) * 10 ** rng.uniform(-2, 2)
        mode = i % 16
        if mode == 1:
            a = np.abs(a)
        elif mode == 2:
            a = -np.abs(a)
        elif mode == 3:
            a[:] = 0.0
            a[rng.randint(n)] = -0.0
        elif mode == 4:
            a = np.round(a)
            a[rng.randint(n)] = -a[rng.randint(n)]  # ties between |min| and max
        elif mode == 5:
            a[rng.randint(n)] = np.nan
        elif mode == 6:
            a[rng.randint(n)] = np.inf
        elif mode == 7:
            a[rng.randint(n)] = -np.inf
        elif mode == 8:
            a[rng.randint(n)] = np.nan
            a[rng.randint(n)] = np.nan
            a[rng.randint(n)] = -np.inf
        elif mode == 9:
            a = np.where(rng.rand(n) > 0.5, 0.0, -0.0)
        dt = dtypes[(i // 16) % len(dtypes)]
        with np.errstate(all='ignore'):
            if np.dtype(dt).kind in 'iu':
                a = np.nan_to_num(np.clip(a, -100, 100)).astype(dt)
                if i % 5 == 0 and np.dtype(dt).kind == 'i':
                    a[rng.randint(n)] = np.iinfo(dt).min  # abs() overflow corner
            else:
                a = a.astype(dt)
        variant = (i // 3) % 5
        if variant == 1:
            arg = a.tolist()
        elif variant == 2:
            arg = np.repeat(a, 2)[::2]
        elif variant == 3:
            arg = a[::-1]
        elif variant == 4:
            arg = tuple(a.tolist())
        else:
            arg = a
        before = snapshot_arg(arg)
        res, wrn = guarded(lambda: im.calc_peak(arg))
        if res[0] == 'ok':
            res = ('ok', enc(res[1]))
        rec(('peak-rand', i), (res, wrn, before == snapshot_arg(arg)))
    rec(('peak-names',), (eqsig.im.calc_peak is im.calc_peak, im.calc_peak.__doc__, im.calculate_peak.__doc__))


class Hist(object):
    """A random history of public operations on an AccSignal; the state visible through the
    public API is recorded after every operation."""

    def __init__(self, rng, rec, hid, sub=False):
        self.rng = rng
        self.rec = rec
        self.hid = hid
        self.step = 0
        self.sub = sub
        self.held = {}

    def observe(self, asig, what):
        import numpy as np
        out = []
        for name in what:
            res, wrn = guarded(lambda: getattr(asig, name))
            if res[0] == 'ok':
                val = res[1]
                ident = None
                if isinstance(val, np.ndarray):
                    # identity bookkeeping: is it the same object that was handed out before?
                    prev = self.held.get(name)
                    ident = (prev is val) if prev is not None else None
                    self.held[name] = val
                    ident = (ident, bool(np.shares_memory(val, asig.values)) if val.size else None)
                res = ('ok', enc(val), ident)
            out.append((name, res, wrn))
        return tuple(out)

    def run(self):
        import numpy as np
        import copy
        import eqsig
        from eqsig import im
        rng = self.rng
        n = int(rng.choice([2, 3, 4, 5, 8, 21, 64, 200, 1000]))
        kind = rng.randint(8)
        vals = rng.standard_normal(n) * 10 ** rng.uniform(-3, 2)
        if kind == 0:
            vals = np.round(vals * 10).astype(int)
        elif kind == 1:
            vals = vals.tolist()
        elif kind == 2:
            vals = vals.astype(np.float32)
        elif kind == 3:
            vals = np.full(n, float(rng.standard_normal()))
        elif kind == 4:
            vals = np.arange(n) * float(rng.standard_normal())
        dt = float(rng.choice([0.005, 0.01, 0.02, 0.1, 1.0, 0.0078125]))
        if rng.randint(5) == 0:
            dt = np.float64(dt)
        if rng.randint(9) == 0:
            dt = 1
        src = np.array(vals, copy=True) if isinstance(vals, np.ndarray) else list(vals)
        cls = eqsig.AccSignal
        if self.sub:
            class RectSig(eqsig.AccSignal):
                n_gen = 0

                def generate_displacement_and_velocity_series(self, trap=False):
                    self.n_gen += 1
                    super(RectSig, self).generate_displacement_and_velocity_series(trap=trap)
            cls = RectSig
        res, wrn = guarded(lambda: cls(vals, dt, label='h%d' % self.hid))
        if res[0] != 'ok':
            self.rec(('hist', self.hid, 'ctor'), (res, wrn))
            return
        asig = res[1]
        self.rec(('hist', self.hid, 'ctor'), (enc(asig.values), enc(asig.dt), asig.npts,
                                               enc(src) == enc(vals)))
        observables = ['values', 'velocity', 'displacement', 'pga', 'pgv', 'pgd', 'npts', 'dt', 'time']
        nsteps = int(rng.randint(4, 14))
        for _ in range(nsteps):
            self.step += 1
            op = int(rng.randint(30))
            label = None
            r = None
            if op in (0, 1, 2):
                label = 'observe-some'
                k = int(rng.randint(1, 5))
                names = [observables[int(j)] for j in rng.randint(0, 6, size=k)]
                r = self.observe(asig, names)
            elif op == 3:
                label = 'gen trap=False'
                r = guarded(lambda: asig.generate_displacement_and_velocity_series(trap=False))
            elif op == 4:
                label = 'gen trap=True'
                r = guarded(lambda: asig.generate_displacement_and_velocity_series(trap=True))
            elif op == 5:
                label = 'gen default'
                r = guarded(lambda: asig.generate_displacement_and_velocity_series())
            elif op == 6:
                label = 'reset_values'
                m = int(rng.choice([n, n, 2, 3, 7, 50]))
                nv = rng.standard_normal(m)
                if rng.randint(3) == 0:
                    nv = nv.tolist()
                r = guarded(lambda: asig.reset_values(nv))
            elif op == 7:
                label = 'add_constant'
                c = float(rng.standard_normal())
                r = guarded(lambda: asig.add_constant(c))
            elif op == 8:
                label = 'add_series'
                ser = rng.standard_normal(asig.npts if rng.randint(6) else asig.npts + 1)
                r = guarded(lambda: asig.add_series(ser))
            elif op == 9:
                label = 'remove_average'
                r = guarded(lambda: asig.remove_average())
            elif op == 10:
                label = 'rebase_displacement'
                r = guarded(lambda: asig.rebase_displacement())
            elif op == 11:
                label = 'set_zero_residual_velocity'
                r = guarded(lambda: asig.set_zero_residual_velocity())
            elif op == 12:
                label = 'set_zero_residual_displacement'
                r = guarded(lambda: asig.set_zero_residual_displacement())
            elif op == 13:
                label = 'set_zero_residual_displacement_and_velocity'
                r = guarded(lambda: asig.set_zero_residual_displacement_and_velocity())
            elif op == 14:
                label = 'mutate velocity in place'
                def f():
                    v = asig.velocity
                    v[int(rng.randint(len(v)))] = 123.25
                    d = asig.displacement
                    d[-1] = -77.5
                r = guarded(f)
            elif op == 15:
                label = 'mutate values in place (no cache clear)'
                def f():
                    asig.values[int(rng.randint(asig.npts))] *= -3
                r = guarded(f)
            elif op == 16:
                label = 'clear_cache'
                r = guarded(lambda: asig.clear_cache())
            elif op == 17:
                label = 'reset_all_motion_stats'
                r = guarded(lambda: asig.reset_all_motion_stats())
            elif op == 18:
                label = 'deepcopy swap'
                def f():
                    return copy.deepcopy(asig)
                res, wrn = guarded(f)
                if res[0] == 'ok':
                    asig = res[1]
                    self.held = {}
                    r = (('ok', 'swapped'), wrn)
                else:
                    r = (res, wrn)
            elif op == 19:
                label = 'im integral of abs velocity'
                def f():
                    return (im.calc_integral_of_abs_velocity(asig), im.calc_cumulative_abs_displacement(asig))
                r = guarded(f)
            elif op == 20:
                label = 'remove_rolling_average'
                mt = 'velocity' if rng.randint(2) else 'acc'
                fw = int(rng.choice([5, 20, 2]))
                r = guarded(lambda: asig.remove_rolling_average(mtype=mt, freq_window=fw))
            elif op == 21:
                label = 'running_average'
                w = int(rng.choice([1, 3, 4]))
                r = guarded(lambda: asig.running_average(width=w))
            elif op == 22:
                label = 'remove_poly'
                pf = int(rng.randint(0, 3))
                r = guarded(lambda: asig.remove_poly(poly_fit=pf))
            elif op == 23:
                label = 'correct_me'
                r = guarded(lambda: asig.correct_me())
            elif op == 24:
                label = 'peaks then scale by -alpha via reset'
                def f():
                    p0 = (asig.pga, asig.pgv, asig.pgd)
                    alpha = float(rng.choice([-1.0, -2.0, 0.5, 4.0]))
                    asig.reset_values(asig.values * alpha)
                    return (p0, (asig.pga, asig.pgv, asig.pgd), alpha)
                r = guarded(f)
            elif op == 25:
                label = 'set values attr (silently ignored)'
                def f():
                    asig.values = np.zeros(3)
                r = guarded(f)
            elif op == 26:
                label = 'assign velocity attr'
                def f():
                    asig.velocity = np.zeros(3)
                r = guarded(f)
            elif op == 27:
                label = 'assign pga attr'
                def f():
                    asig.pga = 4.0
                r = guarded(f)
            elif op == 28:
                label = 'im peak of public series'
                def f():
                    return (im.calc_peak(asig.values), im.calc_peak(asig.velocity), im.calc_peak(asig.displacement))
                r = guarded(f)
            elif op == 29:
                label = 'generate_peak_values (deprecated no-op)'
                r = guarded(lambda: asig.generate_peak_values())
            if label != 'observe-some' and r[0][0] == 'ok':
                r = (('ok', enc(r[0][1])), r[1])
            # full observation after every operation, in a random order
            order = list(observables)
            rng.shuffle(order)
            full = self.observe(asig, order)
            extra = ()
            if self.sub:
                extra = (asig.n_gen,)
            self.rec(('hist', self.hid, self.step, label), (r, full, extra))


def battery_histories(rec):
    import numpy as np
    rng = np.random.RandomState(4242)
    for hid in range(700):
        Hist(rng, rec, hid, sub=(hid % 10 == 9)).run()


def battery_object_basic(rec):
    """Object-level access on the test record shipped with the package + deterministic scenarios"""
    import numpy as np
    import eqsig
    from eqsig import im
    path = os.path.join(os.getcwd(), 'tests', 'unit_test_data', 'test_motion_dt0p01.txt')
    vals = np.loadtxt(path, skiprows=2)
    for trap in (None, True, False):
        asig = eqsig.AccSignal(vals, 0.01)
        if trap is not None:
            asig.generate_displacement_and_velocity_series(trap=trap)
        v1 = asig.velocity
        d1 = asig.displacement
        rec(('obj', 'record', str(trap)), (enc(v1), enc(d1), enc(asig.pga), enc(asig.pgv), enc(asig.pgd),
                                           v1 is asig.velocity, d1 is asig.displacement,
                                           enc(asig.values), bool(np.shares_memory(vals, asig.values))))
        # order of first access: pgd first, then velocity
        asig2 = eqsig.AccSignal(vals * -2.0, 0.01)
        p = (asig2.pgd, asig2.pgv, asig2.pga)
        rec(('obj', 'record-neg2', str(trap)), (enc(p), enc(asig2.displacement), enc(asig2.velocity)))
    # stale cache semantics
    asig = eqsig.AccSignal(np.array([1., -2., 3., 0.5]), 0.1)
    seq = []
    seq.append(enc((asig.pga, asig.pgv, asig.pgd)))
    asig.values[1] = -50.
    seq.append(enc((asig.pga, asig.pgv, asig.pgd, asig.velocity, asig.displacement)))
    asig.reset_all_motion_stats()
    seq.append(enc((asig.pga, asig.pgv, asig.pgd, asig.velocity, asig.displacement)))
    asig.clear_cache()
    seq.append(enc((asig.pga, asig.pgv, asig.pgd, asig.velocity, asig.displacement)))
    asig.generate_displacement_and_velocity_series(trap=False)
    seq.append(enc((asig.pga, asig.pgv, asig.pgd, asig.velocity, asig.displacement)))
    asig.reset_all_motion_stats()
    seq.append(enc((asig.pga, asig.pgv, asig.pgd, asig.velocity, asig.displacement)))
    asig.velocity[2] = 1000.
    asig.reset_all_motion_stats()
    seq.append(enc((asig.pga, asig.pgv, asig.pgd, asig.velocity, asig.displacement)))
    rec(('obj', 'stale'), tuple(seq))
    # public attribute surface of the classes / modules
    rec(('obj', 'dir'), (sorted(n for n in dir(eqsig.AccSignal) if not n.startswith('_')),
                         sorted(n for n in dir(eqsig.Signal) if not n.startswith('_')),
                         sorted(n for n in dir(im) if not n.startswith('_')),
                         sorted(n for n in dir(eqsig) if not n.startswith('_'))))
    for name in ('velocity', 'displacement', 'pga', 'pgv', 'pgd'):
        prop = getattr(eqsig.AccSignal, name)
        rec(('obj', 'prop', name), (type(prop).__name__, prop.__doc__, prop.fset is None, prop.fdel is None))
    # loader produced signals and other constructors
    from eqsig import loader
    asig = loader.load_signal(path, astype='acc_sig')
    rec(('obj', 'loader'), (enc(asig.velocity), enc(asig.displacement), enc(asig.pga), enc(asig.pgv), enc(asig.pgd)))
    # length 0 / 1 / 2D / odd constructions
    for lbl, mk in [('n0', lambda: eqsig.AccSignal(np.zeros(0), 0.01)), ('n1', lambda: eqsig.AccSignal(np.array([2.]), 0.01)),
                    ('2d', lambda: eqsig.AccSignal(np.arange(6.).reshape(2, 3), 0.01)),
                    ('int', lambda: eqsig.AccSignal(np.array([1, -4, 2]), 1)),
                    ('list', lambda: eqsig.AccSignal([1., -4., 2.], 0.5)),
                    ('nan', lambda: eqsig.AccSignal([1., np.nan, 2., -7.], 0.5)),
                    ('cplx', lambda: eqsig.AccSignal(np.array([1j, 2., -3.]), 0.5)),
                    ('dt arr', lambda: eqsig.AccSignal(np.array([1., 2., -3.]), np.array([0.5, 0.25]))),
                    ('dt str', lambda: eqsig.AccSignal(np.array([1., 2., -3.]), '0.1')),
                    ('scalar', lambda: eqsig.AccSignal(3.0, 0.1))]:
        for trap in (None, True, False):
            def f():
                a = mk()
                if trap is not None:
                    a.generate_displacement_and_velocity_series(trap=trap)
                out = []
                for nm in ('velocity', 'displacement', 'pga', 'pgv', 'pgd'):
                    r, w = guarded(lambda: getattr(a, nm))
                    if r[0] == 'ok':
                        r = ('ok', enc(r[1]))
                    out.append((nm, r, w))
                return tuple(out)
            r, w = guarded(f)
            rec(('obj', 'odd', lbl, str(trap)), (r, w))


def worker(out_path):
    import numpy as np  # noqa
    import eqsig
    records = []

    def rec(key, value):
        records.append((key, value))

    battery_integrators(rec)
    battery_peaks(rec)
    battery_object_basic(rec)
    battery_histories(rec)
    with open(out_path, 'wb') as f:
        pickle.dump({'pkg': os.path.dirname(os.path.abspath(eqsig.__file__)), 'records': records}, f, protocol=4)


# --------------------------------------------------------------------------------------
# parent
# --------------------------------------------------------------------------------------

def main():
    cwd = os.getcwd()
    if not os.path.isdir(os.path.join(cwd, 'eqsig')):
        print('run from the worktree root')
        return 2
    me = os.path.abspath(__file__)
    with tempfile.TemporaryDirectory() as tmp:
        orig_root = os.path.join(tmp, 'orig')
        os.mkdir(orig_root)
        data = subprocess.run(['git', 'archive', 'HEAD', 'eqsig'], cwd=cwd, check=True, stdout=subprocess.PIPE).stdout
        tarfile.open(fileobj=io.BytesIO(data)).extractall(orig_root)
        outs = {}
        procs = {}
        for tag, root in (('orig', orig_root), ('edit', cwd)):
            env = dict(os.environ)
            env['PYTHONPATH'] = root
            env['PYTHONHASHSEED'] = '0'
            env['PYTHONDONTWRITEBYTECODE'] = '1'
            outs[tag] = os.path.join(tmp, tag + '.pkl')
            # cwd stays the worktree (for the test data); the package is resolved through PYTHONPATH
            procs[tag] = subprocess.Popen([sys.executable, me, '--worker', outs[tag]], cwd=cwd, env=env)
        for tag, p in procs.items():
            if p.wait() != 0:
                print('worker %s failed with exit code %s' % (tag, p.returncode))
                return 3
        res = {}
        for tag in outs:
            with open(outs[tag], 'rb') as f:
                res[tag] = pickle.load(f)
        if os.path.realpath(res['orig']['pkg']) != os.path.realpath(os.path.join(orig_root, 'eqsig')):
            print('original worker imported the wrong package: %s' % res['orig']['pkg'])
            return 3
        if os.path.realpath(res['edit']['pkg']) != os.path.realpath(os.path.join(cwd, 'eqsig')):
            print('edited worker imported the wrong package: %s' % res['edit']['pkg'])
            return 3
    ro, re_ = res['orig']['records'], res['edit']['records']
    bad = 0
    if len(ro) != len(re_):
        print('different number of records: %d vs %d' % (len(ro), len(re_)))
        bad += 1
    n_ok_results = 0
    n_exc = 0
    for (ko, vo), (ke, ve) in zip(ro, re_):
        if ko != ke:
            print('key mismatch: %r vs %r' % (ko, ke))
            bad += 1
            break
        if vo != ve:
            bad += 1
            if bad <= 15:
                print('MISMATCH at %r\n   orig: %s\n   edit: %s' % (ko, repr(vo)[:1500], repr(ve)[:1500]))
        s = repr(vo[0]) if isinstance(vo, tuple) and vo else ''
        if s.startswith("('exc'"):
            n_exc += 1
        else:
            n_ok_results += 1
    print('twin %d: compared %d records (%d with a leading exception outcome), mismatches: %d'
          % (TWIN, len(ro), n_exc, bad))
    return 0 if bad == 0 else 1


if __name__ == '__main__':
    if len(sys.argv) == 3 and sys.argv[1] == '--worker':
        worker(sys.argv[2])
        sys.exit(0)
    sys.exit(main())

"""
Equivalence check for twin3 (fns.generic.interp2d: nearest node found with an explicit loop over the query points
into a preallocated index array instead of one broadcast len(x) x len(xf) distance table; bracketing indices by
integer arithmetic ind - above, ind0 + 1 and one-sided np.maximum / np.minimum instead of paired np.where / np.clip).

Run with twin3 applied and cwd = the worktree:  /venv/bin/python out/equiv3.py
The ORIGINAL package is extracted from git HEAD into a temporary directory; the same deterministic list of
calls is evaluated in two sub-processes (original / edited) and the encoded outcomes (bit patterns, dtypes, shapes,
exceptions, warnings, printed text, state of the arguments after the call) are compared for exact equality.
"""
import copy
import contextlib
import io
import os
import pickle
import struct
import subprocess
import sys
import tempfile
import warnings

HERE = os.getcwd()


# ---------------------------------------------------------------- encoding
def enc(o):
    import numpy as np
    if isinstance(o, np.ndarray):
        return ('nd', str(o.dtype), o.shape, np.ascontiguousarray(o).tobytes())
    if isinstance(o, np.generic):
        return ('ng', type(o).__name__, str(o.dtype), o.tobytes())
    if isinstance(o, bool) or o is None or isinstance(o, (int, str)):
        return ('py', type(o).__name__, repr(o))
    if isinstance(o, float):
        return ('f', struct.pack('d', o))
    if isinstance(o, (tuple, list)):
        return (type(o).__name__, [enc(i) for i in o])
    if isinstance(o, range):
        return ('range', repr(o))
    if isinstance(o, dict):
        return ('dict', [(k, enc(v)) for k, v in sorted(o.items())])
    raise TypeError(type(o))


def call(fn, *args, **kwargs):
    args = copy.deepcopy(args)
    kwargs = copy.deepcopy(kwargs)
    before = enc([list(args), kwargs])
    buf = io.StringIO()
    with warnings.catch_warnings(record=True) as wlist, contextlib.redirect_stdout(buf):
        warnings.simplefilter('always')
        try:
            res = ('ok', enc(fn(*args, **kwargs)))
        except Exception as e:  # noqa
            res = ('exc', type(e).__name__, str(e))
    after = enc([list(args), kwargs])
    wl = sorted((w.category.__name__, str(w.message)) for w in wlist)
    return {'res': res, 'args_after': after, 'mutated': before != after, 'stdout': buf.getvalue(), 'warnings': wl}


# ---------------------------------------------------------------- cases
def cases():
    import numpy as np
    import eqsig
    import eqsig.fns as fns
    from eqsig.fns.generic import interp2d, interp_left
    out = []

    def add(label, *a, **k):
        out.append((label, call(interp2d, *a, **k)))

    rng = np.random.RandomState(3)

    def queries(xf, dtype=float):
        xf = np.asarray(xf, dtype=float)
        lo, hi = float(np.min(xf)), float(np.max(xf))
        span = max(hi - lo, 1.0)
        q = [('inside', rng.uniform(lo, hi, size=40)),
             ('nodes', xf.copy()),
             ('nodes-rev', xf[::-1].copy()),
             ('outside-lo', np.array([lo - 1e-9, lo - 0.5 * span, lo - 10 * span, -1e300])),
             ('outside-hi', np.array([hi + 1e-9, hi + 0.5 * span, hi + 10 * span, 1e300])),
             ('wide', rng.uniform(lo - span, hi + span, size=60)),
             ('sorted', np.sort(rng.uniform(lo - 0.2 * span, hi + 0.2 * span, size=30))),
             ('single', np.array([0.5 * (lo + hi)])),
             ('empty', np.array([])),
             ('strided', rng.uniform(lo, hi, size=20)[::2]),
             ('near-nodes', np.concatenate([np.nextafter(xf, np.inf), np.nextafter(xf, -np.inf)])),
             ('nan-inf', np.array([np.nan, lo, np.inf, -np.inf, hi, np.nan])),
             ('negzero', np.array([-0.0, 0.0]))]
        if len(xf) > 1:
            q.append(('midpoints', 0.5 * (xf[1:] + xf[:-1])))  # ties between two nearest nodes
            q.append(('thirds', xf[:-1] + (xf[1:] - xf[:-1]) / 3))
        with np.errstate(over='ignore'):  # +-1e300 become +-inf in float32
            return [(n, v.astype(dtype)) for n, v in q]

    node_sets = []
    for n in [1, 2, 3, 4, 5, 8, 17, 60]:
        node_sets.append(('uniform%i' % n, np.arange(n, dtype=float)))
        node_sets.append(('lin%i' % n, np.linspace(-1.3, 2.9, n)))
        node_sets.append(('rand%i' % n, np.sort(rng.uniform(-5, 5, size=n))))
        node_sets.append(('log%i' % n, np.logspace(-2, 2, n)))
        node_sets.append(('decr%i' % n, np.sort(rng.uniform(-5, 5, size=n))[::-1].copy()))
        node_sets.append(('decrview%i' % n, np.sort(rng.uniform(-5, 5, size=n))[::-1]))
        node_sets.append(('int%i' % n, np.arange(n) * 2 - 3))
        node_sets.append(('f32_%i' % n, np.sort(rng.uniform(-5, 5, size=n)).astype(np.float32)))
        if n >= 3:
            v = np.sort(rng.uniform(-5, 5, size=n))
            v[1] = v[0]  # repeated nodes (monotone, not strictly)
            node_sets.append(('rep-first%i' % n, v))
            v = np.sort(rng.uniform(-5, 5, size=n))
            v[-1] = v[-2]
            node_sets.append(('rep-last%i' % n, v))
            v = np.sort(rng.uniform(-5, 5, size=n))
            v[n // 2] = v[n // 2 - 1]
            node_sets.append(('rep-mid%i' % n, v))
            node_sets.append(('const%i' % n, np.full(n, 1.5)))
            node_sets.append(('close%i' % n, 1.0 + np.arange(n) * 1e-11))  # spacing below the 1e-10 weight guard
            node_sets.append(('unsorted%i' % n, rng.uniform(-5, 5, size=n)))  # outside the domain, still identical
    for xname, xf in node_sets:
        n = len(xf)
        tables = [('f%ix%i' % (n, k), rng.randn(n, k)) for k in [1, 3]]
        tables.append(('fint', rng.randint(-9, 9, size=(n, 2))))
        tables.append(('ff32', rng.randn(n, 2).astype(np.float32)))
        tables.append(('fzeros', np.zeros((n, 2))))
        tables.append(('fF', np.asfortranarray(rng.randn(n, 4))))
        tables.append(('fcplx', rng.randn(n, 2) + 1j * rng.randn(n, 2)))
        tables.append(('finf', np.where(rng.rand(n, 2) > 0.7, np.inf, rng.randn(n, 2))))
        tables.append(('f3d', rng.randn(n, 2, 2)) if False else ('fwide', rng.randn(n, 7)))
        for qname, x in queries(xf):
            for fname, f in tables:
                add('%s-%s-%s' % (xname, qname, fname), x, xf, f)
        # other query dtypes
        for qname, x in queries(xf, dtype=np.float32)[:6]:
            add('%s-%s-x32' % (xname, qname), x, xf, tables[0][1])
        lo, hi = int(np.floor(np.min(xf))) - 2, int(np.ceil(np.max(xf))) + 3
        add('%s-xint' % xname, np.arange(lo, hi), xf, tables[0][1])
        add('%s-xint-fint' % xname, np.arange(lo, hi), xf, tables[2][1])
        add('%s-xint32' % xname, np.arange(lo, hi, dtype=np.int32), xf, tables[1][1])
        add('%s-kw' % xname, x=rng.uniform(lo, hi, size=5), xf=xf, f=tables[1][1])
        out.append(('%s-fns' % xname, call(fns.interp2d, rng.uniform(lo, hi, size=5), xf, tables[1][1])))
        out.append(('%s-eqsig' % xname, call(eqsig.interp2d, rng.uniform(lo, hi, size=5), xf, tables[1][1])))
        # shapes of f outside the documented 2d table
        add('%s-f1d' % xname, rng.uniform(lo, hi, size=n), xf, rng.randn(n))
        add('%s-f1d-b' % xname, rng.uniform(lo, hi, size=n + 2), xf, rng.randn(n))
        add('%s-f3d' % xname, rng.uniform(lo, hi, size=4), xf, rng.randn(n, 2, 2))
        add('%s-fshort' % xname, rng.uniform(lo, hi, size=9), xf, rng.randn(max(n - 1, 1), 2))
    # the docstring / test-suite examples
    f = np.array([[0, 0, 0], [0, 1, 4], [2, 6, 2], [10, 10, 10]])
    xf = np.array([0, 1, 2, 3])
    add('doc', np.array([0.5, 1, 2.2, 2.5]), xf, f)
    add('doc-int-x', np.array([0, 1, 2, 3, 4, -1]), xf, f)
    add('doc-uint8', np.array([0, 1, 2, 3, 4, 200], dtype=np.uint8), xf.astype(np.uint8), f)
    add('doc-edge', np.array([0., 3., 3.5, -1.]), xf, f.astype(float))
    # invalid argument types: both versions must fail (INV- cases: only failure + argument state is compared)
    xs = np.array([0.5, 1.5])
    add('INV-listx', [0.5, 1.5], xf, f)
    add('INV-tuplex', (0.5, 1.5), xf, f)
    add('INV-scalarx', 0.5, xf, f)
    add('INV-npscalarx', np.float64(0.5), xf, f)
    add('INV-0dx', np.array(0.5), xf, f)
    add('INV-listxf', xs, [0, 1, 2, 3], f)
    add('INV-listf', xs, xf, f.tolist())
    add('INV-emptyxf', xs, np.array([]), np.zeros((0, 2)))
    add('INV-nonex', None, xf, f)
    # untouched neighbour in the same module, evaluated with this copy of the package
    x = np.array([0., 1., 2.5, 4.])
    y = np.array([3., 5., 7., 9.])
    for j, x0 in enumerate([0.0, 0.5, 1.0, 2.49, 2.5, 100.0, [0.0, 3.0], np.array([1.0, 2.6, 4.0]), 3]):
        out.append(('left-%i' % j, call(interp_left, x0, x, y)))
        out.append(('left-noy-%i' % j, call(interp_left, x0, x)))
        out.append(('left-listy-%i' % j, call(interp_left, x0, list(x), list(y))))
    return out


def worker(path, outfile):
    sys.path.insert(0, path)
    os.chdir(path)
    import eqsig
    assert os.path.realpath(eqsig.__file__).startswith(os.path.realpath(path)), (eqsig.__file__, path)
    with open(outfile, 'wb') as f:
        pickle.dump(cases(), f)


def run_worker(path, outfile):
    env = dict(os.environ)
    env.pop('PYTHONPATH', None)
    subprocess.run([sys.executable, os.path.abspath(__file__), '--worker', path, outfile], check=True, env=env,
                   cwd=path)
    with open(outfile, 'rb') as f:
        return pickle.load(f)


def main():
    tmp = tempfile.mkdtemp(prefix='equiv3_C20_', dir='/tmp')
    orig = os.path.join(tmp, 'orig')
    os.makedirs(orig)
    subprocess.run('git archive HEAD eqsig | tar -x -C "%s"' % orig, shell=True, check=True, cwd=HERE)
    assert os.path.exists(os.path.join(orig, 'eqsig', 'fns', 'generic.py'))
    # make sure the edit under test is really applied here and absent in the original
    assert 'ind0 = ind - above' in open(os.path.join(HERE, 'eqsig', 'fns', 'generic.py')).read(), 'twin3 not applied'
    assert 'ind0 = ind - above' not in open(os.path.join(orig, 'eqsig', 'fns', 'generic.py')).read()
    r_orig = run_worker(orig, os.path.join(tmp, 'orig.pkl'))
    r_new = run_worker(HERE, os.path.join(tmp, 'new.pkl'))
    assert len(r_orig) == len(r_new) and len(r_orig) > 1000
    bad = 0
    n_ok = 0
    n_exc = 0
    for (la, a), (lb, b) in zip(r_orig, r_new):
        assert la == lb
        assert not a['mutated'] and not b['mutated'], la
        if la.startswith('INV-'):
            # x, xf, f that are not numpy arrays (or an empty node set) are rejected by both versions;
            # which operation rejects them first is not part of the behaviour that is compared
            same = (a['res'][0] == b['res'][0] == 'exc') and a['args_after'] == b['args_after']
        else:
            # everything: values (bit patterns), dtypes, shapes, exception type + text, warnings, arguments
            same = (a == b)
        if a['res'][0] == 'ok':
            n_ok += 1
        else:
            n_exc += 1
        if not same:
            bad += 1
            if bad < 10:
                print('MISMATCH', la, a['res'][:3] if a['res'][0] == 'exc' else a['res'][1][:3],
                      b['res'][:3] if b['res'][0] == 'exc' else b['res'][1][:3], a['warnings'], b['warnings'])
    print('cases: %i (returned: %i, raised: %i), mismatches: %i' % (len(r_orig), n_ok, n_exc, bad))
    return 1 if bad else 0


if __name__ == '__main__':
    if len(sys.argv) > 1 and sys.argv[1] == '--worker':
        worker(sys.argv[2], sys.argv[3])
    else:
        sys.exit(main())

"""
Equivalence check: ORIGINAL eqsig (from git HEAD) versus the EDITED eqsig in this worktree.

Run from the worktree root with the twin applied:

    cd /tmp/twin2/C07 && /venv/bin/python out/equivK.py

The same deterministic list of cases is executed in two sub-processes, one importing the edited package
(the worktree) and one importing the original package (extracted with `git archive HEAD eqsig`).
Every result (values, dtypes, shapes, exception types, emitted warnings, argument mutation, object state)
is frozen into plain python objects and the two lists are compared for exact (bit-for-bit) equality.
Exit status 0 iff everything matches.
"""
import os
import pickle
import shutil
import subprocess
import sys
import tempfile
import warnings

WORKTREE = os.path.dirname(os.path.dirname(os.path.abspath(__file__)))


# --------------------------------------------------------------------------------------------------
# freezing of results
# --------------------------------------------------------------------------------------------------
def freeze(obj):
    import numpy as np
    if isinstance(obj, np.ndarray):
        return ('ndarray', obj.dtype.str, obj.shape, np.ascontiguousarray(obj).tobytes())
    if isinstance(obj, np.generic):
        return ('npscalar', type(obj).__name__, np.asarray(obj).tobytes())
    if isinstance(obj, tuple):
        return ('tuple',) + tuple(freeze(o) for o in obj)
    if isinstance(obj, list):
        return ('list',) + tuple(freeze(o) for o in obj)
    if isinstance(obj, dict):
        return ('dict',) + tuple((k, freeze(obj[k])) for k in sorted(obj))
    if isinstance(obj, BaseException):
        return ('exception', type(obj).__name__)
    if isinstance(obj, (bool, int, float, complex, str, type(None))):
        return (type(obj).__name__, repr(obj))
    return ('object', type(obj).__name__)


def call(fn, *args, **kwargs):
    """Calls fn, returns frozen (result or exception type, warnings, argument mutation)"""
    import copy
    before = freeze([a for a in args if not hasattr(a, '__dict__')])
    with warnings.catch_warnings(record=True) as wlist:
        warnings.simplefilter('always')
        try:
            out = fn(*args, **kwargs)
        except Exception as e:  # noqa
            out = e
    after = freeze([a for a in args if not hasattr(a, '__dict__')])
    warns = tuple((w.category.__name__, str(w.message)) for w in wlist)
    return freeze(out), warns, ('args_unchanged', before == after), after


def sig_state(sig):
    """Observable + private state of a Signal that is related to the (smoothed) Fourier spectrum"""
    names = ['_smooth_fa_freqs', '_smooth_fa_spectrum', '_cached_smooth_fa', '_cached_fa', '_smooth_freq_range',
             '_fa_spectrum', '_fa_freqs', '_npts', '_values', '_smooth_freq_points']
    state = {}
    for name in names:
        state[name] = freeze(getattr(sig, name))
    state['__dict__keys'] = freeze(sorted(vars(sig).keys()))
    return freeze(state)


# --------------------------------------------------------------------------------------------------
# the cases
# --------------------------------------------------------------------------------------------------
def run_cases():
    import numpy as np
    import eqsig
    from eqsig.fns import frequency as fq
    from eqsig import im
    res = []

    def add(label, val):
        res.append((label, val))

    rng = np.random.RandomState(20260926)
    bands = [5, 10, 40, 100, 37.5]

    # ---- grids and spectra ---------------------------------------------------------------------
    def grids():
        for n, dt in [(1, 0.01), (2, 0.01), (3, 0.02), (4, 0.01), (8, 0.005), (33, 0.01), (128, 0.02), (257, 0.01)]:
            f = np.arange(n + 1) / (2 * (n + 1) * dt)  # with the zero frequency bin
            yield 'grid0_n%i' % n, f
            yield 'gridx_n%i' % n, f[1:].copy()  # without the zero frequency bin
        yield 'grid_int', np.arange(0, 12)  # integer dtype incl. zero
        yield 'grid_int_nz', np.arange(1, 12)  # integer dtype without zero
        yield 'grid_irregular', np.sort(rng.uniform(0.05, 40, 50))
        yield 'grid_f32', np.linspace(0, 25, 41).astype(np.float32)

    def spectra(n):
        yield 'cplx', rng.normal(size=n) + 1j * rng.normal(size=n)
        yield 'real', rng.normal(size=n)
        yield 'abs', np.abs(rng.normal(size=n)) * 1e3
        yield 'zeros', np.zeros(n)
        yield 'const', np.full(n, 2.5)
        yield 'int', rng.randint(-5, 6, size=n)
        yield 'tiny', rng.normal(size=n) * 1e-300

    def targets(f):
        fnz = f[f > 0]
        lo, hi = float(fnz[0]), float(fnz[-1])
        yield 'none', None
        yield 'inside', np.logspace(np.log10(lo), np.log10(hi), 13)
        yield 'outside', np.array([lo / 100, lo / 3, hi * 3, hi * 100])
        yield 'ongrid', np.array(fnz[::max(1, len(fnz) // 5)], dtype=float)
        yield 'mixed', np.concatenate([[lo / 2], fnz[:3].astype(float), [0.5 * (lo + hi)], [hi], [hi * 2]])
        yield 'single_on', np.array([float(fnz[len(fnz) // 2])])
        yield 'single_off', np.array([0.37 * (lo + hi)])
        yield 'int_targets', np.array([1, 2, 5, 10])
        yield 'unsorted', np.array([hi, lo, 0.5 * (lo + hi), lo])
        yield 'empty', np.array([], dtype=float)

    # ---- calc_smooth_fa_spectrum / matrix form -------------------------------------------------
    for gname, f in grids():
        for sname, s in spectra(len(f)):
            for tname, t in targets(f):
                for band in bands:
                    lab = 'smooth|%s|%s|%s|%s' % (gname, sname, tname, band)
                    add(lab + '|direct', call(fq.calc_smooth_fa_spectrum, f, s, t, band=band))
                    add(lab + '|deprec', call(fq.generate_smooth_fa_spectrum, t, f, s, band=band))
            # default band, positional / keyword forms
            add('smooth|%s|%s|defaults' % (gname, sname), call(fq.calc_smooth_fa_spectrum, f, s))
            add('smooth|%s|%s|kw' % (gname, sname),
                call(fq.calc_smooth_fa_spectrum, fa_frequencies=f, fa_spectrum=s, smooth_fa_frequencies=None))
        for tname, t in targets(f):
            for band in bands:
                add('matrix|%s|%s|%s' % (gname, tname, band),
                    call(fq.calc_smoothing_matrix_konno_1998, f, t, band=band))
        add('matrix|%s|defaults' % gname, call(fq.calc_smoothing_matrix_konno_1998, f))

    # lists instead of arrays, and other awkward inputs (exception types must agree)
    fl = [0.0, 1.0, 2.0, 3.0]
    sl = [1.0, 2.0, 3.0, 4.0]
    tl = [0.5, 1.0, 2.5]
    add('lists|all', call(fq.calc_smooth_fa_spectrum, fl, sl, tl))
    add('lists|freqs', call(fq.calc_smooth_fa_spectrum, fl, np.array(sl), np.array(tl)))
    add('lists|spec', call(fq.calc_smooth_fa_spectrum, np.array(fl), sl, np.array(tl)))
    add('lists|targets', call(fq.calc_smooth_fa_spectrum, np.array(fl), np.array(sl), tl))
    add('lists|none', call(fq.calc_smooth_fa_spectrum, np.array(fl), sl))
    add('lists|matrix_f', call(fq.calc_smoothing_matrix_konno_1998, fl, np.array(tl)))
    add('lists|matrix_t', call(fq.calc_smoothing_matrix_konno_1998, np.array(fl), tl))
    add('lists|matrix_none', call(fq.calc_smoothing_matrix_konno_1998, fl))
    add('bad|len_mismatch', call(fq.calc_smooth_fa_spectrum, np.array(fl), np.array(sl[:-1]), np.array(tl)))
    add('bad|zero_target', call(fq.calc_smooth_fa_spectrum, np.array(fl), np.array(sl), np.array([0.0, 1.0])))
    add('bad|neg_target', call(fq.calc_smooth_fa_spectrum, np.array(fl), np.array(sl), np.array([-1.0, 1.0])))
    add('bad|empty', call(fq.calc_smooth_fa_spectrum, np.array([]), np.array([]), np.array(tl)))
    add('bad|only_zero', call(fq.calc_smooth_fa_spectrum, np.array([0.0]), np.array([1.0]), np.array(tl)))
    add('bad|2d', call(fq.calc_smooth_fa_spectrum, np.ones((3, 2)), np.ones((3, 2)), np.array(tl)))

    # ---- Signal / AccSignal: multi-step histories -------------------------------------------------
    def motions():
        t = np.arange(0, 5.0, 0.01)
        yield 'sine', np.sin(2 * np.pi * 1.7 * t) * np.exp(-0.3 * t), 0.01
        yield 'noise', rng.normal(size=700), 0.005
        yield 'short', np.array([0.0, 1.0, -1.0, 0.5, 0.2, -0.3]), 0.1
        yield 'ints', rng.randint(-100, 100, size=300), 0.02
        yield 'list', list(rng.normal(size=64)), 0.01
        yield 'pow2', rng.normal(size=256), 0.01
        yield 'zeros', np.zeros(128), 0.01
        yield 'two_tone', np.sin(2 * np.pi * 0.8 * t) + 0.4 * np.sin(2 * np.pi * 9.0 * t), 0.01

    def bandwidth_block(lab, sig):
        for ratio in [0.707, 0.5, 0.1, 0.999, 1.0, 1.5, 0.0]:
            add(lab + '|bw_freqs|%s' % ratio, call(im.calc_bandwidth_freqs, sig, ratio=ratio))
            add(lab + '|bw_fmin|%s' % ratio, call(im.calc_bandwidth_f_min, sig, ratio=ratio))
            add(lab + '|bw_fmax|%s' % ratio, call(im.calc_bandwidth_f_max, sig, ratio=ratio))
        add(lab + '|bw_defaults', call(im.calc_bandwidth_freqs, sig))
        add(lab + '|bw_min_default', call(im.calc_bandwidth_f_min, sig))
        add(lab + '|bw_max_default', call(im.calc_bandwidth_f_max, sig))
        for ratio in [15, 2, 1.0001, 1, 0.5, 1e6]:
            add(lab + '|freq_range|%s' % ratio, call(fq.get_sig_freq_range, sig, ratio=ratio))
            add(lab + '|idx_range|%s' % ratio, call(fq.get_sig_array_indexes_range, sig.smooth_fa_spectrum, ratio=ratio))
        add(lab + '|freq_range_default', call(fq.get_sig_freq_range, sig))
        add(lab + '|idx_range_default', call(fq.get_sig_array_indexes_range, sig.smooth_fa_spectrum))
        add(lab + '|idx_range_list', call(fq.get_sig_array_indexes_range, list(sig.smooth_fa_spectrum), ratio=3))
        add(lab + '|state_after_bw', sig_state(sig))

    for cls_name in ['Signal', 'AccSignal']:
        cls = getattr(eqsig, cls_name)
        for mname, vals, dt in motions():
            lab = 'obj|%s|%s' % (cls_name, mname)
            sig = cls(vals, dt)
            add(lab + '|s0', sig_state(sig))
            add(lab + '|get_freqs', call(lambda: (sig.smooth_fa_freqs, sig.smooth_fa_frequencies)))
            add(lab + '|same_obj', sig.smooth_fa_freqs is sig.smooth_fa_frequencies)
            add(lab + '|smooth1', call(lambda: sig.smooth_fa_spectrum))
            add(lab + '|s1', sig_state(sig))
            add(lab + '|smooth1_again_is', sig.smooth_fa_spectrum is sig.smooth_fa_spectrum)
            bandwidth_block(lab + '|a', sig)
            # custom matrix form
            mat = fq.calc_smoothing_matrix_konno_1998(sig.fa_frequencies, sig.smooth_fa_frequencies)
            add(lab + '|custom_matrix', call(fq.calc_smooth_fa_spectrum_w_custom_matrix, sig, mat))
            # setters
            on_grid = np.array(sig.fa_frequencies[1:4])
            add(lab + '|set_freqs_list', call(setattr, sig, 'smooth_fa_freqs', [0.2, 0.5, 1, 2, 5, 10]))
            add(lab + '|s2', sig_state(sig))
            add(lab + '|smooth2', call(lambda: sig.smooth_fa_spectrum))
            add(lab + '|s3', sig_state(sig))
            add(lab + '|set_frequencies_int', call(setattr, sig, 'smooth_fa_frequencies', np.array([1, 2, 3, 4])))
            add(lab + '|s4', sig_state(sig))
            add(lab + '|smooth3', call(lambda: sig.smooth_fa_spectrum))
            src = np.concatenate([on_grid, [on_grid[-1] * 1.5]])
            add(lab + '|set_freqs_ongrid', call(setattr, sig, 'smooth_fa_freqs', src))
            add(lab + '|set_copy', sig._smooth_fa_freqs is src)
            add(lab + '|smooth4', call(lambda: sig.smooth_fa_spectrum))
            add(lab + '|s5', sig_state(sig))
            bandwidth_block(lab + '|b', sig)
            # gen_smooth_fa_spectrum with options
            for band in bands:
                add(lab + '|gen_band|%s' % band, call(sig.gen_smooth_fa_spectrum, band=band))
                add(lab + '|gen_band_state|%s' % band, sig_state(sig))
                add(lab + '|generate_band|%s' % band, call(sig.generate_smooth_fa_spectrum, band=band))
                add(lab + '|generate_band_state|%s' % band, sig_state(sig))
            custom = np.logspace(-1, 1, 9)
            add(lab + '|gen_custom', call(sig.gen_smooth_fa_spectrum, custom, 20))
            add(lab + '|gen_custom_noalias', sig._smooth_fa_freqs is custom)
            add(lab + '|s6', sig_state(sig))
            add(lab + '|gen_custom_list', call(sig.gen_smooth_fa_spectrum, smooth_fa_freqs=[0.5, 1.0, 2.0]))
            add(lab + '|s7', sig_state(sig))
            add(lab + '|gen_custom_kw', call(sig.gen_smooth_fa_spectrum, smooth_fa_freqs=np.array([0.5, 1.0, 2.0]), band=60))
            add(lab + '|s8', sig_state(sig))
            # range based setters
            add(lab + '|by_range', call(sig.set_smooth_fa_frequecies_by_range, (0.2, 20), 31))
            add(lab + '|s9', sig_state(sig))
            add(lab + '|smooth5', call(lambda: sig.smooth_fa_spectrum))
            add(lab + '|by_range_list', call(sig.set_smooth_fa_frequecies_by_range, [0.5, 5], 7))
            add(lab + '|by_range_arr', call(sig.set_smooth_fa_frequecies_by_range, np.array([1, 10]), 4))
            add(lab + '|s10', sig_state(sig))
            add(lab + '|smooth6', call(lambda: sig.smooth_fa_spectrum))
            # deprecated accessors
            add(lab + '|dep_get_range', call(lambda: sig.smooth_freq_range))
            add(lab + '|dep_get_points', call(lambda: sig.smooth_freq_points))
            add(lab + '|dep_set_range', call(setattr, sig, 'smooth_freq_range', (0.3, 12)))
            add(lab + '|s11', sig_state(sig))
            add(lab + '|dep_set_points', call(setattr, sig, 'smooth_freq_points', 17))
            add(lab + '|s12', sig_state(sig))
            add(lab + '|smooth7', call(lambda: sig.smooth_fa_spectrum))
            # fa spectrum regeneration, cache clearing and new values
            add(lab + '|gen_fa_p2', call(sig.gen_fa_spectrum, p2_plus=1))
            add(lab + '|s13', sig_state(sig))
            add(lab + '|smooth8_stale', call(lambda: sig.smooth_fa_spectrum))
            add(lab + '|gen_smooth_after_p2', call(sig.gen_smooth_fa_spectrum))
            add(lab + '|s14', sig_state(sig))
            add(lab + '|clear', call(sig.clear_cache))
            add(lab + '|s15', sig_state(sig))
            add(lab + '|smooth9', call(lambda: sig.smooth_fa_spectrum))
            add(lab + '|reset', call(sig.reset_values, np.asarray(vals, dtype=float)[::-1] * 2.0 + 0.01))
            add(lab + '|s16', sig_state(sig))
            add(lab + '|smooth10', call(lambda: sig.smooth_fa_spectrum))
            add(lab + '|s17', sig_state(sig))
            bandwidth_block(lab + '|c', sig)
            # constructor with explicit frequencies
            sig2 = cls(vals, dt, smooth_fa_freqs=[0.5, 1.5, 4.5])
            add(lab + '|ctor_freqs_s0', sig_state(sig2))
            add(lab + '|ctor_freqs_smooth', call(lambda: sig2.smooth_fa_spectrum))
            add(lab + '|ctor_freqs_s1', sig_state(sig2))
            sig3 = cls(vals, dt, smooth_freq_range=(0.05, 40))
            add(lab + '|ctor_range_s0', sig_state(sig3))
            add(lab + '|ctor_range_smooth', call(lambda: sig3.smooth_fa_spectrum))
            bandwidth_block(lab + '|d', sig3)
            sig4 = cls(vals, dt, smooth_fa_freqs=np.array(sig3.fa_frequencies[1:]))
            add(lab + '|ctor_ongrid_smooth', call(lambda: sig4.smooth_fa_spectrum))
            bandwidth_block(lab + '|e', sig4)

    # class level attributes / descriptors
    for cls_name in ['Signal', 'AccSignal']:
        cls = getattr(eqsig, cls_name)
        for pname in ['smooth_fa_freqs', 'smooth_fa_frequencies', 'smooth_fa_spectrum', 'smooth_freq_range',
                      'smooth_freq_points']:
            p = getattr(cls, pname)
            add('descr|%s|%s' % (cls_name, pname),
                freeze((type(p).__name__, p.fget is not None, p.fset is not None, p.fdel is not None)))
        sig = cls(np.ones(8), 0.1)
        add('descr|%s|del_freqs' % cls_name, call(delattr, sig, 'smooth_fa_freqs'))
        add('descr|%s|set_spectrum' % cls_name, call(setattr, sig, 'smooth_fa_spectrum', np.ones(3)))
    return res


# --------------------------------------------------------------------------------------------------
# driver
# --------------------------------------------------------------------------------------------------
def worker(root, out_path):
    sys.path.insert(0, root)
    os.chdir(root)
    import eqsig
    assert os.path.abspath(eqsig.__file__).startswith(os.path.abspath(root) + os.sep), (eqsig.__file__, root)
    res = run_cases()
    with open(out_path, 'wb') as fh:
        pickle.dump(res, fh)


def main():
    tmp = tempfile.mkdtemp(prefix='eqsig_orig_', dir='/tmp')
    try:
        subprocess.check_call('git archive HEAD eqsig | tar -x -C %s' % tmp, shell=True, cwd=WORKTREE)
        outs = {}
        for tag, root in [('edited', WORKTREE), ('original', tmp)]:
            out_path = os.path.join(tmp, tag + '.pkl')
            env = dict(os.environ)
            env.pop('PYTHONPATH', None)
            env['PYTHONDONTWRITEBYTECODE'] = '1'
            subprocess.check_call([sys.executable, os.path.abspath(__file__), '--worker', root, out_path],
                                  cwd=root, env=env)
            with open(out_path, 'rb') as fh:
                outs[tag] = pickle.load(fh)
        ed, orig = outs['edited'], outs['original']
        n_bad = 0
        if len(ed) != len(orig):
            print('different number of results: %i vs %i' % (len(ed), len(orig)))
            n_bad += 1
        for (lab_e, val_e), (lab_o, val_o) in zip(ed, orig):
            if lab_e != lab_o or val_e != val_o:
                n_bad += 1
                if n_bad < 20:
                    print('MISMATCH:', lab_e, lab_o)
        n_exc = sum(1 for _, v in orig if isinstance(v, tuple) and len(v) == 4 and isinstance(v[0], tuple)
                    and v[0][:1] == ('exception',))
        print('%i results compared (%i of them exceptions in the original), %i mismatches' % (len(orig), n_exc, n_bad))
        return 1 if n_bad else 0
    finally:
        shutil.rmtree(tmp, ignore_errors=True)


if __name__ == '__main__':
    if len(sys.argv) == 4 and sys.argv[1] == '--worker':
        worker(sys.argv[2], sys.argv[3])
    else:
        sys.exit(main())

"""Equivalence check for twin2 (eqsig/fns/average.py: calc_roll_av_vals, calc_step_fn_vals_error).

Run with twin2 applied, cwd = the worktree.  Loads the ORIGINAL average.py from git HEAD,
executes it into a fresh module namespace (package context eqsig.fns, so that its relative
import resolves) and compares it with the edited module.
"""
import os
import subprocess
import sys
import types
import warnings

ROOT = os.getcwd()
sys.path.insert(0, ROOT)

import numpy as np  # noqa: E402
import eqsig  # noqa: E402
import eqsig.fns.average as new  # noqa: E402

assert eqsig.__file__.startswith(ROOT), (eqsig.__file__, ROOT)
assert new.__file__.startswith(ROOT), new.__file__


def load_original(relpath, modname, package):
    src = subprocess.check_output(['git', 'show', 'HEAD:' + relpath], cwd=ROOT).decode()
    mod = types.ModuleType(modname)
    mod.__package__ = package
    mod.__file__ = '<HEAD:%s>' % relpath
    exec(compile(src, mod.__file__, 'exec'), mod.__dict__)
    return src, mod


src, old = load_original('eqsig/fns/average.py', 'eqsig.fns._orig_average', 'eqsig.fns')
assert src != open(os.path.join(ROOT, 'eqsig/fns/average.py')).read(), "twin2 is not applied"

# the public surface of the modules is unchanged
pub_old = sorted(k for k in vars(old) if not k.startswith('_'))
pub_new = sorted(k for k in vars(new) if not k.startswith('_'))
assert pub_old == pub_new, (pub_old, pub_new)
assert not hasattr(eqsig.fns, '_calc_padded_side_error')

n_checks = 0


def same(a, b, ctx):
    """bit-for-bit equality incl. type, dtype and shape (NaNs compare equal)"""
    global n_checks
    n_checks += 1
    assert type(a) is type(b), (ctx, type(a), type(b))
    if isinstance(a, np.ndarray):
        assert a.dtype == b.dtype, (ctx, a.dtype, b.dtype)
        assert a.shape == b.shape, (ctx, a.shape, b.shape)
        if a.dtype.kind in 'fc':
            assert np.array_equal(a, b, equal_nan=True), (ctx, a, b)
            assert np.array_equal(np.signbit(a), np.signbit(b)), (ctx, 'signbit')
        else:
            assert np.array_equal(a, b), (ctx, a, b)
    elif isinstance(a, tuple):
        assert len(a) == len(b), ctx
        for p, q in zip(a, b):
            same(p, q, ctx)
    else:
        assert a == b or (a != a and b != b), (ctx, a, b)


def call(fn, *args, **kwargs):
    with warnings.catch_warnings(record=True) as w:
        warnings.simplefilter('always')
        try:
            out = ('ok', fn(*args, **kwargs))
        except Exception as e:  # noqa
            out = ('exc', type(e), str(e))
    return out, sorted((str(x.category.__name__), str(x.message)) for x in w)


def snapshot(a):
    if isinstance(a, np.ndarray):
        return a.copy()
    if isinstance(a, list):
        return list(a)
    return a


def compare(name, make_args, ctx, exc_type_only=False, **kwargs):
    args_o = make_args()
    args_n = make_args()
    keep = [snapshot(a) for a in args_o]
    ro, wo = call(getattr(old, name), *args_o, **kwargs)
    rn, wn = call(getattr(new, name), *args_n, **kwargs)
    assert wo == wn, (ctx, 'warnings', wo, wn)
    assert ro[0] == rn[0], (ctx, ro, rn)
    if ro[0] == 'ok':
        same(ro[1], rn[1], ctx)
    else:
        if exc_type_only:
            assert ro[1] is rn[1], (ctx, ro, rn)
        else:
            assert ro[1:] == rn[1:], (ctx, ro, rn)
    for k, (ao, an, ko) in enumerate(zip(args_o, args_n, keep)):
        if isinstance(ao, np.ndarray):
            assert ao.dtype == ko.dtype and an.dtype == ko.dtype
            assert np.array_equal(ao, ko, equal_nan=True), (ctx, 'old mutated arg', k)
            assert np.array_equal(an, ko, equal_nan=True), (ctx, 'new mutated arg', k)
        elif isinstance(ao, list):
            assert ao == ko and an == ko, (ctx, 'list arg mutated', k)
    return ro


rng = np.random.default_rng(2020)
MODES = ['forward', 'backward', 'centre', 'center', 'anything-else']


def series_variants(trial, n):
    kind = trial % 8
    if kind == 0:
        v = rng.normal(size=n)
    elif kind == 1:
        v = rng.integers(-9, 10, n)  # integer dtype
    elif kind == 2:
        v = np.zeros(n)
    elif kind == 3:
        v = np.full(n, rng.normal())  # constant series
    elif kind == 4:
        v = rng.normal(size=n).astype(np.float32)
    elif kind == 5:
        v = np.abs(rng.normal(size=n)) * 1e6  # all positive, large
    elif kind == 6:
        v = -np.abs(rng.normal(size=n))  # all negative
    else:
        v = np.concatenate([np.full(n // 2, 4), np.full(n - n // 2, 1)])  # clean step (int)
    return v


# ---------------------------------------------------------------- calc_roll_av_vals
t_vals = [4, 4, 4, 4, 1, 1, 1, 1]
for mode in MODES:
    for steps in range(1, len(t_vals) + 4):
        compare('calc_roll_av_vals', lambda: (list(t_vals), steps), ('roll-test', mode, steps), mode=mode)
        compare('calc_roll_av_vals', lambda: (np.array(t_vals, dtype=float), float(steps)),
                ('roll-test-floatsteps', mode, steps), mode=mode)
        compare('calc_roll_av_vals', lambda: (tuple(t_vals), np.int64(steps)),
                ('roll-test-npint', mode, steps), mode=mode)
compare('calc_roll_av_vals', lambda: (list(t_vals), 3), 'roll-default-mode')
compare('calc_roll_av_vals', lambda: (list(t_vals), 3, 'backward'), 'roll-positional-mode')
compare('calc_roll_av_vals', lambda: (list(t_vals), 2.9), 'roll-steps-2.9')

for trial in range(400):
    n = int(rng.integers(1, 14))
    v = series_variants(trial, n)
    as_list = trial % 3 == 0
    for mode in MODES:
        for steps in range(1, n + 1):
            compare('calc_roll_av_vals', lambda: ((v.tolist() if as_list else v.copy()), steps),
                    ('roll', trial, mode, steps), mode=mode)
    # windows longer than the series
    long_steps = n + int(rng.integers(1, 5))
    compare('calc_roll_av_vals', lambda: (v.copy(), long_steps), ('roll-long', trial), mode=MODES[trial % 5])

# special values at the replicated edges
for mode in MODES:
    for steps in (1, 2, 3, 4):
        compare('calc_roll_av_vals', lambda: (np.array([np.inf, 1.0, 2.0, -np.inf]), steps), ('roll-inf', mode, steps),
                mode=mode)
        compare('calc_roll_av_vals', lambda: (np.array([np.nan, 1.0, 2.0, 3.0]), steps), ('roll-nan', mode, steps),
                mode=mode)
        compare('calc_roll_av_vals', lambda: (np.array([-0.0, -0.0, -0.0]), steps), ('roll-negzero', mode, steps),
                mode=mode)
        compare('calc_roll_av_vals', lambda: (np.array([True, False, True]), steps), ('roll-bool', mode, steps),
                mode=mode)
        compare('calc_roll_av_vals', lambda: (np.array([2 ** 62, -2 ** 62, 2 ** 53 + 1]), steps),
                ('roll-bigint', mode, steps), mode=mode)
    # outside the documented domain: same failure (or result) expected all the same
    for steps in (0, -1, -2):
        compare('calc_roll_av_vals', lambda: (np.array([1.0, 2.0, 3.0]), steps), ('roll-bad-steps', mode, steps),
                mode=mode)
    # an empty series (len 0, so no window size 1..len exists) fails with IndexError in both; only the
    # index quoted in the message may differ (values[0] is now looked up before values[-1] in forward mode)
    compare('calc_roll_av_vals', lambda: (np.array([]), 1), ('roll-empty', mode), exc_type_only=True, mode=mode)
    compare('calc_roll_av_vals', lambda: (np.array([]), 2), ('roll-empty2', mode), exc_type_only=True, mode=mode)
    assert call(new.calc_roll_av_vals, np.array([]), 1, mode=mode)[0][1] is IndexError

# ---------------------------------------------------------------- calc_step_fn_vals_error / calc_step_fn_steps_vals
for vals in ([4, 4, 4, 4, 1, 1, 1, 1], [4, 5, 4, 4, 1, 1, 2, 1], [4.0, 5, 4, 4, 1, 1, 2, 1], [1], [1.5], [1, 2],
             [0, 0, 0], [0.0, 0.0], [-1.5, 2.5, -3.5]):
    for pw in (1, 2, 3, 0.5, 2.0):
        for d in (None, 'down', 'up', 'sideways'):
            compare('calc_step_fn_vals_error', lambda: (list(vals),), ('err-fixed', vals, pw, d), pow=pw, dir=d)
            compare('calc_step_fn_vals_error', lambda: (np.array(vals),), ('err-fixed-arr', vals, pw, d), pow=pw, dir=d)
    compare('calc_step_fn_vals_error', lambda: (list(vals),), ('err-defaults', vals))
    compare('calc_step_fn_vals_error', lambda: (list(vals), 2, 'up'), ('err-positional', vals))
    compare('calc_step_fn_steps_vals', lambda: (np.array(vals),), ('steps-fixed', vals))
    compare('calc_step_fn_steps_vals', lambda: (list(vals),), ('steps-fixed-list', vals))

for trial in range(500):
    n = int(rng.integers(1, 16))
    v = series_variants(trial, n)
    as_list = trial % 3 == 0
    for pw in (1, 2):
        for d in (None, 'down', 'up'):
            compare('calc_step_fn_vals_error', lambda: ((v.tolist() if as_list else v.copy()),),
                    ('err', trial, pw, d), pow=pw, dir=d)
    compare('calc_step_fn_steps_vals', lambda: ((v.tolist() if as_list else v.copy()),), ('steps', trial))
    for ind in range(n):
        compare('calc_step_fn_steps_vals', lambda: (v.copy(), ind), ('steps-ind', trial, ind))

# outside the documented domain: empty input
compare('calc_step_fn_vals_error', lambda: ([],), 'err-empty')
compare('calc_step_fn_vals_error', lambda: (np.array([]),), 'err-empty-arr', pow=2)

print('equiv2: %d comparisons identical' % n_checks)

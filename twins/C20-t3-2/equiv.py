"""Equivalence check for twin2 (interp2d bracketing with mask arithmetic, np.maximum/np.minimum, stacked weights).

Run with twin2 applied, cwd = the worktree.  Exit status 0 iff original and edited agree.
"""
import os
import subprocess
import sys
import tempfile
import itertools

import numpy as np

HERE = os.getcwd()


def load_pair():
    """returns (original package, edited package)"""
    sys.path.insert(0, HERE)
    import eqsig as new
    assert new.__file__.startswith(HERE), new.__file__
    saved = {k: v for k, v in sys.modules.items() if k == 'eqsig' or k.startswith('eqsig.')}
    for k in saved:
        del sys.modules[k]
    tmp = tempfile.mkdtemp(prefix='c20_orig_', dir='/tmp')
    subprocess.check_call('git archive HEAD eqsig | tar -x -C %s' % tmp, shell=True, cwd=HERE)
    sys.path.insert(0, tmp)
    import eqsig as old
    assert old.__file__.startswith(tmp), old.__file__
    sys.path.remove(tmp)
    for k in [k for k in sys.modules if k == 'eqsig' or k.startswith('eqsig.')]:
        del sys.modules[k]
    sys.modules.update(saved)
    return old, new


old, new = load_pair()
n_checked = 0


def same(a, b):
    if isinstance(a, tuple):
        return isinstance(b, tuple) and len(a) == len(b) and all(same(p, q) for p, q in zip(a, b))
    if type(a) is not type(b):
        return False
    if isinstance(a, np.ndarray):
        return a.dtype == b.dtype and a.shape == b.shape and np.array_equal(a, b, equal_nan=True) \
            and np.array_equal(np.signbit(a), np.signbit(b))
    if isinstance(a, (float, np.floating)):
        return (a == b or (a != a and b != b))
    return a == b


def call(fn, args, kwargs):
    try:
        return 'ok', fn(*args, **kwargs)
    except Exception as e:  # compare exception classes as well
        return 'exc', type(e)


def check(name, fo, fn_, args, kwargs=None, copier=None):
    """calls both versions on separate copies of the arguments, compares results and argument mutation"""
    global n_checked
    kwargs = kwargs or {}
    import copy
    a_o = copy.deepcopy(args)
    a_n = copy.deepcopy(args)
    ro = call(fo, a_o, kwargs)
    rn = call(fn_, a_n, kwargs)
    assert ro[0] == rn[0], (name, args, kwargs, ro, rn)
    if ro[0] == 'exc':
        assert ro[1] is rn[1], (name, args, kwargs, ro, rn)
    else:
        assert same(ro[1], rn[1]), (name, args, kwargs, ro, rn)
    # arguments must be left in the same state by both (and here: untouched)
    for x, y, z in zip(a_o, a_n, args):
        if isinstance(z, np.ndarray):
            assert same(x, y) and same(x, z), (name, 'argument mutated')
        else:
            assert type(x) is type(y) and x == y and x == z, (name, 'argument mutated')
    n_checked += 1



fo = old.fns.generic.interp2d
fn_ = new.fns.generic.interp2d
assert fo is not fn_ and fo.__module__ == fn_.__module__
assert new.fns.interp2d is fn_ and old.fns.interp2d is fo
pub = lambda m: sorted(k for k in vars(m) if not k.startswith('_'))
assert pub(old.fns) == pub(new.fns), set(pub(old.fns)) ^ set(pub(new.fns))
assert pub(old.fns.generic) == pub(new.fns.generic)
assert fo.__doc__ == fn_.__doc__
import inspect
for name in ['interp_left', 'remove_poly', 'gen_ricker_wavelet_asig']:
    assert inspect.getsource(getattr(old.fns.generic, name)) == inspect.getsource(getattr(new.fns.generic, name))

rng = np.random.default_rng(2020)


def node_sets(m):
    """monotone node sets of length m (increasing, decreasing, integer, tightly spaced, float32, views)"""
    inc = np.sort(rng.normal(size=m) * 10 ** float(rng.integers(-3, 4)))
    yield inc
    yield inc[::-1]                      # decreasing, negative-stride view
    yield np.ascontiguousarray(inc[::-1])
    yield np.arange(m)                   # integer nodes
    yield np.arange(m) * 2 - 3
    yield np.arange(m, dtype=np.int32)
    yield np.arange(m, dtype=float) * 0.1
    yield np.cumsum(rng.random(m) * 1e-11)      # spacing below the 1e-10 guard
    yield 1.0 + np.arange(m) * 1e-10
    yield 1.0 + np.arange(m) * 2.0 ** -40
    yield inc.astype(np.float32)
    yield np.logspace(-2, 1, m)
    yield np.repeat(inc, 2)[:m]          # repeated nodes (weakly monotone)
    yield np.zeros(m)
    yield rng.normal(size=m)             # not monotone (outside the domain, still compared)


def queries(xf, k):
    lo, hi = float(np.min(xf)), float(np.max(xf))
    span = (hi - lo) or 1.0
    xf_f = np.asarray(xf, dtype=float)
    yield rng.uniform(lo, hi, size=k)                               # inside
    yield rng.uniform(lo - span, hi + span, size=k)                  # inside and outside
    yield xf_f.copy()                                                # exactly on nodes
    yield np.array(xf)                                               # on nodes, same dtype as nodes
    yield np.concatenate([xf_f, 0.5 * (xf_f[:-1] + xf_f[1:])])       # nodes and mid points (ties in distance)
    yield np.array([lo, hi, lo - 1.0, hi + 1.0, lo - 1e-12, hi + 1e-12])
    yield np.nextafter(xf_f, np.inf)
    yield np.nextafter(xf_f, -np.inf)
    yield np.array([lo])
    yield np.array([hi + span])
    yield np.array([])                                               # no query points
    yield np.round(rng.uniform(lo - 2, hi + 2, size=k)).astype(int)  # integer queries
    yield rng.uniform(lo, hi, size=k).astype(np.float32)
    yield rng.uniform(lo - span, hi + span, size=2 * k)[::2]         # strided view
    yield np.array([np.nan, lo, np.inf, -np.inf, hi])


def tables(m):
    ncol = int(rng.integers(1, 5))
    yield rng.normal(size=(m, ncol))
    yield rng.integers(-50, 50, size=(m, ncol))          # integer table
    yield rng.normal(size=(m, ncol)).astype(np.float32)
    yield rng.normal(size=m)                             # 1-D table (broadcasts)
    yield np.asfortranarray(rng.normal(size=(m, 3)))
    yield rng.normal(size=(m, 2, 2))                     # 3-D table: same failure or same broadcasting
    yield np.zeros((m, 2))
    yield rng.normal(size=(ncol, m)).T                   # transposed view


with np.errstate(all='ignore'):
    for rep in range(6):
        for m in (1, 2, 3, 4, 7, 12):
            for xf in node_sets(m):
                for x in queries(xf, 9):
                    for f in tables(m):
                        check('interp2d', fo, fn_, (x, xf, f))

    # docstring / test-suite examples
    f = np.array([[0, 0, 0], [0, 1, 4], [2, 6, 2], [10, 10, 10]])
    xf = np.array([0, 1, 2, 3])
    check('doc', fo, fn_, (np.array([0.5, 1, 2.2, 2.5]), xf, f))
    check('doc', fo, fn_, (np.array([0, 3, 4, -1, 1.5]), xf, f))
    check('doc', fo, fn_, (np.array([0, 1, 2, 3]), xf, f))

    # large random cases
    for _ in range(300):
        m = int(rng.integers(2, 60))
        xf = np.sort(rng.normal(size=m)) * 10.0 ** int(rng.integers(-6, 6))
        if rng.random() < 0.3:
            xf = xf[::-1]
        k = int(rng.integers(1, 200))
        x = rng.uniform(xf.min() - 0.2 * np.ptp(xf), xf.max() + 0.2 * np.ptp(xf), size=k)
        x[rng.integers(0, k, size=k // 4)] = xf[rng.integers(0, m, size=k // 4)]
        f = rng.normal(size=(m, int(rng.integers(1, 6)))) * 10.0 ** int(rng.integers(-6, 6))
        check('interp2d-rand', fo, fn_, (x, xf, f))

    # argument kinds the function does not accept: same exception class
    xf = np.array([0., 1., 2.])
    f = np.arange(6.).reshape(3, 2)
    for args in [([0.5, 1.5], xf, f), (np.array([0.5]), [0., 1., 2.], f), (np.array([0.5]), xf, f.tolist()),
                 (0.5, xf, f), (np.array(0.5), xf, f), (np.array([[0.5, 1.5]]), xf, f), (np.array([0.5]), xf, f[:2]),
                 (np.array([0.5]), np.array([]), f), (None, xf, f)]:
        check('interp2d-badargs', fo, fn_, args)

# interp_left is untouched; confirm on a few inputs all the same
for _ in range(300):
    m = int(rng.integers(1, 20))
    x = np.sort(rng.normal(size=m))
    y = rng.normal(size=m)
    x0 = rng.uniform(x[0], x[-1] + 1, size=int(rng.integers(1, 10)))
    check('interp_left', old.fns.interp_left, new.fns.interp_left, (x0, x, y))
    check('interp_left', old.fns.interp_left, new.fns.interp_left, (float(x0[0]), x))
    check('interp_left', old.fns.interp_left, new.fns.interp_left, (list(x0), list(x), list(y)))
    check('interp_left', old.fns.interp_left, new.fns.interp_left, (x[0] - 1.0, x, y))

print('equiv2: %d comparisons identical' % n_checked)
sys.exit(0)

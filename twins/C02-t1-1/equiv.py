"""Equivalence check for twin1 (eqsig/sdof.py: nigam_and_jennings_response restructured).

Run with twin1 applied, cwd = the worktree.  Exit code 0 iff the original (git HEAD) and the
edited module agree bit-for-bit on every probe.
"""
import copy
import os
import subprocess
import sys
import types
import warnings

import numpy as np

ROOT = os.getcwd()
sys.path.insert(0, ROOT)

import eqsig  # noqa: E402
import eqsig.sdof as new  # noqa: E402

assert os.path.abspath(eqsig.__file__).startswith(ROOT), eqsig.__file__
assert os.path.abspath(new.__file__).startswith(ROOT), new.__file__

src = subprocess.check_output(['git', 'show', 'HEAD:eqsig/sdof.py'], cwd=ROOT).decode()
old = types.ModuleType('eqsig_sdof_orig')
old.__file__ = 'HEAD:eqsig/sdof.py'
exec(compile(src, old.__file__, 'exec'), old.__dict__)
assert old.nigam_and_jennings_response is not new.nigam_and_jennings_response

warnings.simplefilter('ignore')
np.seterr(all='ignore')
N_CHECKS = [0]


def same(x, y, where, flags=True):
    """Strict structural + bitwise comparison."""
    assert type(x) is type(y), (where, type(x), type(y))
    if isinstance(x, (tuple, list)):
        assert len(x) == len(y), (where, len(x), len(y))
        for k, (p, q) in enumerate(zip(x, y)):
            same(p, q, '%s[%d]' % (where, k), flags)
    elif isinstance(x, np.ndarray):
        assert x.dtype == y.dtype, (where, x.dtype, y.dtype)
        assert x.shape == y.shape, (where, x.shape, y.shape)
        assert np.array_equal(x, y, equal_nan=True), (where, 'values differ', np.max(np.abs(x - y)))
        # signed zeros too
        assert np.array_equal(np.signbit(x), np.signbit(y)), (where, 'sign bits differ')
        if not flags:
            N_CHECKS[0] += 1
            return
        assert x.flags['C_CONTIGUOUS'] == y.flags['C_CONTIGUOUS'], (where, 'contiguity')
        assert x.flags['WRITEABLE'] == y.flags['WRITEABLE'], (where, 'writeable')
        assert x.flags['OWNDATA'] == y.flags['OWNDATA'], (where, 'owndata')
    else:
        assert x == y or (x != x and y != y), (where, x, y)
    N_CHECKS[0] += 1


def call(fn, args):
    args = copy.deepcopy(args)
    try:
        out = fn(*args)
        err = None
    except Exception as e:  # compare the exception class and text
        out = None
        err = (type(e), str(e))
    return out, err, args


def compare(name, args, where):
    o_out, o_err, o_args = call(getattr(old, name), args)
    n_out, n_err, n_args = call(getattr(new, name), args)
    assert (o_err is None) == (n_err is None), (where, name, o_err, n_err)
    if o_err is not None:
        assert o_err[0] is n_err[0], (where, name, o_err, n_err)
        N_CHECKS[0] += 1
    else:
        same(o_out, n_out, '%s:%s' % (where, name))
    # no (or the same) mutation of the arguments
    for k, (p, q, r) in enumerate(zip(o_args, n_args, args)):
        same(p, q, '%s:%s arg%d old-vs-new' % (where, name, k), flags=False)
        same(p, r, '%s:%s arg%d mutated' % (where, name, k), flags=False)


FUNCS = ['nigam_and_jennings_response', 'response_series', 'pseudo_response_spectra', 'true_response_spectra']

rng = np.random.RandomState(20240902)

period_sets = [
    np.array([0.5]),
    np.array([0.0]),
    np.array([0.0, 0.3]),
    np.array([0.0, 0.04, 0.3, 2.0, 7.5]),
    np.array([0.04, 0.3, 2.0, 7.5]),
    np.array([2.0, 0.3, 7.5, 0.04]),        # unordered
    np.array([0.3, 0.0, 1.0]),              # a zero that is not leading (inf frequency, same in both)
    [0.1, 0.2, 0.4],                        # list
    [0, 1, 2],                              # integer list with leading zero
    np.array([1, 2, 3]),                    # integer dtype
    (0.0, 0.25),                            # tuple
    np.linspace(0.0, 5.0, 41),
    np.logspace(-2, 1, 30),
    np.array([0.2, 0.2, 0.2]),              # duplicates
]

records = [
    np.array([]),
    np.array([0.7]),
    np.array([0.0, 1.0]),
    np.array([0.0, 1.0, -2.0]),
    np.zeros(25),
    np.ones(17),
    np.arange(12),                          # integer dtype
    np.arange(12, dtype=np.int32) - 6,
    [0.0, 0.1, -0.3, 0.2, 0.0],             # list
    [0, 1, -1, 2],                          # integer list
    (0.0, 0.5, -0.5),                       # tuple
    rng.randn(200),
    rng.randn(513).astype(np.float32),
    np.sin(0.1 * np.arange(400)) * 0.01,
    np.concatenate([np.zeros(9), rng.randn(60)]),   # shifted record
    1e6 * rng.randn(50),
    1e-12 * rng.randn(50),
    rng.randn(64)[::2],                     # non contiguous view
]

n = 0
for ia, acc in enumerate(records):
    for ip, periods in enumerate(period_sets):
        for dt in (0.01, 0.005, 0.1, 1, np.float32(0.02)):
            for xi in (0.0, 0.05, 0.3, 0.999, 0):
                # keep the product bounded: thin out the slow combinations deterministically
                n += 1
                if len(acc) > 100 and n % 3:
                    continue
                for name in FUNCS:
                    compare(name, (acc, dt, periods, xi), 'rec%d/per%d/dt%s/xi%s' % (ia, ip, dt, xi))

# random sweep, with the property's constructions: pairs + scalars, truncation, shift, refinement, partitions
for trial in range(150):
    npts = int(rng.randint(2, 120))
    a = rng.randn(npts)
    b = rng.randn(npts)
    alpha, beta = rng.randn(2) * 3
    dt = float(rng.choice([0.002, 0.01, 0.02, 0.05]))
    xi = float(rng.uniform(0, 1)) * 0.999
    npers = int(rng.randint(1, 8))
    periods = np.sort(rng.uniform(0.02, 6.0, npers))
    if rng.rand() < 0.4:
        periods[0] = 0.0
    where = 'trial%d' % trial
    split = int(rng.randint(1, npts))
    k = int(rng.randint(1, 10))
    r = int(rng.randint(2, 9))
    a0 = a.copy()
    a0[0] = 0.0
    t_fine = np.arange((npts - 1) * r + 1) / r
    refined = np.interp(t_fine, np.arange(npts), a)
    for rec, step in ((a, dt), (b, dt), (alpha * a + beta * b, dt), (-a, dt), (a[:split], dt),
                      (np.concatenate([np.zeros(k), a0]), dt), (refined, dt / r)):
        for name in FUNCS:
            compare(name, (rec, step, periods, xi), where)
            perm = rng.permutation(npers)
            compare(name, (rec, step, periods[perm], xi), where + '/perm')
            cut = int(rng.randint(0, npers + 1))
            for part in (periods[:cut], periods[cut:]):
                compare(name, (rec, step, part, xi), where + '/part')   # may be empty -> same exception

# the returned u/v arrays must be independent, writable base arrays in both versions
for periods in (np.array([0.0, 0.5, 1.0]), np.array([0.5, 1.0])):
    acc = rng.randn(30)
    o = old.nigam_and_jennings_response(acc, 0.01, periods, 0.05)
    m = new.nigam_and_jennings_response(acc, 0.01, periods, 0.05)
    for p, q in zip(o, m):
        assert (p.base is None) == (q.base is None)
        assert not np.shares_memory(q, acc)
    assert not np.shares_memory(m[0], m[1]) and not np.shares_memory(m[0], m[2]) and not np.shares_memory(m[1], m[2])
    N_CHECKS[0] += 1

# users of response_series inside the module, driven through a tiny signal stand-in
class _Sig(object):
    def __init__(self, values, dt, response_times):
        self.values = values
        self.dt = dt
        self.response_times = response_times


for trial in range(20):
    sig = _Sig(rng.randn(int(rng.randint(3, 80))), 0.01, np.linspace(0.1, 3, 7))
    for periods in (None, [0.2, 0.9], np.array([0.0, 0.4])):
        for xi in (None, 0.1):
            same(old.calc_resp_uke_spectrum(sig, periods, xi), new.calc_resp_uke_spectrum(sig, periods, xi), 'uke')
            for series in (False, True):
                same(old.calc_input_energy_spectrum(sig, periods, xi, series),
                     new.calc_input_energy_spectrum(sig, periods, xi, series), 'input energy')

print('equiv1: %d comparisons identical' % N_CHECKS[0])
sys.exit(0)

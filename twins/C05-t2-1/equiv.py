#!/usr/bin/env python
"""
Equivalence check for twin TWIN (see noteTWIN.json).

Run with the twin applied and cwd = the worktree:
    cd /tmp/twin2/C05 && /venv/bin/python out/equivTWIN.py

The ORIGINAL package is extracted from git (git archive HEAD eqsig) into a
temporary directory under /tmp.  The same battery of calls is executed in two
sub-processes (one importing the original, one importing the edited package)
and the encoded results (dtype, shape and raw bytes of every array, scalars,
exception types/messages, full object state after every step of a history,
raw bytes of every argument after every call) are compared for equality.
Exit code 0 iff everything matches.
"""
import os
import pickle
import shutil
import struct
import subprocess
import sys
import tempfile
import warnings

TWIN = 1
WORKTREE = os.getcwd()

# text that must be present in the edited tree (guards against running without the twin applied)
MARKERS = {
    1: [("eqsig/fns/_array_utils.py", "def rebased_copy"), ("eqsig/single.py", "owned_array(new_values)")],
    2: [("eqsig/single.py", "starts = np.clip(")],
    3: [("eqsig/multiple.py", "mode='edge'")],
}


# ----------------------------------------------------------------------------------------------
# encoding of results
# ----------------------------------------------------------------------------------------------
def enc(x, depth=0):
    import numpy as np
    if depth > 8:
        return ('deep', repr(type(x)))
    if isinstance(x, np.ndarray):
        if x.dtype == object:
            return ('ndo', x.shape, [enc(v, depth + 1) for v in x.ravel().tolist()])
        return ('nd', x.dtype.str, x.shape, np.ascontiguousarray(x).tobytes())
    if isinstance(x, np.generic):
        return ('ns', x.dtype.str, x.tobytes())
    if isinstance(x, bool) or x is None or isinstance(x, (int, str, bytes)):
        return (type(x).__name__, x)
    if isinstance(x, float):
        return ('float', struct.pack('<d', x))
    if isinstance(x, complex):
        return ('complex', struct.pack('<dd', x.real, x.imag))
    if isinstance(x, (list, tuple)):
        return (type(x).__name__, [enc(v, depth + 1) for v in x])
    if isinstance(x, dict):
        return ('dict', type(x).__name__, [(repr(k), enc(x[k], depth + 1)) for k in sorted(x, key=repr)])
    if isinstance(x, BaseException):
        return ('exc', type(x).__name__, str(x))
    if hasattr(x, '__dict__') and type(x).__module__.startswith('eqsig'):
        return ('obj', type(x).__name__, enc(dict(vars(x)), depth + 1))
    return ('other', type(x).__name__, repr(x))


def sig_state(sig):
    """Full observable state of a Signal: instance dict + values / npts / time"""
    import numpy as np
    return ['state', type(sig).__name__, dict(vars(sig)), sig.values, sig.npts, sig.time,
            len(sig.values) == sig.npts, isinstance(sig.values, np.ndarray), sig.values.dtype.kind in 'iuf']


def call(fn, *args, **kwargs):
    try:
        return fn(*args, **kwargs)
    except Exception as e:  # noqa
        return e


# ----------------------------------------------------------------------------------------------
# inputs
# ----------------------------------------------------------------------------------------------
def make_records():
    import numpy as np
    rng = np.random.default_rng(20240905)
    t = np.arange(400) * 0.01
    recs = []
    recs.append(('rand200', rng.normal(size=200)))
    recs.append(('rand57', rng.normal(size=57) * 3.0))
    recs.append(('rand1024', rng.normal(size=1024) * np.exp(-((np.arange(1024) - 300) / 200.) ** 2)))
    recs.append(('sine', np.sin(2 * np.pi * 1.3 * t) * np.exp(-t) + 0.1 * np.sin(2 * np.pi * 7 * t)))
    recs.append(('int100', rng.integers(-50, 50, size=100)))
    recs.append(('int32', rng.integers(-5, 5, size=64).astype(np.int32)))
    recs.append(('f32', rng.normal(size=80).astype(np.float32)))
    recs.append(('list_f', list(rng.normal(size=60))))
    recs.append(('list_pyf', [float(v) for v in rng.normal(size=40)]))
    recs.append(('list_i', [int(v) for v in rng.integers(-9, 9, size=50)]))
    recs.append(('tuple_f', tuple(float(v) for v in rng.normal(size=30))))
    plate = np.repeat(rng.integers(-4, 4, size=40), rng.integers(1, 4, size=40)).astype(float)
    recs.append(('plateaus', plate))
    recs.append(('plateaus_int', plate.astype(int)))
    recs.append(('lead_trail_zeros', np.concatenate((np.zeros(7), rng.normal(size=40), np.zeros(9)))))
    recs.append(('doc1', np.array([0, 2, 1, 2, 0, 1, 0, -1, 0, 1, 0])))
    recs.append(('doc2', np.array([0, 2, 1, 2, -1, 1, 1, 0.3, -1, 0.2, 1, 0.2])))
    recs.append(('doc3', [0, 2, 1, 2, -1, 1, 0, 0, 1, 0.3, 0, -1, 0.2, 1, 0.2]))
    recs.append(('neg_first', np.array([1.5, -2, -1, -3, 0.5, 2, 2, 1, -1.])))
    recs.append(('zeros20', np.zeros(20)))
    recs.append(('ones10', np.ones(10)))
    recs.append(('izeros', np.zeros(12, dtype=int)))
    for n in (1, 2, 3, 4, 5):
        recs.append(('short%i' % n, rng.normal(size=n)))
        recs.append(('shorti%i' % n, rng.integers(-3, 3, size=n)))
        recs.append(('shortl%i' % n, [float(v) for v in rng.normal(size=n)]))
    base = rng.normal(size=120)
    recs.append(('strided_view', base[::2]))
    ro = rng.normal(size=33)
    ro.setflags(write=False)
    recs.append(('readonly', ro))
    return recs


def raw(x):
    """Snapshot of an argument (to detect mutation)"""
    return enc(x)


# ----------------------------------------------------------------------------------------------
# the battery
# ----------------------------------------------------------------------------------------------
def battery():
    import copy
    import numpy as np
    import eqsig
    from eqsig import Signal, AccSignal
    from eqsig.fns import peaks_and_crossings as pc
    from eqsig.multiple import Cluster

    out = []

    def rec(label, value):
        out.append((label, enc(value)))

    records = make_records()

    # ---------------- A: construction, ownership, reset_values --------------------------------
    for name, data in records:
        for cls in (Signal, AccSignal):
            tag = 'A/%s/%s' % (cls.__name__, name)
            before = raw(data)
            sig = call(cls, data, 0.01)
            if isinstance(sig, Exception):
                rec(tag + '/ctor_exc', sig)
                continue
            rec(tag + '/ctor', sig_state(sig))
            rec(tag + '/arg_unchanged', raw(data) == before)
            if isinstance(data, np.ndarray):
                rec(tag + '/shares', bool(np.shares_memory(sig.values, data)))
            # edit through the object -> caller's data must not change
            r = call(sig.values.__setitem__, 0, sig.values[0] + 1)
            rec(tag + '/obj_edit', r)
            rec(tag + '/arg_after_obj_edit', raw(data))
            # edit the caller's data -> object must not change
            if isinstance(data, np.ndarray) and data.flags.writeable:
                keep = data[-1]
                data[-1] = data[-1] + 2
                rec(tag + '/vals_after_arg_edit', sig.values)
                data[-1] = keep
            elif isinstance(data, list):
                keep = data[-1]
                data[-1] = data[-1] + 2
                rec(tag + '/vals_after_arg_edit', sig.values)
                data[-1] = keep
            # reset with the same data, with a list, with a shorter array, with int data
            for rname, new in (('same', data), ('aslist', list(np.asarray(data))),
                               ('shorter', np.asarray(data)[:max(1, len(data) // 2)]),
                               ('ints', [1, 2, 3, 4]), ('tuple', (0.5, 1.5, -2.5)),
                               ('int_arr', np.arange(6)), ('f32', np.arange(5, dtype=np.float32))):
                b2 = raw(new)
                held = sig.values
                held_before = raw(held)
                r = call(sig.reset_values, new)
                rec(tag + '/reset_' + rname + '/ret', r)
                rec(tag + '/reset_' + rname, sig_state(sig))
                rec(tag + '/reset_' + rname + '/arg_unchanged', raw(new) == b2)
                rec(tag + '/reset_' + rname + '/old_unchanged', raw(held) == held_before)
                if isinstance(new, np.ndarray):
                    rec(tag + '/reset_' + rname + '/shares', bool(np.shares_memory(sig.values, new)))
                    rec(tag + '/reset_' + rname + '/is', sig.values is new)
                r = call(sig.values.__setitem__, 0, 7)
                rec(tag + '/reset_' + rname + '/arg_after_obj_edit', raw(new))
            out.append((tag + '/final_arg', raw(data)))

    # ---------------- B: mutator histories -----------------------------------------------------
    rng = np.random.default_rng(77)
    add_ser = {}

    def pool_for(sig, n):
        ser = add_ser.setdefault(n, np.linspace(-1, 1, n))
        other = Signal(np.cos(np.arange(n) * 0.1), sig.dt)
        common = [
            ('remove_average', lambda s: s.remove_average()),
            ('remove_average_sec', lambda s: s.remove_average(section=10)),
            ('remove_poly0', lambda s: s.remove_poly()),
            ('remove_poly1', lambda s: s.remove_poly(1)),
            ('remove_poly2', lambda s: s.remove_poly(poly_fit=2)),
            ('butter_band', lambda s: s.butter_pass((0.5, 10))),
            ('butter_low', lambda s: s.butter_pass((None, 8))),
            ('butter_high', lambda s: s.butter_pass([0.3, None], filter_order=2)),
            ('butter_gibbs_start', lambda s: s.butter_pass((0.1, 15), remove_gibbs='start')),
            ('butter_gibbs_end', lambda s: s.butter_pass((0.1, 15), remove_gibbs='end', gibbs_range=5)),
            ('butter_gibbs_mid', lambda s: s.butter_pass((0.1, 15), remove_gibbs='mid')),
            ('add_constant', lambda s: s.add_constant(0.3)),
            ('add_constant_int', lambda s: s.add_constant(2)),
            ('add_series', lambda s: s.add_series(ser)),
            ('add_series_list', lambda s: s.add_series(list(ser))),
            ('add_series_bad', lambda s: s.add_series(ser[:-1])),
            ('add_signal', lambda s: s.add_signal(other)),
            ('running_average1', lambda s: s.running_average()),
            ('running_average2', lambda s: s.running_average(2)),
            ('running_average3', lambda s: s.running_average(3)),
            ('running_average4', lambda s: s.running_average(width=4)),
            ('running_average7', lambda s: s.running_average(7)),
            ('running_average50', lambda s: s.running_average(50)),
            ('running_average_big', lambda s: s.running_average(2 * n + 3)),
            ('running_average0', lambda s: s.running_average(0)),
            ('running_average2.5', lambda s: s.running_average(2.5)),
            ('reset_list', lambda s: s.reset_values([float(v) for v in np.sin(np.arange(n) * 0.3)])),
            ('reset_int', lambda s: s.reset_values(np.arange(n) % 7 - 3)),
            ('reset_self', lambda s: s.reset_values(s.values)),
            ('get_fa', lambda s: (s.fa_spectrum, s.fa_freqs, s.fa_spectrum_abs)),
            ('get_smooth_fa', lambda s: s.smooth_fa_spectrum),
            ('get_section_average', lambda s: s.get_section_average(0, 5)),
            ('get_time', lambda s: s.time),
            ('edit_held_values', lambda s: s.values.__setitem__(slice(1, 3), 0)),
        ]
        acc = [
            ('roll_vel', lambda s: s.remove_rolling_average()),
            ('roll_vel20', lambda s: s.remove_rolling_average("velocity", 20)),
            ('roll_vel50', lambda s: s.remove_rolling_average(mtype="velocity", freq_window=50)),
            ('roll_vel1', lambda s: s.remove_rolling_average(mtype="velocity", freq_window=1)),
            ('roll_acc', lambda s: s.remove_rolling_average("acc")),
            ('roll_acc33', lambda s: s.remove_rolling_average("acc", 33)),
            ('roll_acc100', lambda s: s.remove_rolling_average(mtype="acc", freq_window=100)),
            ('roll_acc2', lambda s: s.remove_rolling_average(mtype="acc", freq_window=2)),
            ('roll_acc0.5', lambda s: s.remove_rolling_average(mtype="acc", freq_window=0.5)),
            ('roll_toohigh', lambda s: s.remove_rolling_average(mtype="acc", freq_window=1000)),
            ('rebase_disp', lambda s: s.rebase_displacement()),
            ('zero_res_vel', lambda s: s.set_zero_residual_velocity()),
            ('zero_res_vel_tz', lambda s: s.set_zero_residual_velocity((0.1, 0.3))),
            ('zero_res_vel_tz_open', lambda s: s.set_zero_residual_velocity(timezone=(0.2, None))),
            ('zero_res_disp', lambda s: s.set_zero_residual_displacement()),
            ('zero_res_disp_tz', lambda s: s.set_zero_residual_displacement((0.1, 0.3))),
            ('zero_res_dv', lambda s: s.set_zero_residual_displacement_and_velocity()),
            ('zero_res_dv_tz', lambda s: s.set_zero_residual_displacement_and_velocity((0.1, 0.3))),
            ('zero_res_dv_tz_open', lambda s: s.set_zero_residual_displacement_and_velocity((0.1, None))),
            ('correct_me', lambda s: s.correct_me()),
            ('get_peaks', lambda s: (s.pga, s.pgv, s.pgd)),
            ('get_vel_disp', lambda s: (s.velocity, s.displacement)),
            ('gen_vd_notrap', lambda s: s.generate_displacement_and_velocity_series(trap=False)),
            ('get_sa', lambda s: (s.s_a, s.s_v, s.s_d)),
            ('dur_stats', lambda s: s.generate_duration_stats()),
            ('cum_stats', lambda s: s.generate_cumulative_stats()),
            ('all_stats', lambda s: s.generate_all_motion_stats()),
            ('response_series', lambda s: s.response_series(response_times=np.array([0.2, 1.0]))),
        ]
        if isinstance(sig, AccSignal):
            return common + acc
        return common

    hist_inputs = ['rand200', 'rand57', 'sine', 'int100', 'list_f', 'list_i', 'plateaus', 'lead_trail_zeros',
                   'zeros20', 'short5', 'shorti5', 'f32', 'strided_view', 'readonly', 'rand1024']
    recd = dict(records)
    for name in hist_inputs:
        data = recd[name]
        for cls in (AccSignal, Signal):
            for rep in range(3 if cls is AccSignal else 2):
                tag = 'B/%s/%s/%i' % (cls.__name__, name, rep)
                before = raw(data)
                sig = cls(data, 0.01)
                n = sig.npts
                pool = pool_for(sig, n)
                helds = [sig.values]
                nsteps = 10 if n < 500 else 6
                for step in range(nsteps):
                    k = int(rng.integers(len(pool)))
                    mname, m = pool[k]
                    if n > 500 and mname in ('get_sa', 'response_series', 'get_smooth_fa'):
                        mname, m = pool[0]
                    r = call(m, sig)
                    rec('%s/%02i_%s/ret' % (tag, step, mname), r)
                    rec('%s/%02i_%s/state' % (tag, step, mname), sig_state(sig))
                    rec('%s/%02i_%s/helds' % (tag, step, mname), [raw(h) for h in helds])
                    rec('%s/%02i_%s/same_obj' % (tag, step, mname), [h is sig.values for h in helds])
                    helds.append(sig.values)
                    if isinstance(sig.values, np.ndarray) and isinstance(data, np.ndarray):
                        rec('%s/%02i_%s/shares' % (tag, step, mname), bool(np.shares_memory(sig.values, data)))
                rec(tag + '/arg_unchanged', raw(data) == before)

    # every mutator once, in a fixed order, on a float and on an int record (guaranteed coverage)
    for name in ('sine', 'int100', 'rand57', 'list_i', 'short3'):
        data = recd[name]
        for cls in (AccSignal, Signal):
            probe = cls(data, 0.01)
            for mname, m in pool_for(probe, probe.npts):
                tag = 'B1/%s/%s/%s' % (cls.__name__, name, mname)
                before = raw(data)
                sig = cls(data, 0.01)
                held = sig.values
                _ = call(lambda s: (s.velocity, s.pga) if isinstance(s, AccSignal) else s.fa_spectrum, sig)  # warm caches
                r = call(m, sig)
                rec(tag + '/ret', r)
                rec(tag + '/state', sig_state(sig))
                rec(tag + '/held', raw(held))
                rec(tag + '/held_is', held is sig.values)
                r2 = call(m, sig)  # a second time
                rec(tag + '/ret2', r2)
                rec(tag + '/state2', sig_state(sig))
                rec(tag + '/arg_unchanged', raw(data) == before)

    # ---------------- C: array level peak / crossing functions --------------------------------
    fns = [
        ('determine_peaks_only_delta_series', lambda v: pc.determine_peaks_only_delta_series(v)),
        ('determine_pseudo_cyclic_peak_only_series', lambda v: pc.determine_pseudo_cyclic_peak_only_series(v)),
        ('get_peak_array_indices', lambda v: pc.get_peak_array_indices(v)),
        ('get_peak_array_indices_min', lambda v: pc.get_peak_array_indices(v, ptype='min')),
        ('get_peak_array_indices_max', lambda v: pc.get_peak_array_indices(v, 'max')),
        ('get_zero_crossings_array_indices', lambda v: pc.get_zero_crossings_array_indices(v)),
        ('get_zero_crossings_array_indices_adj', lambda v: pc.get_zero_crossings_array_indices(v, keep_adj_zeros=True)),
        ('get_zero_crossings_array_indices_tol', lambda v: pc.get_zero_crossings_array_indices(v, tol=0.5)),
        ('get_zero_crossings_array_indices_negtol', lambda v: pc.get_zero_crossings_array_indices(v, tol=-0.5)),
        ('get_switched_peak_array_indices', lambda v: pc.get_switched_peak_array_indices(v)),
        ('get_switched_peak_array_indices_tol', lambda v: pc.get_switched_peak_array_indices(v, tol=0.4)),
        ('get_switched_peak_array_indices_ntol', lambda v: pc.get_switched_peak_array_indices(v, tol=-0.4)),
        ('get_zero_and_peak_array_indices', lambda v: pc.get_zero_and_peak_array_indices(v)),
        ('get_zero_and_peak_array_indices_ms', lambda v: pc.get_zero_and_peak_array_indices(v, min_step=1)),
        ('get_n_cyc_array', lambda v: pc.get_n_cyc_array(v)),
        ('get_n_cyc_array_sw_peak', lambda v: pc.get_n_cyc_array(v, opt='switched', start='peak')),
        ('get_major_change_indices', lambda v: pc.get_major_change_indices(v)),
        ('clean_out_non_changing', lambda v: pc.clean_out_non_changing(v)),
        ('eqsig.determine_peaks_only_delta_series', lambda v: eqsig.determine_peaks_only_delta_series(v)),
        ('eqsig.fns.get_peak_array_indices', lambda v: eqsig.fns.get_peak_array_indices(v)),
    ]
    for name, data in records:
        for fname, fn in fns:
            tag = 'C/%s/%s' % (fname, name)
            before = raw(data)
            r1 = call(fn, data)
            rec(tag + '/r1', r1)
            rec(tag + '/arg_unchanged1', raw(data) == before)
            r2 = call(fn, data)
            rec(tag + '/r2_same', enc(r1) == enc(r2))
            rec(tag + '/arg_unchanged2', raw(data) == before)
        for cls in (Signal, AccSignal):
            sig = cls(data, 0.02)
            s0 = enc(sig_state(sig))
            for fname, fn in (('get_peak_indices', pc.get_peak_indices),
                              ('get_zero_crossings_indices', pc.get_zero_crossings_indices),
                              ('get_switched_peak_indices', pc.get_switched_peak_indices)):
                tag = 'C/%s/%s/%s' % (fname, cls.__name__, name)
                rec(tag, call(fn, sig))
                rec(tag + '/state_unchanged', enc(sig_state(sig)) == s0)
        rec('C/get_switched_peak_indices/raw/' + name, call(pc.get_switched_peak_indices, data))

    # ---------------- D: Cluster (time_match, same_start) -------------------------------------
    tt = np.linspace(0, 102, 1020)
    acc = np.sin(tt)
    noise = np.random.default_rng(5).normal(size=1020) * 0.01
    iacc = (100 * np.sin(tt)).astype(int)
    cases = []
    for lag in (0, 1, 3, 6, 9):
        for steps in (10, 4, 15):
            cases.append(('f_lag%i_steps%i' % (lag, steps), [acc[:1020 - lag or None][:1000], acc[lag:][:1000]], steps, {}))
            cases.append(('f_rev_lag%i_steps%i' % (lag, steps), [acc[lag:][:1000], acc[:1000]], steps, {}))
    cases.append(('noisy', [acc[:-6], acc[6:] + noise[6:]], 10, {}))
    cases.append(('int', [iacc[:-4], iacc[4:]], 10, {}))
    cases.append(('int_rev', [iacc[5:], iacc[:-5]], 10, {}))
    cases.append(('f32', [acc[:-3].astype(np.float32), acc[3:].astype(np.float32)], 10, {}))
    cases.append(('lists', [list(acc[:-6]), list(acc[6:])], 10, {}))
    cases.append(('three', [acc[:-8], acc[8:], acc[4:-4]], 10, {}))
    cases.append(('three_master1', [acc[:-8], acc[8:], acc[4:-4]], 10, {'master_index': 1}))
    cases.append(('acc_type', [acc[:-6], acc[6:]], 10, {'stypes': 'acc'}))
    cases.append(('diff_len', [acc[:-6], acc[6:-20]], 10, {}))
    cases.append(('diff_len2', [acc[:-60], acc[6:]], 10, {}))
    cases.append(('short', [acc[:8], acc[2:10]], 10, {}))
    cases.append(('short12', [acc[:12] * 5, acc[2:14] * 5], 10, {}))
    cases.append(('const', [np.ones(50), np.ones(50)], 10, {}))
    cases.append(('zeros', [np.zeros(50), np.zeros(50)], 10, {}))
    cases.append(('steps1', [acc[:-6], acc[6:]], 1, {}))
    cases.append(('steps2', [acc[:-1], acc[1:]], 2, {}))
    for cname, vals, steps, kw in cases:
        tag = 'D/' + cname
        before = [raw(v) for v in vals]
        cl = call(Cluster, vals, 0.01, **kw)
        if isinstance(cl, Exception):
            rec(tag + '/ctor_exc', cl)
            continue
        helds = [cl.values_by_index(i) for i in range(cl.n_signals)]
        for rep in range(2):
            r = call(cl.time_match, steps=steps)
            rec('%s/time_match%i/ret' % (tag, rep), r)
            for i in range(cl.n_signals):
                rec('%s/time_match%i/sig%i' % (tag, rep, i), sig_state(cl.signal_by_index(i)))
                rec('%s/time_match%i/held%i' % (tag, rep, i), raw(helds[i]))
                rec('%s/time_match%i/held_is%i' % (tag, rep, i), helds[i] is cl.values_by_index(i))
                for v in vals:
                    if isinstance(v, np.ndarray):
                        rec('%s/time_match%i/shares%i' % (tag, rep, i),
                            bool(np.shares_memory(cl.values_by_index(i), v)))
        r = call(cl.time_match)
        rec(tag + '/time_match_default/ret', r)
        r = call(cl.same_start)
        rec(tag + '/same_start/ret', r)
        for i in range(cl.n_signals):
            rec('%s/after_same_start/sig%i' % (tag, i), sig_state(cl.signal_by_index(i)))
        # later operation on the object does not touch caller's arrays
        for i in range(cl.n_signals):
            call(cl.signal_by_index(i).add_constant, 1.0)
            call(cl.values_by_index(i).__setitem__, 0, 3)
        rec(tag + '/args_unchanged', [raw(v) for v in vals] == before)

    return out


# ----------------------------------------------------------------------------------------------
# driver
# ----------------------------------------------------------------------------------------------
def run_child(root, outfile):
    sys.path.insert(0, root)
    os.chdir(root)
    warnings.simplefilter('ignore')
    import numpy as np
    np.seterr(all='ignore')
    import eqsig
    assert os.path.realpath(eqsig.__file__).startswith(os.path.realpath(root) + os.sep), (eqsig.__file__, root)
    res = battery()
    with open(outfile, 'wb') as f:
        pickle.dump(res, f)


def main():
    for rel, text in MARKERS[TWIN]:
        p = os.path.join(WORKTREE, rel)
        assert os.path.exists(p) and text in open(p).read(), \
            "twin %i does not seem to be applied (missing %r in %s)" % (TWIN, text, rel)
    tmp = tempfile.mkdtemp(prefix='c05_twin%i_orig_' % TWIN, dir='/tmp')
    try:
        orig_root = os.path.join(tmp, 'orig')
        os.mkdir(orig_root)
        subprocess.check_call('git archive HEAD eqsig | tar -x -C "%s"' % orig_root, shell=True, cwd=WORKTREE)
        for rel, text in MARKERS[TWIN]:
            p = os.path.join(orig_root, rel)
            assert not (os.path.exists(p) and text in open(p).read()), "HEAD already contains the twin?"
        files = {}
        for name, root in (('orig', orig_root), ('edit', WORKTREE)):
            files[name] = os.path.join(tmp, name + '.pkl')
            env = dict(os.environ)
            env.pop('PYTHONPATH', None)
            env['PYTHONDONTWRITEBYTECODE'] = '1'
            subprocess.check_call([sys.executable, os.path.abspath(__file__), '--run', root, files[name]],
                                  cwd=root, env=env)
        with open(files['orig'], 'rb') as f:
            a = pickle.load(f)
        with open(files['edit'], 'rb') as f:
            b = pickle.load(f)
    finally:
        shutil.rmtree(tmp, ignore_errors=True)
    bad = 0
    if len(a) != len(b):
        print('different number of results: %i vs %i' % (len(a), len(b)))
        bad += 1
    n_exc = 0
    for (la, ra), (lb, rb) in zip(a, b):
        if la != lb:
            print('label mismatch: %s vs %s' % (la, lb))
            bad += 1
            break
        if isinstance(ra, tuple) and ra and ra[0] == 'exc':
            n_exc += 1
        if ra != rb:
            bad += 1
            if bad < 25:
                print('MISMATCH at %s:\n   orig=%s\n   edit=%s' % (la, repr(ra)[:300], repr(rb)[:300]))
    print('twin %i: compared %i results (%i of them exceptions), %i mismatches' % (TWIN, len(a), n_exc, bad))
    return 1 if bad else 0


if __name__ == '__main__':
    if len(sys.argv) > 1 and sys.argv[1] == '--run':
        run_child(sys.argv[2], sys.argv[3])
        sys.exit(0)
    sys.exit(main())

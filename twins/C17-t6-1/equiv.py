"""
Equivalence program for twin 1 (C17: Butterworth filtering / detrending / add_* / running average).

Run with the edit applied and cwd = the worktree:

    cd <worktree> && PYTHONPATH=<worktree> <python> out/equiv1.py

The ORIGINAL package is taken from git (`git archive HEAD eqsig`) into a temporary directory.
The same deterministic battery of cases is then executed twice, in two separate subprocesses, once with
the original package on sys.path and once with the edited package (os.getcwd()) on sys.path.  Each
subprocess pickles a list of outcome records (returned values as raw bytes + dtype + shape, exception
type and text, emitted warnings, object state seen through the public API, aliasing/in-place effects,
state of the arguments after the call).  The parent compares the two lists record by record, EXACTLY
(bit-for-bit, NaN == NaN).  Exit status 0 iff every record matches.
"""
import io
import os
import pickle
import subprocess
import sys
import tarfile
import tempfile

FOCUS = 'twin1'
SEED = 1701
# relative number of cases in each family (all families are always present)
SCALE = {'butter': 1.0, 'poly': 1.0, 'add': 1.5, 'run': 0.6, 'hist': 1.0}


# --------------------------------------------------------------------------------------------------
# worker: runs the battery against whichever eqsig is first on sys.path
# --------------------------------------------------------------------------------------------------

def _enc(obj, depth=0):
    """Encode a value into something that compares exactly with == (NaN-safe)."""
    import numpy as np
    if obj is None or isinstance(obj, (bool, str, bytes)):
        return ('py', repr(obj))
    if isinstance(obj, np.ndarray):
        if obj.dtype == object:
            return ('objarr', obj.shape, tuple(_enc(o, depth + 1) for o in obj.ravel().tolist()))
        return ('arr', str(obj.dtype), obj.shape, np.ascontiguousarray(obj).tobytes())
    if isinstance(obj, np.generic):
        return ('npscalar', str(obj.dtype), np.asarray(obj).tobytes())
    if isinstance(obj, float):
        import struct
        return ('float', struct.pack('<d', obj))
    if isinstance(obj, (int, complex)):
        return ('num', type(obj).__name__, repr(obj))
    if isinstance(obj, (list, tuple)):
        return (type(obj).__name__, tuple(_enc(o, depth + 1) for o in obj))
    if isinstance(obj, dict):
        return ('dict', tuple((repr(k), _enc(v, depth + 1)) for k, v in sorted(obj.items(), key=lambda kv: repr(kv[0]))))
    return ('repr', type(obj).__name__)


def _state(sig, deep=True):
    """State of a Signal/AccSignal as seen through its public API."""
    import numpy as np
    import warnings
    out = [('cls', type(sig).__name__)]
    for name in ('values', 'npts', 'dt', 'label', 'time', 'smooth_fa_freqs'):
        try:
            out.append((name, _enc(getattr(sig, name))))
        except Exception as e:  # noqa
            out.append((name, ('exc', type(e).__name__, str(e))))
    if deep:
        with warnings.catch_warnings():
            warnings.simplefilter('ignore')
            for name in ('fa_spectrum', 'fa_frequencies', 'smooth_fa_spectrum'):
                try:
                    out.append((name, _enc(getattr(sig, name))))
                except Exception as e:  # noqa
                    out.append((name, ('exc', type(e).__name__, str(e))))
            if hasattr(type(sig), 'velocity'):
                for name in ('velocity', 'displacement', 'pga', 'pgv', 'pgd'):
                    try:
                        out.append((name, _enc(getattr(sig, name))))
                    except Exception as e:  # noqa
                        out.append((name, ('exc', type(e).__name__, str(e))))
    return tuple(out)


def _call(fn, *args, **kwargs):
    """Call and record result / exception / warnings."""
    import warnings
    with warnings.catch_warnings(record=True) as wlist:
        warnings.simplefilter('always')
        try:
            res = ('ok', _enc(fn(*args, **kwargs)))
        except Exception as e:  # noqa
            res = ('exc', type(e).__name__, str(e))
    warns = tuple((w.category.__name__, str(w.message)) for w in wlist)
    return res, warns


def worker(out_path):
    import numpy as np
    import eqsig
    from eqsig import exceptions as eq_exc
    import eqsig.fns.generic as generic
    import eqsig.single as single

    import warnings
    warnings.simplefilter('ignore')  # (inside _call every warning is recorded and compared)
    rs = np.random.RandomState(SEED)
    records = []

    def rec(tag, *items):
        records.append((tag,) + tuple(items))

    # ---------------------------------------------------------------- record makers
    lengths_small = [1, 2, 3, 4, 5, 7, 8, 9, 13, 16, 17, 27, 28, 31, 32, 33]
    lengths_mid = [50, 64, 65, 100, 127, 128, 129, 200, 255, 256, 257, 400, 500, 512, 777, 1000, 1024, 1025]
    lengths_big = [2000, 2048, 3001, 4096, 5000]
    dts = [0.01, 0.005, 0.02, 0.1, 0.0078125, 0.004, 1, 0.5, 0.025, np.float64(0.01), np.float32(0.01)]

    def make_values(n, kind):
        t = np.arange(n)
        if kind == 'normal':
            v = rs.normal(size=n)
        elif kind == 'sine':
            v = np.sin(2 * np.pi * t * rs.uniform(0.001, 0.45) + rs.uniform(0, 6)) * rs.uniform(0.1, 10)
        elif kind == 'sines+trend':
            v = np.sin(t * rs.uniform(0.01, 1.0)) + 0.3 * np.cos(t * rs.uniform(0.01, 2.5)) + rs.uniform(-1, 1) * t / max(n, 1) \
                + rs.uniform(-3, 3)
        elif kind == 'const':
            v = np.full(n, rs.uniform(-5, 5))
        elif kind == 'zeros':
            v = np.zeros(n)
        elif kind == 'int':
            v = rs.randint(-1000, 1000, size=n)
        elif kind == 'int32':
            v = rs.randint(-50, 50, size=n).astype(np.int32)
        elif kind == 'float32':
            v = rs.normal(size=n).astype(np.float32)
        elif kind == 'list':
            v = rs.normal(size=n).tolist()
        elif kind == 'intlist':
            v = [int(x) for x in rs.randint(-9, 9, size=n)]
        elif kind == 'tuple':
            v = tuple(rs.normal(size=n).tolist())
        elif kind == 'nan':
            v = rs.normal(size=n)
            if n:
                v[rs.randint(0, n)] = np.nan
        elif kind == 'big':
            v = rs.normal(size=n) * 1e12 + 1e15
        elif kind == 'tiny':
            v = rs.normal(size=n) * 1e-300
        elif kind == 'bool':
            v = rs.randint(0, 2, size=n).astype(bool)
        else:
            raise KeyError(kind)
        return v

    kinds_main = ['normal', 'sine', 'sines+trend', 'const', 'zeros', 'int', 'int32', 'float32', 'list', 'intlist',
                  'tuple', 'big', 'tiny']
    kinds_all = kinds_main + ['nan', 'bool']

    def pick(seq):
        return seq[rs.randint(0, len(seq))]

    def make_sig(n=None, kind=None, dt=None, acc=None):
        if n is None:
            n = pick(lengths_small + lengths_mid + lengths_mid)
        if kind is None:
            kind = pick(kinds_main)
        if dt is None:
            dt = pick(dts)
        if acc is None:
            acc = rs.rand() < 0.4
        v = make_values(n, kind)
        cls = eqsig.AccSignal if acc else eqsig.Signal
        return cls(v, dt, label='s%i' % n), (n, kind, repr(dt), acc)

    def touch(sig):
        """Read the lazily cached spectra (so that a later operation has a cache to invalidate)."""
        out = []
        for name in ('fa_spectrum', 'smooth_fa_spectrum'):
            res, warns = _call(getattr, sig, name)
            out.append(res)
        return tuple(out)

    def run_op(tag, sig, name, args, kwargs, deep=True, watch=()):
        """Invoke a method, recording result, warnings, the state afterwards, aliasing of the values array,
        contents of the array that was the values array before the call, and the arguments afterwards."""
        before = sig.values
        before_copy_enc = _enc(before.copy())
        res, warns = _call(getattr(sig, name), *args, **kwargs)
        rec(tag, name, res, warns, _state(sig, deep=deep), ('same_obj', sig.values is before),
            ('old_array_now', _enc(before)), ('old_array_was', before_copy_enc),
            tuple(_enc(w) for w in watch))

    # ================================================================ 1. butter_pass
    cut_makers = []

    def add_cut(fn):
        cut_makers.append(fn)

    def band(nyq):
        lo = rs.uniform(0.002, 0.6) * nyq
        hi = lo + rs.uniform(0.01, 0.39) * nyq
        return lo, hi

    add_cut(lambda nyq: tuple(band(nyq)))
    add_cut(lambda nyq: list(band(nyq)))
    add_cut(lambda nyq: np.array(band(nyq)))
    add_cut(lambda nyq: np.array(band(nyq), dtype=np.float32))
    add_cut(lambda nyq: (None, rs.uniform(0.01, 0.98) * nyq))
    add_cut(lambda nyq: [None, rs.uniform(0.01, 0.98) * nyq])
    add_cut(lambda nyq: np.array([None, rs.uniform(0.01, 0.98) * nyq], dtype=object))
    add_cut(lambda nyq: (rs.uniform(0.01, 0.98) * nyq, None))
    add_cut(lambda nyq: [rs.uniform(0.01, 0.98) * nyq, None])
    add_cut(lambda nyq: np.array([rs.uniform(0.01, 0.98) * nyq, None], dtype=object))
    add_cut(lambda nyq: (np.float64(0.05 * nyq), np.float32(0.5 * nyq)))
    n_regular_cut = len(cut_makers)
    # odd ones
    add_cut(lambda nyq: (None, None))
    add_cut(lambda nyq: [None, None])
    add_cut(lambda nyq: (0.1 * nyq,))
    add_cut(lambda nyq: (0.1 * nyq, 0.2 * nyq, 0.3 * nyq))
    add_cut(lambda nyq: [])
    add_cut(lambda nyq: np.array([0.1 * nyq, 0.2 * nyq, 0.3 * nyq]))
    add_cut(lambda nyq: 0.3 * nyq)
    add_cut(lambda nyq: None)
    add_cut(lambda nyq: 'ab')
    add_cut(lambda nyq: {0: 0.1, 1: 0.2})
    add_cut(lambda nyq: range(1, 3))
    add_cut(lambda nyq: (0.5 * nyq, 0.1 * nyq))      # reversed
    add_cut(lambda nyq: (0.3 * nyq, 0.3 * nyq))      # equal
    add_cut(lambda nyq: (0.2 * nyq, 1.5 * nyq))      # above Nyquist
    add_cut(lambda nyq: (None, 1.0 * nyq))
    add_cut(lambda nyq: (0.0, None))
    add_cut(lambda nyq: (-0.1 * nyq, 0.4 * nyq))
    add_cut(lambda nyq: (1, 4))                      # integers
    add_cut(lambda nyq: np.array([1, 4]))
    add_cut(lambda nyq: [1, None])
    add_cut(lambda nyq: (None, 3))
    add_cut(lambda nyq: np.array([[0.1 * nyq, 0.2 * nyq], [0.3 * nyq, 0.4 * nyq]]))
    add_cut(lambda nyq: ('a', 'b'))
    add_cut(lambda nyq: (None, 'b'))
    add_cut(lambda nyq: (float('nan'), 0.5 * nyq))

    gibbs_opts = [None, None, 'start', 'end', 'mid', 'start', 'end', 'mid', 'other', '', 0, 1, False]
    n_butter = int(2600 * SCALE['butter'])
    for k in range(n_butter):
        odd = rs.rand() < 0.25
        n = pick(lengths_small) if rs.rand() < 0.2 else pick(lengths_mid + lengths_big if rs.rand() < 0.3 else lengths_mid)
        sig, desc = make_sig(n=n, kind=pick(kinds_all) if rs.rand() < 0.15 else None)
        nyq = 0.5 / float(sig.dt)
        if odd:
            cut = cut_makers[rs.randint(0, len(cut_makers))](nyq)
        else:
            cut = cut_makers[rs.randint(0, n_regular_cut)](nyq)
        kwargs = {}
        if rs.rand() < 0.8:
            kwargs['filter_order'] = pick([1, 2, 3, 4, 1, 2, 3, 4, 1, 2, 3, 4, 5, 8, 0, 2.0, np.int64(3)]) if odd else pick([1, 2, 3, 4])
        if rs.rand() < 0.7:
            kwargs['remove_gibbs'] = pick(gibbs_opts) if odd else pick(gibbs_opts[:8])
        if rs.rand() < 0.35:
            kwargs['gibbs_extra'] = pick([0, 1, 2, 3, -1, -2, -30, 1.0, 0.5]) if odd else pick([0, 1, 2])
        if rs.rand() < 0.35:
            kwargs['gibbs_range'] = pick([50, 1, 2, 10, 0, -3, 100000, 7, None, 2.5]) if odd else pick([50, 1, 5, 10, 200])
        if rs.rand() < 0.05:
            kwargs['unknown_option'] = 3
        if isinstance(cut, np.ndarray):
            cut_copy = cut.copy()
        elif isinstance(cut, list):
            cut_copy = list(cut)
        else:
            cut_copy = cut
        if rs.rand() < 0.1:
            touch(sig)  # populate the caches first
        u = rs.rand()
        if u < 0.8:
            args = (cut,)
        elif u < 0.95:
            args = ()
            kwargs['cut_off'] = cut
        else:
            args = ()  # default cut-off (0.1, 15)
        run_op('butter', sig, 'butter_pass', args, kwargs, deep=(k % 3 == 0), watch=(cut, cut_copy, desc))
        rec('butter-desc', desc, _enc(cut_copy), tuple(sorted((a, repr(b)) for a, b in kwargs.items())))

    # keyword form and default cut-off, each type/order/gibbs option systematically (the property's grid)
    for n in (300, 1000, 2500):
        base = np.sin(2 * np.pi * 1.7 * np.arange(n) * 0.01) + 0.2 * rs.normal(size=n)
        for acc in (False, True):
            for cut in [(0.1, 15), (None, 15), (0.1, None), [0.5, 8.], np.array([0.25, 20.0])]:
                for order in (1, 2, 3, 4):
                    for rg in (None, 'start', 'end', 'mid'):
                        cls = eqsig.AccSignal if acc else eqsig.Signal
                        sig = cls(base, 0.01)
                        run_op('butter-grid', sig, 'butter_pass', (), dict(cut_off=cut, filter_order=order, remove_gibbs=rg),
                               deep=False, watch=(cut,))
    for n in (0, 1, 5, 40, 600):
        for cls in (eqsig.Signal, eqsig.AccSignal):
            sig = cls(make_values(n, 'normal'), 0.01)
            run_op('butter-default', sig, 'butter_pass', (), {}, deep=False)
            sig = cls(make_values(n, 'int'), 0.01)
            run_op('butter-default', sig, 'butter_pass', (), {'remove_gibbs': 'mid'}, deep=False)

    # unusual time steps and record shapes (order in which the failures surface)
    for dt in (0, 0.0, -0.01, None, 'a', float('nan'), float('inf'), np.array([0.01]), np.array([0.01, 0.02]), 1e-320, 1e300):
        for cut in ((0.1, 15), (None, 15), (0.1, None), (None, None), ('a', 3), (0.1,), 5):
            for kw in ({}, {'remove_gibbs': 'mid'}, {'remove_gibbs': 'end', 'gibbs_extra': -30}, {'remove_gibbs': 'start', 'gibbs_range': 'x'},
                       {'filter_order': 'x'}):
                for cls in (eqsig.Signal, eqsig.AccSignal):
                    try:
                        sig = cls(make_values(200, 'normal'), dt)
                    except Exception as e:  # noqa
                        rec('odd-dt-construct', type(e).__name__, str(e))
                        continue
                    run_op('butter-odd-dt', sig, 'butter_pass', (cut,), kw, deep=False)
    for shape in ((64, 2), (2, 64), (3, 3), (40, 1)):
        for kw in ({}, {'remove_gibbs': 'start'}, {'remove_gibbs': 'mid', 'gibbs_range': 2}):
            sig = eqsig.Signal(rs.normal(size=shape), 0.01)
            run_op('butter-2d', sig, 'butter_pass', ((0.5, 10),), kw, deep=False)
            sig = eqsig.Signal(rs.normal(size=shape), 0.01)
            run_op('running_average-2d', sig, 'running_average', (3,), {}, deep=False)

    # ================================================================ 2. remove_poly (object and array level)
    n_poly = int(1500 * SCALE['poly'])
    for k in range(n_poly):
        odd = rs.rand() < 0.15
        n = pick(lengths_small + [0]) if rs.rand() < 0.3 else pick(lengths_mid)
        kind = pick(kinds_main + ['bool']) if odd else pick(kinds_main)
        if k in (7, 300, 900):
            kind = 'nan'  # (LAPACK prints a harmless DLASCL notice on stderr for these three)
        deg = pick([0, 1, 2, 3, 4, 5, 7, -1, 2.0, 1.5, np.int64(2), None, '1', True]) if odd else pick([0, 1, 2, 3, 4])
        v = make_values(n, kind)
        v_copy = v.copy() if isinstance(v, np.ndarray) else type(v)(v)
        with_default = rs.rand() < 0.1
        # array level
        res, warns = _call(generic.remove_poly, v, *(() if with_default else (deg,)))
        rec('gen.remove_poly', (n, kind, repr(deg), with_default), res, warns, _enc(v), _enc(v_copy))
        res, warns = _call(eqsig.remove_poly, v, **({} if with_default else {'poly_fit': deg}))
        rec('eqsig.remove_poly', res, warns)
        # object level
        cls = eqsig.AccSignal if rs.rand() < 0.4 else eqsig.Signal
        try:
            sig = cls(v, pick(dts))
        except Exception as e:  # noqa
            rec('poly-construct-fail', type(e).__name__)
            continue
        run_op('sig.remove_poly', sig, 'remove_poly', () if with_default else (deg,), {}, deep=(k % 4 == 0), watch=(v,))
        if rs.rand() < 0.3:
            run_op('sig.remove_poly-again', sig, 'remove_poly', (), {} if with_default else {'poly_fit': deg}, deep=False)
    # 2-D arrays at the array level (columns) - unusual shape
    for shape in [(5, 1), (6, 6), (10, 3), (1, 4), (4, 4, 2)]:
        v = rs.normal(size=shape)
        for deg in (0, 1, 2):
            res, warns = _call(generic.remove_poly, v, deg)
            rec('gen.remove_poly-2d', shape, deg, res, warns)
            try:
                sig = eqsig.Signal(v, 0.01)
                run_op('sig.remove_poly-2d', sig, 'remove_poly', (deg,), {}, deep=False)
            except Exception as e:  # noqa
                rec('sig2d-fail', type(e).__name__, str(e))

    # ================================================================ 3. add_constant / add_series / add_signal
    class Sub(eqsig.Signal):
        pass

    class Duck(object):
        def __init__(self, values, dt):
            self.values = values
            self.dt = dt
            self.npts = len(values)

    n_add = int(1200 * SCALE['add'])
    for k in range(n_add):
        n = pick(lengths_small + [0]) if rs.rand() < 0.4 else pick(lengths_mid)
        sig, desc = make_sig(n=n, kind=pick(kinds_all))
        which = rs.randint(0, 3)
        if which == 0:
            c = pick([0, 1, -3, 2.5, np.float64(1e-3), np.float32(0.1), np.int64(7), 1e300, float('nan'), float('inf'), True,
                      1 + 2j, None, 'a', [1.0], np.array(2.0), np.array([1.0, 2.0]), np.arange(n), np.arange(n) * 0.5])
            run_op('add_constant', sig, 'add_constant', (c,), {}, deep=(k % 4 == 0), watch=(c, desc))
        elif which == 1:
            m = n if rs.rand() < 0.65 else pick([0, 1, n + 1, max(n - 1, 0), 2 * n, 3])
            skind = pick(kinds_all)
            s = make_values(m, skind)
            if rs.rand() < 0.05:
                s = pick([None, 3, 2.5, 'abc', np.array(1.0), {1: 2}])
            if rs.rand() < 0.05 and m:
                s = rs.normal(size=(m, 2))
            s_copy = s.copy() if isinstance(s, np.ndarray) else s
            run_op('add_series', sig, 'add_series', (s,), {}, deep=(k % 4 == 0), watch=(s, s_copy, desc, m, skind))
        else:
            m = n if rs.rand() < 0.7 else pick([0, 1, n + 1, max(n - 1, 0), 2 * n])
            same_dt = rs.rand() < 0.7
            dt2 = sig.dt if same_dt else pick(dts + [float('nan'), 0.010000000000000002, 0.01 + 1e-12])
            if rs.rand() < 0.1:
                dt2 = type(sig.dt)(sig.dt) if not isinstance(sig.dt, int) else float(sig.dt)
            form = rs.randint(0, 10)
            try:
                if form <= 4:
                    other = eqsig.Signal(make_values(m, pick(kinds_all)), dt2)
                elif form <= 6:
                    other = eqsig.AccSignal(make_values(m, pick(kinds_main)), dt2)
                elif form == 7:
                    other = Sub(make_values(m, 'normal'), dt2)
                elif form == 8:
                    other = Duck(make_values(m, 'normal'), dt2)
                else:
                    other = pick([None, 3.0, 'sig', make_values(m, 'normal'), [1, 2, 3], sig])
            except Exception as e:  # noqa
                rec('add-construct-fail', type(e).__name__)
                continue
            ov = other.values if hasattr(other, 'values') else None
            ov_copy = ov.copy() if isinstance(ov, np.ndarray) else None
            run_op('add_signal', sig, 'add_signal', (other,), {}, deep=(k % 4 == 0), watch=(ov, ov_copy, desc, m, repr(dt2), form))
            if isinstance(other, eqsig.Signal) and other is not sig:
                rec('add_signal-other-state', _state(other, deep=False))
    # a signal whose dt is NaN added to itself / to a twin (nan == nan is False)
    for cls in (eqsig.Signal, eqsig.AccSignal):
        a = cls(np.arange(5.), float('nan'))
        b = cls(np.arange(5.), float('nan'))
        run_op('add_signal-nan-dt', a, 'add_signal', (b,), {}, deep=False)
        run_op('add_signal-nan-dt-self', a, 'add_signal', (a,), {}, deep=False)
        a = cls(np.arange(5.), np.array([0.01]))
        b = cls(np.arange(5.), np.array([0.01]))
        run_op('add_signal-arr-dt', a, 'add_signal', (b,), {}, deep=False)
        a = cls(np.arange(5.), np.array([0.01, 0.01]))
        b = cls(np.arange(5.), np.array([0.01, 0.01]))
        run_op('add_signal-arr2-dt', a, 'add_signal', (b,), {}, deep=False)
        # exceptions raised are the library's own type
        for other in (None, cls(np.arange(4.), 0.01), cls(np.arange(5.), 0.02)):
            a = cls(np.arange(5.), 0.01)
            try:
                a.add_signal(other)
                rec('add_signal-exc', 'none')
            except eq_exc.SignalProcessingError as e:
                rec('add_signal-exc', 'SignalProcessingError', str(e), isinstance(e, Exception), type(e).__mro__[1].__name__)
        try:
            cls(np.arange(5.), 0.01).add_series([1, 2])
        except eq_exc.SignalProcessingError as e:
            rec('add_series-exc', str(e), e.args)

    # ================================================================ 4. running_average / remove_rolling_average
    widths_ok = list(range(1, 26))
    widths_odd = [0, -1, -2, -3, -7, 26, 51, 100, 1000, 2.0, 2.5, 3.9, 7.0, 0.5, -2.5, np.int64(5), np.float64(4.0), True,
                  float('nan'), float('inf'), None, 'a', 1 + 0j]
    n_run = int(900 * SCALE['run'])
    for k in range(n_run):
        n = pick(lengths_small + [0, 1, 2, 6, 10, 11, 12, 20, 24, 25, 26]) if rs.rand() < 0.6 else pick([50, 64, 100, 127, 200, 255])
        sig, desc = make_sig(n=n, kind=pick(kinds_all))
        w = pick(widths_odd) if rs.rand() < 0.2 else pick(widths_ok)
        use_default = rs.rand() < 0.05
        if rs.rand() < 0.2:
            touch(sig)
        run_op('running_average', sig, 'running_average', () if use_default else (w,), {}, deep=(k % 3 == 0),
               watch=(desc, repr(w), use_default))
        if rs.rand() < 0.3:
            run_op('running_average-2', sig, 'running_average', (), {'width': pick(widths_ok)}, deep=False)
    # exhaustive small grid: every width 1..25 with every length 0..30 on float and integer records
    for n in range(0, 31):
        vf = rs.normal(size=n)
        vi = rs.randint(-100, 100, size=n)
        for w in range(0, 27):
            for v in (vf, vi):
                sig = eqsig.Signal(v, 0.01)
                run_op('running_average-grid', sig, 'running_average', (w,), {}, deep=False, watch=(v,))
    # AccSignal.remove_rolling_average (shares the window logic)
    n_roll = int(350 * SCALE['run'])
    for k in range(n_roll):
        n = pick([0, 1, 2, 3, 5, 8, 16, 17, 33, 64, 100, 127, 200, 300])
        kind = pick(kinds_all)
        dt = pick([0.01, 0.005, 0.02, 0.1, 0.05, 0.0078125])
        asig = eqsig.AccSignal(make_values(n, kind), dt)
        mtype = pick(['velocity', 'velocity', 'acceleration', 'other'])
        fw = pick([5, 1, 2, 3, 0.5, 10, 20, 50, 1000, 0.1, 7.5, -5, np.float64(4.)])
        kw = {}
        if rs.rand() < 0.9:
            kw['mtype'] = mtype
        if rs.rand() < 0.9:
            kw['freq_window'] = fw
        run_op('remove_rolling_average', asig, 'remove_rolling_average', (), kw, deep=(k % 2 == 0), watch=(n, kind, dt, repr(kw)))

    # ================================================================ 5. histories of public operations on one object
    n_hist = int(260 * SCALE['hist'])
    for k in range(n_hist):
        n = pick([30, 64, 100, 129, 256, 400, 1000])
        acc = rs.rand() < 0.5
        kind = pick(['normal', 'sines+trend', 'int', 'float32', 'list', 'sine'])
        dt = pick([0.01, 0.005, 0.02, 0.0078125])
        sig, desc = make_sig(n=n, kind=kind, dt=dt, acc=acc)
        rec('hist-start', desc)
        handles = [sig.values]
        for step in range(rs.randint(3, 9)):
            op = rs.randint(0, 12)
            nyq = 0.5 / dt
            if op == 0:
                cut = cut_makers[rs.randint(0, n_regular_cut)](nyq)
                kw = {'filter_order': pick([1, 2, 3, 4])}
                if rs.rand() < 0.6:
                    kw['remove_gibbs'] = pick([None, 'start', 'end', 'mid'])
                run_op('hist', sig, 'butter_pass', (cut,), kw, deep=False)
            elif op == 1:
                run_op('hist', sig, 'remove_poly', (pick([0, 1, 2, 3, 4]),), {}, deep=False)
            elif op == 2:
                run_op('hist', sig, 'add_constant', (pick([1, -2.5, 0, 1e-3, np.float32(2.)]),), {}, deep=False)
            elif op == 3:
                m = sig.npts if rs.rand() < 0.8 else sig.npts + 1
                run_op('hist', sig, 'add_series', (make_values(m, pick(['normal', 'int', 'list', 'float32'])),), {}, deep=False)
            elif op == 4:
                m = sig.npts if rs.rand() < 0.8 else max(sig.npts - 1, 0)
                other = eqsig.Signal(make_values(m, 'normal'), dt if rs.rand() < 0.8 else dt * 2)
                run_op('hist', sig, 'add_signal', (other,), {}, deep=False)
            elif op == 5:
                run_op('hist', sig, 'running_average', (pick(widths_ok),), {}, deep=False)
            elif op == 6:
                run_op('hist', sig, 'remove_average', (), {}, deep=False)
            elif op == 7 and acc:
                run_op('hist', sig, 'remove_rolling_average', (), {'mtype': pick(['velocity', 'acc']), 'freq_window': pick([2, 5, 10])},
                       deep=False)
            elif op == 8:
                rec('hist-read', touch(sig))
            elif op == 9:
                run_op('hist', sig, 'reset_values', (make_values(pick([n, 77, 100]), pick(['normal', 'int', 'list'])),), {}, deep=False)
            elif op == 10:
                run_op('hist', sig, 'add_signal', (sig,), {}, deep=False)
            else:
                run_op('hist', sig, 'add_series', (sig.values,), {}, deep=False)
            handles.append(sig.values)
        rec('hist-end', _state(sig, deep=True), tuple(_enc(h) for h in handles),
            tuple(handles[i] is handles[i + 1] for i in range(len(handles) - 1)))

    # ================================================================ 6. zero-phase / gain spot checks evaluated identically on both
    for ftype in ('band', 'low', 'high'):
        for order in (1, 2, 3, 4):
            for rg in (None, 'start', 'end', 'mid'):
                for f in (0.05, 0.3, 1.0, 3.0, 9.0, 20.0):
                    dt = 0.01
                    t = np.arange(6000) * dt
                    sig = eqsig.Signal(np.sin(2 * np.pi * f * t), dt)
                    cut = {'band': (0.5, 8.0), 'low': (None, 8.0), 'high': (0.5, None)}[ftype]
                    sig.butter_pass(cut, filter_order=order, remove_gibbs=rg)
                    rec('gain', ftype, order, rg, f, _enc(sig.values), sig.npts, _enc(sig.dt))

    # public surface of the modules touched (names only; private helpers excluded)
    rec('surface-single', tuple(sorted(x for x in dir(single.Signal) if not x.startswith('_'))),
        tuple(sorted(x for x in dir(single.AccSignal) if not x.startswith('_'))))
    rec('surface-single-module', tuple(sorted(x for x in dir(single) if not x.startswith('_'))))
    rec('surface-generic', tuple(sorted(x for x in dir(generic) if not x.startswith('_'))))
    rec('surface-eqsig', tuple(sorted(x for x in dir(eqsig) if not x.startswith('_'))))
    import inspect
    for fn in (single.Signal.butter_pass, single.Signal.remove_poly, single.Signal.add_constant, single.Signal.add_series,
               single.Signal.add_signal, single.Signal.running_average, single.AccSignal.remove_rolling_average,
               generic.remove_poly):
        rec('signature', fn.__name__, str(inspect.signature(fn)), fn.__doc__)

    with open(out_path, 'wb') as f:
        pickle.dump(records, f, protocol=2)


# --------------------------------------------------------------------------------------------------
# parent
# --------------------------------------------------------------------------------------------------

def _describe(a, limit=120):
    s = repr(a)
    return s if len(s) <= limit else s[:limit] + '...'


def _first_diff(a, b, path=''):
    if type(a) != type(b):
        return '%s: type %s vs %s' % (path, type(a).__name__, type(b).__name__)
    if isinstance(a, tuple):
        if len(a) != len(b):
            return '%s: tuple length %i vs %i' % (path, len(a), len(b))
        for i, (x, y) in enumerate(zip(a, b)):
            if x != y:
                return _first_diff(x, y, path + '[%i]' % i)
        return None
    if a != b:
        return '%s: %s  !=  %s' % (path, _describe(a), _describe(b))
    return None


def main():
    cwd = os.getcwd()
    if not os.path.isdir(os.path.join(cwd, 'eqsig')):
        print('run me with cwd = the worktree')
        return 2
    tmp = tempfile.mkdtemp(prefix='eqsig_orig_')
    try:
        blob = subprocess.check_output(['git', 'archive', 'HEAD', 'eqsig'], cwd=cwd)
        with tarfile.open(fileobj=io.BytesIO(blob)) as tf:
            tf.extractall(tmp)
        outs = {}
        procs = {}
        for name, root in (('orig', tmp), ('edit', cwd)):
            out_path = os.path.join(tmp, 'result_%s.pkl' % name)
            env = dict(os.environ)
            env['PYTHONPATH'] = root
            env['PYTHONHASHSEED'] = '0'
            env['PYTHONDONTWRITEBYTECODE'] = '1'
            code = ("import sys; sys.path.insert(0, %r); sys.argv=['w']; "
                    "import runpy; m = runpy.run_path(%r, run_name='equiv_worker'); "
                    "import eqsig, os; "
                    "assert os.path.realpath(os.path.dirname(os.path.dirname(eqsig.__file__))) == os.path.realpath(%r), eqsig.__file__; "
                    "m['worker'](%r)") % (root, os.path.abspath(__file__), root, out_path)
            # run from a neutral directory so that cwd does not shadow the chosen package
            procs[name] = subprocess.Popen([sys.executable, '-c', code], cwd=tmp, env=env)
            outs[name] = out_path
        fail = False
        for name, p in procs.items():
            if p.wait() != 0:
                print('worker %s failed (exit %s)' % (name, p.returncode))
                fail = True
        if fail:
            return 3
        with open(outs['orig'], 'rb') as f:
            ro = pickle.load(f)
        with open(outs['edit'], 'rb') as f:
            re_ = pickle.load(f)
    finally:
        import shutil
        shutil.rmtree(tmp, ignore_errors=True)

    n_bad = 0
    if len(ro) != len(re_):
        print('different number of records: %i vs %i' % (len(ro), len(re_)))
        n_bad += 1
    counts = {}
    excs = {}
    for i, (a, b) in enumerate(zip(ro, re_)):
        counts[a[0]] = counts.get(a[0], 0) + 1
        if any(isinstance(item, tuple) and len(item) and item[0] == 'exc' for item in a):
            excs[a[0]] = excs.get(a[0], 0) + 1
        if a != b:
            n_bad += 1
            if n_bad <= 15:
                print('MISMATCH record %i tag=%s: %s' % (i, a[0], _first_diff(a, b)))
    print('%s: %i records compared (%i with an exception outcome); families total(raising): %s' % (
        FOCUS, len(ro), sum(excs.values()), ', '.join('%s=%i(%i)' % (k, v, excs.get(k, 0)) for k, v in sorted(counts.items()))))
    if n_bad:
        print('NOT EQUIVALENT: %i mismatching records' % n_bad)
        return 1
    print('all outcomes identical')
    return 0


if __name__ == '__main__':
    sys.exit(main())

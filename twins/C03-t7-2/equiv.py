"""
Equivalence program: compares the ORIGINAL eqsig (from git HEAD) with the EDITED eqsig (cwd)
on the response-spectrum functions (property C03).

run: cd <worktree> && PYTHONPATH=<worktree> /venv/bin/python out/equivK.py
exit 0 iff every case gives identical results (bit-for-bit values, dtypes, shapes, exception types+messages,
state of objects and of arguments after the calls).
"""
import os
import sys
import pickle
import subprocess
import tempfile
import tarfile
import io
import shutil


# ----------------------------------------------------------------------------------------------------------------------
# worker: runs all the cases against the eqsig found at sys.argv[2], dumps encoded results to sys.argv[3]
# ----------------------------------------------------------------------------------------------------------------------

def enc(x):
    import numpy as np
    if isinstance(x, np.ndarray):
        if x.dtype == object:
            return ('ndo', x.shape, [enc(v) for v in x.ravel().tolist()])
        return ('nd', x.dtype.str, x.shape, np.ascontiguousarray(x).tobytes())
    if isinstance(x, np.generic):
        return ('ns', x.dtype.str, x.tobytes())
    if isinstance(x, (list, tuple)):
        return (type(x).__name__, [enc(v) for v in x])
    if isinstance(x, dict):
        return ('dict', [(k, enc(v)) for k, v in sorted(x.items())])
    if isinstance(x, float):
        import struct
        return ('f', struct.pack('<d', x))
    if isinstance(x, (int, bool, str, type(None))):
        return (type(x).__name__, x)
    if isinstance(x, BaseException):
        return ('exc', type(x).__name__, str(x))
    return ('repr', type(x).__name__, repr(x))


def call(fn, *args, **kwargs):
    try:
        return enc(fn(*args, **kwargs))
    except BaseException as e:  # noqa
        if isinstance(e, (KeyboardInterrupt, SystemExit)):
            raise
        return enc(e)


def make_records(rs):
    import numpy as np
    recs = []
    for n in [1, 2, 3, 4, 7, 16, 33, 64, 120, 257]:
        recs.append(('randn%i' % n, rs.randn(n)))
    t = np.arange(150) * 0.01
    recs.append(('sine', np.sin(2 * np.pi * 3.1 * t) * 2.5))
    recs.append(('negonly', -np.abs(rs.randn(40)) - 0.1))
    recs.append(('posonly', np.abs(rs.randn(40)) + 0.1))
    recs.append(('zeros', np.zeros(25)))
    recs.append(('negzeros', -np.zeros(9)))
    recs.append(('ints', rs.randint(-50, 50, size=60)))
    recs.append(('ints32', rs.randint(-50, 50, size=31).astype(np.int32)))
    recs.append(('uint8', rs.randint(0, 50, size=31).astype(np.uint8)))
    recs.append(('f32', rs.randn(45).astype(np.float32)))
    recs.append(('sym', np.array([0.0, 1.5, -1.5, 0.5, -0.25, 0.0])))
    recs.append(('symneg', np.array([0.0, -1.5, 1.5, 0.5, -0.25, 0.0])))
    recs.append(('withnan', np.array([0.0, 1.0, np.nan, -2.0, 0.3])))
    recs.append(('withinf', np.array([0.0, 1.0, np.inf, -2.0, 0.3])))
    recs.append(('list', list(rs.randn(20))))
    recs.append(('intlist', [1, -3, 2, 0, 5, -1]))
    recs.append(('tuple', tuple(rs.randn(12))))
    recs.append(('empty', np.array([])))
    recs.append(('big', rs.randn(80) * 1e6))
    recs.append(('tiny', rs.randn(80) * 1e-9))
    return recs


def make_period_sets(rs, dt):
    import numpy as np
    ps = []
    ps.append([0.1, 0.5, 1.0, 2.0])
    ps.append([0.0, 0.1, 0.5, 1.0])
    ps.append((0.0, dt, 2 * dt, 5 * dt, 6 * dt, 7 * dt, 20 * dt))
    ps.append(np.array([dt * 5.999999, dt * 6, dt * 6.000001, dt * 60]))
    ps.append(np.array([0, 1, 2, 3]))  # integer typed with leading 0
    ps.append([1, 2, 3])  # integer list
    ps.append(np.linspace(0.01, 3, 12))
    ps.append(np.sort(rs.uniform(dt, 40 * dt, size=7)))
    ps.append(rs.uniform(dt, 40 * dt, size=5))  # unsorted
    ps.append([0.0])
    ps.append([0.7])
    ps.append([0.0, 0.3])
    ps.append(np.array([0.3, 0.0, 0.5]))  # zero not leading
    ps.append([-0.5, 0.5])  # negative
    ps.append([])  # empty -> IndexError
    ps.append(0.5)  # scalar
    ps.append(np.array([[0.4]]))  # 2-D
    ps.append(np.array([0.2, 0.4], dtype=np.float32))
    ps.append([np.nan, 0.4])
    ps.append([np.inf, 0.4])
    ps.append(None)
    ps.append(['0.3', '0.6'])
    ps.append(np.array([0.0, 0.0, 0.3]))
    return ps


def worker(path, out_ffp):
    sys.path.insert(0, path)
    import warnings
    warnings.simplefilter('ignore')
    import numpy as np
    np.seterr(all='ignore')
    import eqsig
    from eqsig import sdof, im
    assert os.path.realpath(eqsig.__file__).startswith(os.path.realpath(path)), (eqsig.__file__, path)
    rs = np.random.RandomState(20240703)
    results = []

    def add(tag, val):
        results.append((tag, val))

    # --- absmax ---
    arrs = [rs.randn(5), rs.randn(3, 4), -np.abs(rs.randn(3, 4)), np.abs(rs.randn(3, 4)), np.zeros((2, 3)),
            -np.zeros((2, 3)), rs.randint(-9, 9, size=(4, 5)), np.array([[1.0, -1.0], [-1.0, 1.0]]),
            np.array([np.nan, 1.0, -3.0]), np.array([[np.nan, 1.0], [2.0, -3.0]]), np.array([-np.inf, 2.0]),
            np.array([]), np.zeros((0, 3)), np.zeros((3, 0)), np.array(2.5), np.array(-2.5),
            rs.randint(0, 9, size=(3, 3)).astype(np.uint8), rs.randn(4, 3).astype(np.float32),
            np.array([-128, 5], dtype=np.int8), [1.0, -2.0], 3.0, rs.randn(2, 3, 4)]
    for k, a in enumerate(arrs):
        for axis in [None, 0, 1, -1, 2]:
            add('absmax-%i-%s' % (k, axis), call(sdof.absmax, a, axis))
            add('absmax-kw-%i-%s' % (k, axis), call(sdof.absmax, a, axis=axis))
        add('absmax-noaxis-%i' % k, call(sdof.absmax, a))

    # --- free functions ---
    dts = [0.01, 0.005, 0.02, 0.1, 1, 0.0125]
    xis = [0.0, 0.05, 0.02, 0.2, 0.5, 0.99, 1.0, -0.05]
    recs = make_records(rs)
    n_free = 0
    for dt in dts:
        psets = make_period_sets(rs, dt)
        for ri, (rname, rec) in enumerate(recs):
            for pi, periods in enumerate(psets):
                # a deterministic sub-selection of xi values to keep the run time down
                xs = [xis[(ri + pi) % len(xis)], xis[(ri * 3 + pi * 5 + 1) % len(xis)]]
                if len(rec) > 100:
                    xs = xs[:1]
                for xi in xs:
                    for fname in ['pseudo_response_spectra', 'true_response_spectra', 'response_series']:
                        if fname == 'response_series' and (ri + pi) % 4:
                            continue
                        fn = getattr(sdof, fname)
                        rec_in = rec.copy() if isinstance(rec, np.ndarray) else type(rec)(rec)
                        p_in = periods.copy() if isinstance(periods, np.ndarray) else (
                            type(periods)(periods) if isinstance(periods, (list, tuple)) else periods)
                        res = call(fn, rec_in, dt, p_in, xi)
                        add('%s|%s|dt%s|p%i|xi%s' % (fname, rname, dt, pi, xi), (res, enc(rec_in), enc(p_in)))
                        n_free += 1
    # keyword forms
    rec = rs.randn(30)
    add('kw1', call(sdof.pseudo_response_spectra, motion=rec, dt=0.01, periods=[0, 0.03, 0.2], xi=0.05))
    add('kw2', call(sdof.true_response_spectra, motion=rec, dt=0.01, periods=[0, 0.03, 0.2], xi=0.0))
    add('kw3', call(sdof.pseudo_response_spectra, rec, 0.01, [0, 0.03, 0.2]))
    add('kw4', call(sdof.true_response_spectra, rec, 0.01))
    add('dtstr', call(sdof.pseudo_response_spectra, rec, '0.01', [0.03, 0.2], 0.05))
    add('dtnp', call(sdof.pseudo_response_spectra, rec, np.float32(0.01), [0.03, 0.2], 0.05))
    add('dtint', call(sdof.true_response_spectra, rec, 1, [0, 3, 6, 7], 0.05))
    add('dtzero', call(sdof.true_response_spectra, rec, 0, [0, 3, 6, 7], 0.05))
    add('dtneg', call(sdof.pseudo_response_spectra, rec, -0.01, [0, 3, 6, 7], 0.05))

    # --- AccSignal histories ---
    ops_pool = ['s_a', 's_v', 's_d', 'gen', 'generate', 'set_rt', 'clear', 'gen_kw', 'state', 'energy', 'uke',
                'asi', 'vsi', 'gen_pos']
    rt_pool = [None, [0.1, 0.3, 1.0], (0.0, 0.05, 0.2), np.array([0.0, 0.013, 0.5]), np.array([0.02, 0.5]),
               [0.0], [0], [0.5], np.linspace(0.01, 2, 9), [1, 2], np.array([0, 1, 2]), [0.004, 0.3],
               np.array([0.0, 0.004, 0.3]), [], [0.3, 0.0, 0.2], [0.0, 0.0, 0.3], (0.06, 0.0601)]
    xi_pool = [-1, 0.05, 0.0, 0.1, 0.3, 0.7, 0.99]
    mdr_pool = [1, 2, 4, 8, 4.0, 3, 0.5, 16, 0]
    sig_recs = [r for r in recs if r[0] not in ('empty', 'withnan', 'withinf')]

    def snapshot(asig):
        d = {}
        for k in ['_s_a', '_s_v', '_s_d', '_cached_response_spectra', '_cached_xi', '_response_times',
                  '_cached_disp_and_velo', '_cached_fa', '_cached_smooth_fa']:
            d[k] = enc(getattr(asig, k, 'MISSING'))
        d['values'] = enc(asig.values)
        d['dt'] = enc(asig.dt)
        d['npts'] = enc(asig.npts)
        return enc_dict(d)

    def enc_dict(d):
        return ('dict', sorted(d.items()))

    n_hist = 0
    for h in range(1000):
        rname, rec = sig_recs[rs.randint(len(sig_recs))]
        dt = [0.01, 0.005, 0.02, 0.05, 0.1][rs.randint(5)]
        kwargs = {}
        c = rs.randint(4)
        if c == 1:
            kwargs['response_times'] = rt_pool[rs.randint(1, len(rt_pool))]
        elif c == 2:
            kwargs['response_period_range'] = [(0.1, 5), (0.0, 1.0), (0.02, 0.5), (0.5, 0.5)][rs.randint(4)]
        if rs.randint(5) == 0:
            kwargs['verbose'] = 1
        hist = []
        buf = io.StringIO()
        old_stdout = sys.stdout
        sys.stdout = buf
        try:
            rec_in = rec.copy() if isinstance(rec, np.ndarray) else type(rec)(rec)
            asig = eqsig.AccSignal(rec_in, dt, **kwargs)
        except BaseException as e:  # noqa
            sys.stdout = old_stdout
            add('hist%i-ctor' % h, enc(e))
            continue
        n_ops = rs.randint(1, 7)
        for j in range(n_ops):
            op = ops_pool[rs.randint(len(ops_pool))]
            rt = rt_pool[rs.randint(len(rt_pool))]
            rt_in = rt.copy() if isinstance(rt, np.ndarray) else (type(rt)(rt) if rt is not None else None)
            xi = xi_pool[rs.randint(len(xi_pool))]
            mdr = mdr_pool[rs.randint(len(mdr_pool))]
            if op in ('s_a', 's_v', 's_d'):
                r = call(getattr, asig, op)
            elif op == 'gen':
                r = call(asig.gen_response_spectrum, response_times=rt_in, xi=xi, min_dt_ratio=mdr)
            elif op == 'gen_pos':
                r = call(asig.gen_response_spectrum, rt_in, xi, mdr)
            elif op == 'gen_kw':
                sub = rs.randint(4)
                if sub == 0:
                    r = call(asig.gen_response_spectrum)
                elif sub == 1:
                    r = call(asig.gen_response_spectrum, xi=xi)
                elif sub == 2:
                    r = call(asig.gen_response_spectrum, min_dt_ratio=mdr)
                else:
                    r = call(asig.gen_response_spectrum, rt_in)
            elif op == 'generate':
                r = call(asig.generate_response_spectrum, response_times=rt_in, xi=xi, min_dt_ratio=mdr)
            elif op == 'set_rt':
                def _set():
                    asig.response_times = rt_in
                r = call(_set)
            elif op == 'clear':
                r = call(asig.clear_cache)
            elif op == 'state':
                r = ('none',)
            elif op == 'energy':
                sub = rs.randint(4)
                ser = bool(rs.randint(2))
                xx = [None, 0.05, 0.0, 0.2][rs.randint(4)]
                if sub == 0:
                    r = call(sdof.calc_input_energy_spectrum, asig)
                elif sub == 1:
                    r = call(sdof.calc_input_energy_spectrum, asig, rt_in, xx, ser)
                elif sub == 2:
                    r = call(sdof.calc_input_energy_spectrum, asig, periods=rt_in, series=ser)
                else:
                    r = call(sdof.calc_input_energy_spectrum, asig, xi=xx, series=ser)
            elif op == 'uke':
                sub = rs.randint(3)
                xx = [None, 0.05, 0.0, 0.2][rs.randint(4)]
                if sub == 0:
                    r = call(sdof.calc_resp_uke_spectrum, asig)
                elif sub == 1:
                    r = call(sdof.calc_resp_uke_spectrum, asig, rt_in, xx)
                else:
                    r = call(sdof.calc_resp_uke_spectrum, asig, periods=rt_in, xi=xx)
            elif op in ('asi', 'vsi'):
                fn = im.calc_asi if op == 'asi' else im.calc_vsi
                sub = rs.randint(3)
                if len(asig.values) > 70:
                    sub = 1 + rs.randint(2)
                xx = [0.05, 0.0, 0.2][rs.randint(3)]
                if sub == 0:
                    r = call(fn, asig)
                elif sub == 1:
                    r = call(fn, asig, xx, rt_in)
                else:
                    r = call(fn, asig, periods=rt_in, xi=xx)
            hist.append((op, r, snapshot(asig), enc(rt_in), enc(rec_in)))
            n_hist += 1
        sys.stdout = old_stdout
        add('hist%i|%s|dt%s' % (h, rname, dt), hist + [('stdout', buf.getvalue())])

    # default-period intensity measures on a few records, and objects that are not AccSignal (duck typed)
    class Duck(object):
        def __init__(self, values, dt, response_times=None):
            self.values = values
            self.dt = dt
            if response_times is not None:
                self.response_times = response_times
    for k in range(6):
        v = rs.randn(40 + 5 * k)
        d = Duck(v, 0.02, [0.0, 0.1, 0.4])
        add('duck-asi%i' % k, call(im.calc_asi, d))
        add('duck-vsi%i' % k, call(im.calc_vsi, d, xi=0.02 * k))
        add('duck-ie%i' % k, call(sdof.calc_input_energy_spectrum, d, series=bool(k % 2)))
        add('duck-uke%i' % k, call(sdof.calc_resp_uke_spectrum, d))
        d2 = Duck(v, 0.02)
        add('duck2-ie%i' % k, call(sdof.calc_input_energy_spectrum, d2))
        add('duck2-uke%i' % k, call(sdof.calc_resp_uke_spectrum, d2))
        add('duck2-uke-p%i' % k, call(sdof.calc_resp_uke_spectrum, d2, [[0.1, 0.2], [0.3]]))
        add('duck2-ie-p%i' % k, call(sdof.calc_input_energy_spectrum, d2, [[0.1, 0.2], [0.3]]))
        add('duck2-ie-series-truthy%i' % k, call(sdof.calc_input_energy_spectrum, d2, [0.1, 0.2], None, 'yes'))
        add('duck2-ie-series-0%i' % k, call(sdof.calc_input_energy_spectrum, d2, [0.1, 0.2], 0.1, 0))
        d3 = Duck(list(v), 0.02, [0.0, 0.1, 0.4])
        add('duck3-ie%i' % k, call(sdof.calc_input_energy_spectrum, d3))
        add('duck3-asi%i' % k, call(im.calc_asi, d3, periods=[0.1, 0.2, 0.3]))

    sys.stderr.write('worker(%s): %i results (%i free calls, %i object operations)\n'
                     % (path, len(results), n_free, n_hist))
    with open(out_ffp, 'wb') as f:
        pickle.dump(results, f, protocol=2)


# ----------------------------------------------------------------------------------------------------------------------
# driver
# ----------------------------------------------------------------------------------------------------------------------

def main():
    cwd = os.getcwd()
    tmp = tempfile.mkdtemp(prefix='equiv_c03_')
    try:
        orig = os.path.join(tmp, 'orig')
        os.makedirs(orig)
        data = subprocess.check_output(['git', 'archive', 'HEAD', 'eqsig'], cwd=cwd)
        tarfile.open(fileobj=io.BytesIO(data)).extractall(orig)
        outs = []
        procs = []
        for name, path in [('orig', orig), ('edit', cwd)]:
            out_ffp = os.path.join(tmp, name + '.pkl')
            env = dict(os.environ)
            env['PYTHONPATH'] = path
            env['PYTHONDONTWRITEBYTECODE'] = '1'
            env['PYTHONHASHSEED'] = '0'
            procs.append(subprocess.Popen([sys.executable, os.path.abspath(__file__), '--worker', path, out_ffp],
                                          cwd=tmp, env=env))
            outs.append(out_ffp)
        for p in procs:
            if p.wait() != 0:
                print('worker failed')
                return 2
        res = [pickle.load(open(o, 'rb')) for o in outs]
        if len(res[0]) != len(res[1]):
            print('different number of results')
            return 1
        bad = 0
        n_exc = 0
        for (t0, r0), (t1, r1) in zip(*res):
            if t0 != t1 or r0 != r1:
                bad += 1
                if bad <= 10:
                    print('MISMATCH at', t0, t1)
                    print('   orig:', repr(r0)[:400])
                    print('   edit:', repr(r1)[:400])
            if "'exc'" in repr(r0)[:4000]:
                n_exc += 1
        print('%i results compared (%i involve exceptions), %i mismatches' % (len(res[0]), n_exc, bad))
        return 1 if bad else 0
    finally:
        shutil.rmtree(tmp, ignore_errors=True)


if __name__ == '__main__':
    if len(sys.argv) > 1 and sys.argv[1] == '--worker':
        worker(sys.argv[2], sys.argv[3])
    else:
        sys.exit(main())

"""
Equivalence check: ORIGINAL eqsig (from git HEAD) vs the EDITED eqsig in the current worktree.

Run with the twin applied, cwd = the worktree:
    /venv/bin/python out/equivK.py

The same deterministic battery of calls is executed twice in sub-processes, once against the package
extracted from `git archive HEAD eqsig` and once against the working tree.  Every outcome (returned value
incl. dtype/shape/bytes, exception type + message, state of the arguments after the call) is serialised and the two
transcripts are compared bit-for-bit.  Exit code 0 iff everything matches.
"""
import os
import pickle
import subprocess
import sys
import tempfile
import warnings

TOL_FUNCS = ()  # names of functions compared with allclose(rtol=1e-12) instead of bit-for-bit (none needed)


# ----------------------------------------------------------------------------------------------------------------
# serialisation helpers
# ----------------------------------------------------------------------------------------------------------------
def enc(obj):
    import numpy as np
    if isinstance(obj, np.ndarray):
        return ('nd', obj.dtype.str, obj.shape, np.ascontiguousarray(obj).tobytes())
    if isinstance(obj, np.generic):
        return ('npscalar', obj.dtype.str, obj.tobytes())
    if isinstance(obj, (list, tuple)):
        return (type(obj).__name__, [enc(o) for o in obj])
    if isinstance(obj, (int, float, str, bool, type(None))):
        return (type(obj).__name__, repr(obj))
    return ('other', type(obj).__name__, repr(obj))


def copy_arg(a):
    import numpy as np
    if isinstance(a, np.ndarray):
        return a.copy()
    if isinstance(a, list):
        return list(a)
    return a


# ----------------------------------------------------------------------------------------------------------------
# the battery of inputs
# ----------------------------------------------------------------------------------------------------------------
def make_series():
    """Series from the property's domain (and a few just outside it, to compare the exceptions)."""
    import numpy as np
    rng = np.random.RandomState(20240913)
    out = []

    def add(name, v):
        out.append((name, v))

    # hand made / test-suite series
    add('triangle_list', [0, 1, 0, -1, 0, 1, 0, -1, 0, 1, 0])
    add('doc_series', np.array([0, 2, 1, 2, 0, 1, 0, -1, 0, 1, 0]))
    add('doc_series_f', np.array([0, 2, 1, 2, 0.3, 1, 0.3, -1, 0.4, 1, 0]))
    add('double_peak_offset', np.array([0, 2, 1, 2, -1, 1, 1, 0.3, -1, 0.2, 1, 0.2]) + 3.0)
    add('double_peak_offset_neg', -(np.array([0, 2, 1, 2, -1, 1, 1, 0.3, -1, 0.2, 1, 0.2]) + 3.0))
    t = np.arange(99)
    s = np.sin(t)
    s[-1] = 0
    add('sine', s)
    add('sine_f32', s.astype(np.float32))
    add('tuple', (0.0, 1.5, -2.0, -2.0, 3.0))
    # very short
    add('len2_up', np.array([0.0, 1.0]))
    add('len2_down', np.array([1.0, -1.0]))
    add('len2_int', np.array([3, 1]))
    add('len2_list', [2, 5])
    add('len3_peak', np.array([0.0, 1.0, 0.5]))
    add('len3_mono', np.array([0.0, 1.0, 2.0]))
    add('len3_plateau', np.array([1.0, 1.0, 2.0]))
    add('len3_plateau_end', np.array([1.0, 2.0, 2.0]))
    add('len3_int_list', [5, 5, 4])
    # monotone, plateaus
    add('mono_up', np.linspace(-1, 2, 17))
    add('mono_down', np.linspace(4, -2, 13))
    add('mono_down_int', np.arange(10, 0, -1))
    add('lead_plateau', np.array([2.0, 2.0, 2.0, 3.0, 1.0, 1.0, 4.0, 4.0]))
    add('lead_plateau_down', np.array([2.0, 2.0, 1.0, 3.0, 3.0, 0.0]))
    add('zero_crossing_plateaus', np.array([0.0, 0.0, 1.0, 0.0, 0.0, -1.0, 0.0, 0.0, 2.0, 0.0]))
    add('int_plateaus', np.array([4, 4, 6, 6, 6, 2, 2, 9, 9, 1, 1]))
    add('int32', np.array([1, 5, 2, 2, 7, -3, -3, 0], dtype=np.int32))
    add('int_list_offset', [10, 12, 11, 15, 15, 9, 9, 9, 13])
    add('neg_ints', np.array([-5, -7, -6, -6, -9, -1]))
    add('big_offset', 1.0e6 + np.array([0.0, 0.25, -0.5, -0.5, 0.75, 0.125]))
    add('tiny', 1.0e-12 * np.array([0.0, 1.0, -2.0, 1.0, 3.0, -1.0]))
    add('alternating', np.array([1.0, -1.0] * 9))
    add('alternating_int', np.array([1, -1] * 6 + [1]))
    add('float_first_nonzero', np.array([0.7, 0.2, 0.9, -0.4, -0.4, 0.1]))
    # outside the domain (constant / empty / one sample): only the exception behaviour is compared
    add('constant', np.ones(5))
    add('zeros', np.zeros(6))
    add('zeros_int', np.zeros(4, dtype=int))
    add('single', np.array([1.0]))
    add('empty', np.array([]))
    # random series
    for k in range(60):
        n = int(rng.randint(2, 120))
        kind = k % 6
        if kind == 0:
            v = rng.randn(n)
        elif kind == 1:
            v = np.cumsum(rng.randn(n)) + rng.uniform(-5, 5)
        elif kind == 2:
            v = rng.randint(-6, 7, size=n)
        elif kind == 3:
            v = np.repeat(rng.randn(n), rng.randint(1, 4, size=n))
        elif kind == 4:
            v = np.repeat(rng.randint(-4, 5, size=n), rng.randint(1, 4, size=n)) + int(rng.randint(-20, 20))
        else:
            v = np.round(rng.randn(n), 1) + rng.uniform(-1, 1)
        if k % 7 == 3:
            v = v.tolist()
        add('rand%d' % k, v)
    # a real record
    rec_path = os.path.join('tests', 'unit_test_data', 'test_motion_dt0p01.txt')
    if os.path.exists(rec_path):
        rec = np.loadtxt(rec_path, skiprows=2)
        add('record', rec)
        add('record_short_offset', rec[2000:2600] + 0.37)
        add('record_rounded', np.round(rec[1500:3000], 2))
    return out


def make_im_series():
    """Series for the power-law functions (arrays; lists are included to compare the raised exceptions)."""
    import numpy as np
    keep = []
    for name, v in make_series():
        keep.append((name, v))
    return keep


def run_battery():
    import numpy as np
    import eqsig
    from eqsig import im
    from eqsig.fns import peaks_and_crossings as pc
    rng = np.random.RandomState(77)
    log = [('file', os.path.dirname(os.path.abspath(eqsig.__file__)))]

    def call(tag, fn, *args, **kwargs):
        args_c = [copy_arg(a) for a in args]
        kw_c = dict((k, copy_arg(v)) for k, v in kwargs.items())
        with warnings.catch_warnings():
            warnings.simplefilter('ignore')
            with np.errstate(all='ignore'):
                try:
                    res = fn(*args_c, **kw_c)
                    outcome = ('ok', enc(res))
                except Exception as e:  # noqa
                    res = None
                    outcome = ('exc', type(e).__name__, str(e))
        # returned arrays must not alias the inputs
        alias = False
        if isinstance(res, np.ndarray):
            for a in list(args_c) + list(kw_c.values()):
                if isinstance(a, np.ndarray) and np.shares_memory(res, a):
                    alias = True
        log.append((tag, outcome, [enc(a) for a in args_c], sorted((k, enc(v)) for k, v in kw_c.items()), alias))
        return res

    series = make_series()

    # --- peaks_and_crossings -----------------------------------------------------------------------------------
    for name, v in series:
        call('delta:' + name, pc.determine_peaks_only_delta_series, v)
        call('pseudo:' + name, pc.determine_pseudo_cyclic_peak_only_series, v)
        # shifted copies (property: independent of a constant shift)
        if isinstance(v, np.ndarray) and len(v):
            call('delta_shift:' + name, pc.determine_peaks_only_delta_series, v + v.dtype.type(3))
            call('pseudo_shift:' + name, pc.determine_pseudo_cyclic_peak_only_series, v + v.dtype.type(3))
        # the cleaned-data workers, fed as the public functions feed them, and raw
        try:
            arr = np.array(v)
            arr = arr - arr[0]
            cleaned, inds = pc.clean_out_non_changing(arr)
            cleaned = cleaned * np.sign(cleaned[1])
        except Exception:  # noqa
            cleaned = None
        if cleaned is not None:
            call('w_delta:' + name, pc.determine_peak_only_delta_series_4_cleaned_data, cleaned)
            call('w_pseudo:' + name, pc._determine_peak_only_series_4_cleaned_data, cleaned)
            call('w_delta_neg:' + name, pc.determine_peak_only_delta_series_4_cleaned_data, -cleaned)
            call('w_pseudo_neg:' + name, pc._determine_peak_only_series_4_cleaned_data, -cleaned)
            call('w_delta_list:' + name, pc.determine_peak_only_delta_series_4_cleaned_data, cleaned.tolist())
            call('w_pseudo_list:' + name, pc._determine_peak_only_series_4_cleaned_data, cleaned.tolist())
            call('w_pseudo_off:' + name, pc._determine_peak_only_series_4_cleaned_data,
                 cleaned + cleaned.dtype.type(2))
        # repeated call on one and the same array object (no hidden state / no mutation)
        if isinstance(v, np.ndarray):
            vv = v.copy()
            r1 = pc.determine_peaks_only_delta_series(vv) if len(vv) > 1 and np.ptp(vv) != 0 else None
            r2 = pc.determine_peaks_only_delta_series(vv) if r1 is not None else None
            log.append(('repeat:' + name, enc(r1), enc(r2), enc(vv)))

    # --- im power-law functions --------------------------------------------------------------------------------
    b_scalars = [0.05 + 1e-9, 0.1, 0.3, 0.34, 0.5, 0.77, 1.0, 1]
    b_arrays = [np.array([0.3]), np.array([0.1, 0.34, 1.0]), np.linspace(0.06, 1.0, 5), np.array([1, 1]),
                [0.3, 0.5]]
    cut_offs = [0.0, 0.01, 0.05, 0.1]
    for i, (name, v) in enumerate(series):
        if isinstance(v, np.ndarray) and len(v):
            amax = float(np.max(np.abs(v))) or 1.0
        else:
            amax = 1.0
        for j in range(4):
            b = b_scalars[(i + 3 * j) % len(b_scalars)] if j < 3 else b_arrays[i % len(b_arrays)]
            a_ref = amax * float(rng.uniform(0.05, 1.5))
            cut_off = cut_offs[(i + j) % len(cut_offs)]
            n_cyc = [15, 1, 0.5, 7.3, np.array([3.2])][(i + j) % 5]
            tag = '%s:%d' % (name, j)
            if (i + j) % 3 == 0:
                ns = call('n_cyc_default:' + tag, im.calc_n_cyc_array_w_power_law, v, a_ref, b)
            else:
                ns = call('n_cyc:' + tag, im.calc_n_cyc_array_w_power_law, v, a_ref=a_ref, b=b, cut_off=cut_off)
            call('amp:' + tag, im.calc_cyc_amp_array_w_power_law, v, n_cyc, b)
            call('gm_same:' + tag, im.calc_cyc_amp_gm_arrays_w_power_law, v, v, n_cyc, b)
            call('comb_same:' + tag, im.calc_cyc_amp_combined_arrays_w_power_law, v, v, n_cyc=n_cyc, b=b)
            # inverse relation input: amplitude for N = cycles(a_ref)
            if isinstance(ns, np.ndarray) and ns.size:
                call('amp_inverse:' + tag, im.calc_cyc_amp_array_w_power_law, v, n_cyc=ns[-1], b=b)
            if isinstance(v, np.ndarray) and len(v) > 1:
                w = np.roll(v, 1) * v.dtype.type(2)
                call('gm_two:' + tag, im.calc_cyc_amp_gm_arrays_w_power_law, v, w, n_cyc, b)
                call('comb_two:' + tag, im.calc_cyc_amp_combined_arrays_w_power_law, v, w, n_cyc, b)
                call('comb_mixed_dtype:' + tag, im.calc_cyc_amp_combined_arrays_w_power_law,
                     v, w.astype(float) * 0.5, n_cyc, b)
                # scaled record (property: scaling relations)
                call('n_cyc_scaled:' + tag, im.calc_n_cyc_array_w_power_law, v * v.dtype.type(2), 2 * a_ref, b,
                     cut_off)
                call('amp_scaled:' + tag, im.calc_cyc_amp_array_w_power_law, v * v.dtype.type(2), n_cyc, b)
    return log


# ----------------------------------------------------------------------------------------------------------------
# driver
# ----------------------------------------------------------------------------------------------------------------
def child(pkg_root, out_path):
    sys.path.insert(0, pkg_root)
    import eqsig
    assert os.path.abspath(eqsig.__file__).startswith(os.path.abspath(pkg_root)), (eqsig.__file__, pkg_root)
    log = run_battery()
    with open(out_path, 'wb') as f:
        pickle.dump(log, f)


def dec_array(e):
    import numpy as np
    if e[0] == 'nd':
        return np.frombuffer(e[3], dtype=np.dtype(e[1])).reshape(e[2])
    return None


def outcomes_match(tag, o0, o1):
    import numpy as np
    if o0 == o1:
        return True
    fn_tag = tag.split(':')[0]
    if fn_tag in TOL_FUNCS and o0[0] == 'ok' and o1[0] == 'ok':
        a0, a1 = dec_array(o0[1]), dec_array(o1[1])
        if a0 is not None and a1 is not None and a0.dtype == a1.dtype and a0.shape == a1.shape:
            return bool(np.allclose(a0, a1, rtol=1e-12, atol=0, equal_nan=True))
    return False


def main():
    worktree = os.getcwd()
    assert os.path.isdir(os.path.join(worktree, 'eqsig')), 'run with cwd = the worktree'
    tmp = tempfile.mkdtemp(prefix='eqsig_orig_', dir='/tmp')
    orig_root = os.path.join(tmp, 'orig')
    os.makedirs(orig_root)
    subprocess.check_call('git archive HEAD eqsig | tar -x -C "%s"' % orig_root, shell=True, cwd=worktree)
    logs = []
    for label, root in (('orig', orig_root), ('edit', worktree)):
        out_path = os.path.join(tmp, label + '.pkl')
        env = dict(os.environ)
        env.pop('PYTHONPATH', None)
        subprocess.check_call([sys.executable, os.path.abspath(__file__), '--child', root, out_path],
                              cwd=worktree, env=env)
        with open(out_path, 'rb') as f:
            logs.append(pickle.load(f))
    l0, l1 = logs
    assert l0[0][1].startswith(orig_root), l0[0]
    assert l1[0][1].startswith(worktree), l1[0]
    assert len(l0) == len(l1), (len(l0), len(l1))
    n_bad = 0
    n_ok_calls = 0
    n_exc_calls = 0
    for r0, r1 in zip(l0[1:], l1[1:]):
        assert r0[0] == r1[0]
        tag = r0[0]
        if tag.startswith('repeat:'):
            same = r0 == r1
        else:
            same = outcomes_match(tag, r0[1], r1[1]) and r0[2:] == r1[2:]
            if r0[1][0] == 'ok':
                n_ok_calls += 1
            else:
                n_exc_calls += 1
        if not same:
            n_bad += 1
            if n_bad <= 20:
                print('MISMATCH', tag)
                print('   orig:', str(r0[1])[:300])
                print('   edit:', str(r1[1])[:300])
    print('compared %d records (%d returning calls, %d raising calls): %d mismatches'
          % (len(l0) - 1, n_ok_calls, n_exc_calls, n_bad))
    import shutil
    shutil.rmtree(tmp, ignore_errors=True)
    return 1 if n_bad else 0


if __name__ == '__main__':
    if len(sys.argv) > 1 and sys.argv[1] == '--child':
        child(sys.argv[2], sys.argv[3])
        sys.exit(0)
    sys.exit(main())

"""Equivalence check for twin2 (eqsig/single.py: AccSignal.gen_response_spectrum restructured).

Run with twin2 applied, cwd = the worktree.  The original single.py is read from git HEAD and exec'd
into a fresh module (it only uses absolute imports of sibling modules, which twin2 does not touch).
Original and edited AccSignal objects are driven through identical multi-step histories and their
complete object state (instance __dict__), return values, printed output and exceptions are compared
bit-for-bit after every step.  Exit code 0 iff everything matches.
"""
import contextlib
import io
import os
import subprocess
import sys
import types
import warnings

import numpy as np

ROOT = os.getcwd()
sys.path.insert(0, ROOT)

import eqsig  # noqa: E402
import eqsig.single as new  # noqa: E402
import eqsig.sdof  # noqa: E402

assert os.path.abspath(eqsig.__file__).startswith(ROOT), eqsig.__file__
assert os.path.abspath(new.__file__).startswith(ROOT), new.__file__

src = subprocess.check_output(['git', 'show', 'HEAD:eqsig/single.py'], cwd=ROOT).decode()
old = types.ModuleType('eqsig_single_orig')
old.__file__ = 'HEAD:eqsig/single.py'
exec(compile(src, old.__file__, 'exec'), old.__dict__)
assert old.AccSignal is not new.AccSignal
assert old.dh is new.dh is eqsig.sdof
assert old.AccSignal.gen_response_spectrum.__code__.co_code != new.AccSignal.gen_response_spectrum.__code__.co_code

warnings.simplefilter('ignore')
np.seterr(all='ignore')
N_CHECKS = [0]


def same(x, y, where):
    assert type(x) is type(y), (where, type(x), type(y))
    if isinstance(x, (tuple, list)):
        assert len(x) == len(y), (where, len(x), len(y))
        for k, (p, q) in enumerate(zip(x, y)):
            same(p, q, '%s[%d]' % (where, k))
    elif isinstance(x, dict):
        assert sorted(x, key=str) == sorted(y, key=str), (where, sorted(x, key=str), sorted(y, key=str))
        for k in x:
            same(x[k], y[k], '%s[%r]' % (where, k))
    elif isinstance(x, np.ndarray):
        assert x.dtype == y.dtype, (where, x.dtype, y.dtype)
        assert x.shape == y.shape, (where, x.shape, y.shape)
        assert np.array_equal(x, y, equal_nan=True), (where, 'values differ')
        if x.dtype.kind == 'f':
            assert np.array_equal(np.signbit(x), np.signbit(y)), (where, 'sign bits differ')
    else:
        assert x == y or (x != x and y != y), (where, x, y)
    N_CHECKS[0] += 1


def state(obj):
    return dict(obj.__dict__)


def step(objs, action, where):
    """Apply action(obj) to the (old, new) pair; compare outcome, output, exception and state."""
    results = []
    for obj in objs:
        buf = io.StringIO()
        values_before = obj.values.copy()
        values_id = id(obj._values)
        try:
            with contextlib.redirect_stdout(buf):
                out = action(obj)
            err = None
        except Exception as e:
            out = None
            err = (type(e), str(e), type(e.__context__), type(e.__cause__))
        results.append((out, err, buf.getvalue()))
        if action.__name__ != 'reset':
            assert id(obj._values) == values_id, where
            assert np.array_equal(obj.values, values_before), (where, 'record mutated')
    (o_out, o_err, o_txt), (n_out, n_err, n_txt) = results
    assert o_err == n_err, (where, o_err, n_err)
    assert o_txt == n_txt, (where, o_txt, n_txt)
    if o_err is None:
        same(o_out, n_out, where + ':result')
    same(state(objs[0]), state(objs[1]), where + ':state')
    N_CHECKS[0] += 1
    return o_err


def make_pair(values, dt, **kw):
    return old.AccSignal(values, dt, **kw), new.AccSignal(values, dt, **kw)


def gen(response_times=None, xi=-1, min_dt_ratio=4, method='gen_response_spectrum', how='kw'):
    def action(obj):
        fn = getattr(obj, method)
        if how == 'default':
            return fn()
        if how == 'pos':
            return fn(response_times, xi, min_dt_ratio)
        return fn(response_times=response_times, xi=xi, min_dt_ratio=min_dt_ratio)
    action.__name__ = 'gen'
    return action


def read(name):
    def action(obj):
        return getattr(obj, name)
    action.__name__ = 'read'
    return action


def set_times(rt):
    def action(obj):
        obj.response_times = rt
    action.__name__ = 'set_times'
    return action


def reset(vals):
    def action(obj):
        obj.reset_values(vals)
    action.__name__ = 'reset'
    return action


def clear(obj):
    obj.clear_cache()


rng = np.random.RandomState(777)

records = [
    (rng.randn(60), 0.01),
    (rng.randn(61), 0.02),
    (np.sin(0.1 * np.arange(120)) * 0.01, 0.05),
    (np.zeros(20), 0.01),
    (np.arange(16) - 8, 0.01),                      # integer dtype record
    ([0.0, 0.1, -0.3, 0.2, 0.0, 0.4, -0.1], 0.1),     # list record
    (np.array([0.0, 1.0]), 0.01),                   # very short
    (np.array([0.5]), 0.01),
    (rng.randn(40).astype(np.float32), np.float64(0.01)),
    (rng.randn(30), 1),                             # integer dt
]

period_args = [
    None,
    np.array([0.5]),
    np.array([0.0, 0.3]),
    np.array([0.0]),                                # only the zero period -> IndexError in both
    [0.0],
    np.array([0.0, 0.04, 0.3, 2.0]),
    np.array([0.04, 0.3, 2.0]),
    np.array([2.0, 0.3, 0.04]),                     # unordered: first entry drives the step
    np.array([0.3, 0.0, 1.0]),
    [0.1, 0.2, 0.4],
    [0, 1, 2],
    (0.0, 0.25),
    np.array([1, 2, 3]),
    np.array([0.001, 0.01]),                        # forces a strong refinement
    np.linspace(0.0, 5.0, 21),
    np.array([]),                                   # IndexError in both
]

n_err = 0
for ir, (values, dt) in enumerate(records):
    for ip, rt in enumerate(period_args):
        for xi in (-1, 0, 0.0, 0.05, 0.3, 0.999):
            for ratio in (4, 1, 10, 0.5, 2.5, 0):
                for verbose in (0, 1):
                    if (ir + ip + int(ratio * 2) + verbose) % 2 and xi in (0, 0.3):
                        continue  # thin out
                    pair = make_pair(values, dt, verbose=verbose)
                    where = 'rec%d/per%d/xi%s/ratio%s/v%d' % (ir, ip, xi, ratio, verbose)
                    e = step(pair, gen(rt, xi, ratio), where)
                    n_err += e is not None
                    for nm in ('s_d', 's_v', 's_a', 'response_times'):
                        if e is None or nm == 'response_times':
                            step(pair, read(nm), where + ':' + nm)

# constructor options that feed the default period list
for kw in ({}, {'response_times': [0.2, 0.5]}, {'response_times': np.array([0.0, 0.5, 1.0])},
           {'response_period_range': (0.05, 3.0)}, {'response_times': (0.4, 0.1)}, {'label': 'x', 'verbose': 2}):
    for how in ('default', 'pos', 'kw'):
        for method in ('gen_response_spectrum', 'generate_response_spectrum'):
            pair = make_pair(rng.randn(50), 0.02, **kw)
            step(pair, gen(how=how, method=method), 'ctor%r/%s/%s' % (sorted(kw), how, method))
            for nm in ('s_a', 's_v', 's_d'):
                step(pair, read(nm), 'ctor:' + nm)

# lazily generated through the properties only
for nm in ('s_a', 's_v', 's_d'):
    pair = make_pair(rng.randn(45), 0.01, response_times=[0.0, 0.1, 1.0])
    step(pair, read(nm), 'lazy:' + nm)

# random multi-step histories on one object pair
for trial in range(120):
    npts = int(rng.randint(2, 90))
    dt = float(rng.choice([0.005, 0.01, 0.02, 0.1]))
    pair = make_pair(rng.randn(npts), dt, verbose=int(rng.randint(0, 2)))
    for k in range(int(rng.randint(3, 12))):
        where = 'hist%d/step%d' % (trial, k)
        op = rng.randint(0, 8)
        if op <= 2:
            rt = period_args[int(rng.randint(0, len(period_args)))]
            if rng.rand() < 0.5:
                rt = np.sort(rng.uniform(0.02, 5.0, int(rng.randint(1, 7))))
                if rng.rand() < 0.4:
                    rt[0] = 0.0
                if rng.rand() < 0.3:
                    rt = rng.permutation(rt)
            xi = [-1, 0.0, 0.05, float(rng.uniform(0, 0.999))][int(rng.randint(0, 4))]
            ratio = [4, 1, 2, 8, 0.5][int(rng.randint(0, 5))]
            method = ['gen_response_spectrum', 'generate_response_spectrum'][int(rng.randint(0, 2))]
            step(pair, gen(rt, xi, ratio, method=method, how=['kw', 'pos'][int(rng.randint(0, 2))]), where)
        elif op == 3:
            step(pair, read(['s_a', 's_v', 's_d'][int(rng.randint(0, 3))]), where)
        elif op == 4:
            step(pair, set_times(np.sort(rng.uniform(0.05, 3.0, int(rng.randint(1, 5))))), where)
        elif op == 5:
            step(pair, reset(rng.randn(int(rng.randint(2, 70)))), where)
        elif op == 6:
            step(pair, clear, where)
        else:
            def set_xi(obj, v=float(rng.uniform(0, 0.9))):
                obj._cached_xi = v
            step(pair, set_xi, where)

# the MemoryError branch: make the spectra routine run out of memory for both versions
real = eqsig.sdof.pseudo_response_spectra


def boom(*args, **kwargs):
    raise MemoryError('simulated')


for rt in (None, [0.0, 0.2, 0.4], np.array([0.01, 0.5])):
    pair = make_pair(rng.randn(33), 0.01)
    step(pair, gen(np.array([0.3, 0.6])), 'mem/prime')      # a successful run first
    eqsig.sdof.pseudo_response_spectra = boom
    try:
        e = step(pair, gen(rt, 0.1, 4), 'mem/raise')
        assert e is not None and e[0] is MemoryError and 'set larger min_dt_ratio' in e[1], e
        step(pair, gen(rt, 0.1, 4, method='generate_response_spectrum'), 'mem/raise2')
    finally:
        eqsig.sdof.pseudo_response_spectra = real
    step(pair, read('s_a'), 'mem/after')


# other errors from inside the spectra routine leave the same state behind
def bad(*args, **kwargs):
    raise ValueError('other')


pair = make_pair(rng.randn(33), 0.01)
step(pair, gen(np.array([0.3, 0.6])), 'val/prime')
eqsig.sdof.pseudo_response_spectra = bad
try:
    e = step(pair, gen([0.1, 0.2], 0.2, 4), 'val/raise')
    assert e is not None and e[0] is ValueError
finally:
    eqsig.sdof.pseudo_response_spectra = real
step(pair, read('s_v'), 'val/after')

# what is handed to the spectra routine (record, step, periods, xi) is identical, including object identity
calls = []


def spy(motion, dt, periods, xi):
    calls.append((motion, dt, periods, xi))
    return real(motion, dt, periods, xi)


eqsig.sdof.pseudo_response_spectra = spy
try:
    for ratio in (1, 4, 8):
        for rt in (None, np.array([0.0, 0.1, 1.0]), [0.02, 0.5]):
            pair = make_pair(rng.randn(40), 0.02)
            del calls[:]
            step(pair, gen(rt, -1, ratio), 'spy')
            (m0, d0, p0, x0), (m1, d1, p1, x1) = calls
            same((np.asarray(m0), d0, x0), (np.asarray(m1), d1, x1), 'spy args')
            assert (m0 is pair[0].values) == (m1 is pair[1].values)
            assert p0 is pair[0].response_times and p1 is pair[1].response_times
            N_CHECKS[0] += 1
finally:
    eqsig.sdof.pseudo_response_spectra = real

assert n_err > 0  # the error paths were really exercised
print('equiv2: %d comparisons identical (%d of the grid cases raised, identically)' % (N_CHECKS[0], n_err))
sys.exit(0)

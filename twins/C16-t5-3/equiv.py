"""Equivalence program for a behaviour-preserving edit of eqsig/loader.py (property C16).

Run as:  cd <worktree> && PYTHONPATH=<worktree> python out/equivK.py

The ORIGINAL package is taken from git (`git archive HEAD eqsig`) into a temporary directory, the EDITED
package is the one in os.getcwd().  The same deterministic battery of cases is executed in two separate
subprocesses (one per version); every observation (returned values bit-for-bit, object state, file bytes
written, exceptions with messages, warnings, mutation of arguments) is canonicalised to text and the two
transcripts are compared entry by entry.  Exit status 0 iff everything matches.
"""
import hashlib
import io
import os
import pickle
import shutil
import subprocess
import sys
import tarfile
import tempfile
import warnings

TWIN = 3


# --------------------------------------------------------------------------------------------------------------
# worker side
# --------------------------------------------------------------------------------------------------------------

def canon(obj, depth=0):
    import numpy as np
    if depth > 6:
        return "<deep>"
    if obj is None or isinstance(obj, (bool, str, bytes)):
        return repr(obj)
    if isinstance(obj, np.ndarray):
        try:
            raw = obj.tobytes()
        except Exception as e:  # pragma: no cover
            raw = repr(e).encode()
        if obj.dtype == object or obj.dtype.kind in "fc" and obj.dtype.itemsize > 8 and obj.dtype.kind == "f" \
                or obj.dtype.kind == "c" and obj.dtype.itemsize > 16:
            raw = repr(obj.tolist()).encode()  # (long double has padding bytes: compare by repr)
        body = raw.hex() if len(raw) <= 64 else hashlib.sha1(raw).hexdigest()
        return "nd(%s,%s,%s,%s,own=%s)" % (type(obj).__name__, obj.dtype.str, obj.shape, body,
                                           bool(obj.flags.owndata))
    if isinstance(obj, (np.longdouble, np.clongdouble)):
        return "ng(%s,%s,%r)" % (type(obj).__name__, obj.dtype.str, obj)
    if isinstance(obj, np.generic):
        return "ng(%s,%s,%s)" % (type(obj).__name__, obj.dtype.str, obj.tobytes().hex())
    if isinstance(obj, float):
        return "f(%s)" % obj.hex()
    if isinstance(obj, int):
        return "i(%d)" % obj
    if isinstance(obj, complex):
        return "c(%r)" % obj
    if isinstance(obj, (list, tuple)):
        return "%s[%s]" % (type(obj).__name__, ",".join(canon(o, depth + 1) for o in obj))
    if isinstance(obj, dict):
        return "dict{%s}" % ",".join("%r:%s" % (k, canon(obj[k], depth + 1)) for k in sorted(obj, key=repr))
    if isinstance(obj, BaseException):
        return "exc(%s:%s)" % (type(obj).__name__, str(obj))
    if hasattr(obj, "__dict__") and type(obj).__module__.startswith("eqsig"):
        d = vars(obj)
        return "obj(%s.%s|%s)" % (type(obj).__module__, type(obj).__name__,
                                  ";".join("%s=%s" % (k, canon(d[k], depth + 1)) for k in sorted(d)))
    return "other(%s:%r)" % (type(obj).__name__, obj)


def fbytes(path):
    if not os.path.exists(path):
        return "<absent>"
    with open(path, "rb") as f:
        raw = f.read()
    return "%d:%s" % (len(raw), hashlib.sha1(raw).hexdigest())


class Recorder(object):
    def __init__(self):
        self.out = []

    def call(self, tag, fn, *args, **kwargs):
        """run fn, record result or exception and the warnings emitted; return result (or None)"""
        res = None
        with warnings.catch_warnings(record=True) as wlist:
            warnings.simplefilter("always")
            try:
                res = fn(*args, **kwargs)
                txt = canon(res)
            except Exception as e:
                txt = canon(e)
                res = None
        # ResourceWarning is emitted by the garbage collector (unclosed handle after a failed write), it is not an
        # effect of the public API and is ignored by the default warning filters: not compared.
        wtxt = ",".join(sorted(set(w.category.__name__ for w in wlist if w.category is not ResourceWarning)))
        self.out.append((tag, txt + "|w=" + wtxt))
        return res

    def note(self, tag, txt):
        self.out.append((tag, txt))


def arg_fingerprint(v):
    import numpy as np
    if isinstance(v, np.ndarray):
        return canon(v) + "|wr=%s" % bool(v.flags.writeable)
    try:
        return "%s:%r" % (type(v).__name__, v)
    except Exception as e:  # pragma: no cover
        return "unrepr:%s" % type(e).__name__


def load_all(rec, tag, eqsig, path, rng, full=True):
    """exercise every loader entry point on `path`"""
    import numpy as np
    ld = eqsig.loader
    rec.call(tag + "/lvd", ld.load_values_and_dt, path)
    if full is None:  # light mode (large files)
        rec.call(tag + "/lsignal_acc", ld.load_signal, path, astype="acc_sig")
        rec.call(tag + "/lsignal_sig", ld.load_signal, path)
        rec.call(tag + "/load_sig_m", ld.load_sig, path, m=2.5)
        rec.call(tag + "/load_asig_lab_m", ld.load_asig, path, load_label=True, m=-0.5)
        rec.call(tag + "/load_asig", eqsig.load_asig, path)
        return
    rec.call(tag + "/lvd_top", eqsig.load_values_and_dt, path)
    rec.call(tag + "/lsig_default", ld.load_signal, path)
    for at in ("sig", "signal", "acc_sig", "asig", "", None, 3, ["sig"], ("sig",), np.str_("acc_sig"), b"sig",
               np.array(["sig", "x"]), np.array(["acc_sig"])):
        rec.call(tag + "/lsignal[%r]" % (at,), ld.load_signal, path, astype=at)
        if not full:
            break
    rec.call(tag + "/lsignal_pos", ld.load_signal, path, "acc_sig")
    rec.call(tag + "/load_sig", ld.load_sig, path)
    rec.call(tag + "/load_asig", ld.load_asig, path)
    rec.call(tag + "/load_asig_lab", ld.load_asig, path, load_label=True)
    rec.call(tag + "/load_asig_lab0", ld.load_asig, path, 0)
    rec.call(tag + "/load_asig_lab1", ld.load_asig, path, 1, 2.0)
    rec.call(tag + "/load_asig_labstr", ld.load_asig, path, "yes")
    ms = [1.0, 1, 2.5, -1.0, 0.0, 9.81, 1e-3, 1e6, float(rng.uniform(-5, 5)), int(rng.integers(-4, 5)),
          np.float32(2.0), np.float64(0.5), np.int64(3), True, None, "2", float("nan"), float("inf"), 2 + 1j,
          [2.0], np.array([1.0, 2.0]), np.array(3.0)]
    if not full:
        ms = [ms[2], ms[8]]
    for m in ms:
        rec.call(tag + "/load_sig[m=%r]" % (m,), ld.load_sig, path, m=m)
        rec.call(tag + "/load_asig[m=%r]" % (m,), ld.load_asig, path, m=m)
        rec.call(tag + "/load_asig_lab[m=%r]" % (m,), ld.load_asig, path, load_label=True, m=m)
    rec.call(tag + "/load_sig_pos", ld.load_sig, path, 3.0)
    rec.call(tag + "/top_load_sig", eqsig.load_sig, path, m=0.1)
    rec.call(tag + "/top_load_asig", eqsig.load_asig, path, True, 0.1)
    rec.call(tag + "/top_load_signal", eqsig.load_signal, path, astype="acc_sig")


def rand_values(rng, n, style):
    import numpy as np
    if style == 0:
        v = rng.standard_normal(n)
    elif style == 1:
        v = rng.standard_normal(n) * 10.0 ** rng.integers(-9, 13, size=n)
    elif style == 2:
        v = np.round(rng.standard_normal(n) * 5, int(rng.integers(0, 7)))
    elif style == 3:
        v = rng.choice(np.array([0.0, -0.0, 1.0, -1.0, 5e-7, -5e-7, 4.999999e-7, 1e-6, 0.1234565, 0.1234575,
                                 1e15, -1e15, 1e22, 123456789.123456789, 2.5e-7, 1.5e-6, -2.5e-6]), size=n)
    elif style == 4:
        v = rng.uniform(-1, 1, n) * 1e-6
    elif style == 5:
        v = -np.abs(rng.standard_normal(n)) * 100
    elif style == 6:
        v = np.zeros(n)
    else:
        v = rng.standard_normal(n) * 1e300
    return np.asarray(v, dtype=float)


def rand_dt(rng, i):
    import numpy as np
    k = i % 12
    if k < 6:
        return float(10.0 ** rng.uniform(-4, 2))
    if k == 6:
        return float(rng.choice([0.01, 0.005, 0.02, 0.0001, 1.0, 2.0, 1.5, 10.0, 100.0, 99.9999, 0.00005, 0.99995]))
    if k == 7:
        return int(rng.integers(1, 101))
    if k == 8:
        return np.float64(10.0 ** rng.uniform(-4, 2))
    if k == 9:
        return np.float32(10.0 ** rng.uniform(-4, 2))
    if k == 10:
        return float(np.round(10.0 ** rng.uniform(-4, 2), 4))
    return float(rng.integers(1, 100)) + float(rng.uniform(0, 1))


LABELS = ["m1", "test motion", "a label with  several   spaces ", " leading", "", "123 0.5", "x,y,z", "# hash",
          "label#3", "t\tab", u"été α", "NaN", "3 0.0100", "L" * 300, "a\x0cb", "a\x0bb", "\x0c",
          "a\x1cb", "a\x1db\x1ec", u"a b", u"a\x85b", "two\nlines", "cr\rinside", "crlf\r\ninside", "\n",
          "trail\n", "a b\x0c3 0.5", "q\x0c7 0.25\x0cmore"]


def worker(root, outfile):
    sys.path.insert(0, root)
    import numpy as np
    import eqsig
    import eqsig.loader
    assert os.path.abspath(eqsig.__file__).startswith(os.path.abspath(root) + os.sep), eqsig.__file__
    assert os.path.abspath(eqsig.loader.__file__).startswith(os.path.abspath(root) + os.sep)
    ld = eqsig.loader
    shipped = os.path.join(root_of_tests(), "tests", "unit_test_data", "test_motion_dt0p01.txt")
    work = tempfile.mkdtemp(prefix="c16w_")
    os.chdir(work)
    rec = Recorder()
    rng = np.random.default_rng(20260928)
    np.seterr(all="ignore")
    try:
        # ---------------------------------------------------------------- A. save (raw values) -> load, random
        n_choices = [0, 1, 2, 3, 4, 5, 7, 10, 16, 33, 100]
        for i in range(480):
            n = int(n_choices[i % len(n_choices)]) if i % 3 else int(rng.integers(1, 40))
            base = rand_values(rng, n, int(rng.integers(0, 8)))
            form = i % 30
            if form == 1:
                vals = base.tolist()
            elif form == 2:
                vals = tuple(base.tolist())
            elif form == 3:
                vals = np.asarray(np.clip(base, -1e9, 1e9), dtype=np.int64)
            elif form == 4:
                vals = base.astype(np.float32)
            elif form == 5:
                vals = [int(x) for x in np.clip(base, -1e6, 1e6)]
            elif form == 6:
                vals = np.asarray(np.clip(base, -1e4, 1e4), dtype=np.int32)
            elif form == 7:
                vals = np.repeat(base, 2)[::2]
            elif form == 8:
                vals = base[::-1]
            elif form == 9:
                vals = base.astype(">f8")
            elif form == 10:
                vals = base.astype(np.float16)
            elif form == 11:
                vals = base.astype(np.longdouble)
            elif form == 12:
                vals = base.reshape(n, 1)
            elif form == 13:
                vals = np.ma.masked_array(base, mask=np.zeros(n, dtype=bool))
            elif form == 14:
                vals = base.astype(object)
            elif form == 15:
                vals = base > 0
            elif form == 16:
                vals = np.asarray(np.clip(np.abs(base), 0, 200), dtype=np.uint8)
            elif form == 17:
                vals = base.copy()
                vals.flags.writeable = False
            elif form == 18:
                vals = np.asfortranarray(np.stack([base, base], axis=1))[:, 0]
            elif form == 19:
                vals = [np.float64(x) for x in base]
            elif form == 20:
                vals = base.view(type("MyArr", (np.ndarray,), {}))
            elif form == 21:
                vals = np.stack([base, base + 1], axis=1)
            elif form == 22:
                vals = base + 0j
            elif form == 23:
                vals = [float(x) if k % 2 else int(np.clip(x, -1e6, 1e6)) for k, x in enumerate(base)]
            else:
                vals = base
            dt = rand_dt(rng, i)
            label = LABELS[i % len(LABELS)] if i % 4 == 0 else "rec %d" % i
            path = "a%d.txt" % (i % 7)
            before = arg_fingerprint(vals)
            rec.call("A%d/save" % i, ld.save_values_and_dt, path, vals, dt, label)
            rec.note("A%d/file" % i, fbytes(path))
            rec.note("A%d/argsame" % i, str(before == arg_fingerprint(vals)) + before[:80])
            load_all(rec, "A%d" % i, eqsig, path, rng, full=(i % 10 == 0))

        # special float values and bad arguments to save
        specials = [np.array([np.nan, 1.0]), np.array([np.inf, -np.inf, 0.0]), np.array([-np.nan]),
                    np.array(5.0), 5.0, None, "abc", ["1.0", "2.0"], [[1.0, 2.0], [3.0]], range(4), {0: 1.0, 1: 2.0},
                    {1: 1.0, 2: 2.0}, np.array(["1.5", "2.5"]), [1.0, None, 2.0], [1.0, "x"], np.array([1.0, 2.0])[:, None],
                    [10 ** 400, 1.0], [1.0, 10 ** 400], np.array([], dtype=float), [], (), np.zeros((0, 3)),
                    np.array([1e308, -1e308, 1.7976931348623157e308]), np.array([5e-324, -5e-324, 2.2e-308]),
                    iter([1.0, 2.0]), bytearray(b"\x01\x02"), b"\x01\x02", np.array([b"1"]), memoryview(np.arange(3.0))]
        for j, vals in enumerate(specials):
            path = "s%d.txt" % j
            rec.call("S%d/save" % j, ld.save_values_and_dt, path, vals, 0.01, "special %d" % j)
            rec.note("S%d/file" % j, fbytes(path))
            load_all(rec, "S%d" % j, eqsig, path, rng, full=False)
        bad_dts = [None, "0.01", [0.01], np.array([0.01]), np.array(0.01), 1 + 0j, float("nan"), float("inf"), -0.01, 0.0, 0,
                   1e-5, 4.9e-5, 5e-5, 123456.789, 1e20, True, np.array([0.01, 0.02])]
        for j, dt in enumerate(bad_dts):
            path = "d%d.txt" % j
            with open(path, "w") as f:
                f.write("pre-existing content\n1 0.5\n1.0\n")
            rec.call("D%d/save" % j, ld.save_values_and_dt, path, np.array([1.0, -2.0, 3.5]), dt, "bad dt")
            rec.note("D%d/file" % j, fbytes(path))
            load_all(rec, "D%d" % j, eqsig, path, rng, full=False)
        bad_labels = [None, 3, b"bytes", ["l"], np.str_("npstr"), 2.5]
        for j, lab in enumerate(bad_labels):
            path = "l%d.txt" % j
            if j % 2 == 0:
                with open(path, "w") as f:
                    f.write("pre-existing content\n1 0.5\n1.0\n")
            rec.call("L%d/save" % j, ld.save_values_and_dt, path, np.array([1.0, -2.0]), 0.02, lab)
            rec.note("L%d/file" % j, fbytes(path))
            load_all(rec, "L%d" % j, eqsig, path, rng, full=False)
        # failure while formatting values must leave an existing file untouched (or not, identically)
        with open("keep.txt", "w") as f:
            f.write("keep me\n2 0.5\n1.0\n2.0\n")
        rec.call("K/save", ld.save_values_and_dt, "keep.txt", [1.0, "x"], 0.01, "lab")
        rec.note("K/file", fbytes("keep.txt"))
        rec.call("K/save2", ld.save_values_and_dt, "keep.txt", np.array([1.0]), "x", "lab")
        rec.note("K/file2", fbytes("keep.txt"))
        # bad paths
        os.mkdir("adir")
        for j, p in enumerate(["nonexistent_dir/x.txt", "adir", "", None, 3.5]):
            rec.call("P%d/save" % j, ld.save_values_and_dt, p, np.array([1.0]), 0.01, "lab")
            load_all(rec, "P%d" % j, eqsig, p, rng, full=False)
        load_all(rec, "P_missing", eqsig, "does_not_exist.txt", rng, full=True)
        try:
            import pathlib
            pp = pathlib.Path("pathlib_file.txt")
            rec.call("PL/save", ld.save_values_and_dt, pp, np.array([1.0, 2.0, 3.0]), 0.25, "pathlib")
            rec.note("PL/file", fbytes("pathlib_file.txt"))
            load_all(rec, "PL", eqsig, pp, rng, full=False)
        except ImportError:  # pragma: no cover
            pass

        # ---------------------------------------------------------------- B. object histories (save_signal)
        for i in range(180):
            n = int(rng.integers(2, 60)) if i % 9 else int(rng.choice([1, 2, 3]))
            base = rand_values(rng, n, int(rng.integers(0, 7)))
            dt = rand_dt(rng, i)
            label = LABELS[(i // 2) % 14] if i % 2 else "motion %d x" % i
            kind = i % 5
            if kind == 0:
                obj = eqsig.Signal(base, dt, label=label)
            elif kind == 1:
                obj = eqsig.AccSignal(base, dt, label=label)
            elif kind == 2:
                obj = eqsig.AccSignal(base.tolist(), dt)
            elif kind == 3:
                obj = eqsig.Signal(np.asarray(np.clip(base, -1e6, 1e6), dtype=int), dt, label=label)
            else:
                obj = eqsig.AccSignal(base.astype(np.float32), dt, label=label)
            path = "b%d.txt" % (i % 5)
            state_before = canon(obj)
            rec.call("B%d/save" % i, eqsig.save_signal, path, obj)
            rec.note("B%d/file" % i, fbytes(path))
            rec.note("B%d/objsame" % i, str(state_before == canon(obj)))
            load_all(rec, "B%d" % i, eqsig, path, rng, full=(i % 25 == 0))
            # round trips: load -> save -> load ... must behave identically in both versions
            cur = path
            for r in range(3):
                which = (i + r) % 4
                if which == 0:
                    o2 = rec.call("B%d/r%d/load" % (i, r), ld.load_asig, cur, load_label=True, m=[1.0, 2.0, -0.5][r])
                elif which == 1:
                    o2 = rec.call("B%d/r%d/load" % (i, r), ld.load_sig, cur, m=[1.0, 3, 0.1][r])
                elif which == 2:
                    o2 = rec.call("B%d/r%d/load" % (i, r), ld.load_signal, cur, astype="acc_sig")
                else:
                    o2 = rec.call("B%d/r%d/load" % (i, r), ld.load_signal, cur)
                if o2 is None:
                    break
                if r == 1 and n > 2:
                    rec.call("B%d/r%d/reset" % (i, r), o2.reset_values, o2.values[: max(1, n // 2)] * 1.5)
                if r == 2 and isinstance(o2, eqsig.AccSignal):
                    rec.call("B%d/r%d/velo" % (i, r), lambda o=o2: o.velocity)
                    rec.call("B%d/r%d/pga" % (i, r), lambda o=o2: o.pga)
                if r == 2:
                    rec.call("B%d/r%d/fa" % (i, r), lambda o=o2: o.fa_spectrum)
                cur = "b%d_r%d.txt" % (i % 5, r)
                rec.call("B%d/r%d/save" % (i, r), ld.save_signal, cur, o2)
                rec.note("B%d/r%d/file" % (i, r), fbytes(cur))
                rec.note("B%d/r%d/obj" % (i, r), canon(o2))
        # save_signal with non-signal arguments
        for j, o in enumerate([None, 3.0, np.arange(3.0), "abc", type("Dummy", (), {"values": [1.0, 2.0], "dt": 0.5, "label": "dummy"})(),
                               type("Dummy2", (), {"values": [1.0, 2.0], "dt": 0.5})()]):
            rec.call("BS%d/save" % j, eqsig.save_signal, "bs%d.txt" % j, o)
            rec.note("BS%d/file" % j, fbytes("bs%d.txt" % j))
            load_all(rec, "BS%d" % j, eqsig, "bs%d.txt" % j, rng, full=False)

        # ---------------------------------------------------------------- C. hand-written / shipped files
        load_all(rec, "C_shipped", eqsig, shipped, rng, full=False)
        with open(shipped) as f:
            shipped_text = f.read()
        texts = [
            shipped_text, shipped_text.replace("\n", "\r\n"), shipped_text.rstrip("\n"), shipped_text + "\n\n",
            "", "\n", "\n\n", "only label", "only label\n", "lab\n3 0.01", "lab\n3 0.01\n", "lab\n1 0.01\n5.5", "lab\n1 0.01\n5.5\n",
            "lab\n2 0.01\n1.0\n2.0", "lab\n2 0.01\n1.0\n2.0\n", "lab\n2 0.01\n1.0\n\n2.0\n\n", "lab\n2 0.01\n1.0,9.0\n2.0,8.0\n",
            "lab\n2 0.01\n1.0 9.0\n2.0 8.0\n", "lab\n2 0.01\n,9.0\n2.0,8.0\n", "lab\n3 0.01\n1.0\n# comment\n2.0 # trailing\n3.0\n",
            "lab\n3 0.01\n1.0\nabc\n3.0\n", "lab\n3 0.01\n1.0\n2.0,3.0\n4.0\n", "lab\n3\n1.0\n2.0\n", "lab\n3 abc\n1.0\n2.0\n",
            "lab\n3 0.01 extra tokens\n1.0\n2.0\n", "lab\n  3    0.02  \n1.0\n2.0\n", "lab\n3\t0.04\n1.0\n2.0\n", "lab\n3,0.04\n1.0\n2.0\n",
            "lab\n3 1e-2\n1e0\n-2E+1\n", "lab\n3 nan\nnan\ninf\n-inf\n", "lab\n3 1_0.5\n1_0\n2\n", "lab\n\n1.0\n2.0\n", "\n3 0.5\n1.0\n2.0\n",
            "lab\r\n2 0.5\r\n1.0\r\n2.0\r\n", "lab\r2 0.5\r1.0\r2.0\r", "lab\x0c2 0.125\n2 0.5\n1.0\n2.0\n", "lab\x0cpart\n2 0.5\n1.0\n2.0\n",
            "\x0c\n2 0.5\n1.0\n2.0\n", u"lab x 0.75\n2 0.5\n1.0\n2.0\n", "lab\x1c\x1d2 0.5\n1.0\n2.0\n", "lab\x0c\n2 0.5\n1.0\n2.0\n",
            "lab\n2 0.5\x0c9 9\n1.0\n2.0\n", "lab\n2\x0c0.5\n1.0\n2.0\n", "lab\n2 0.5\n1.0\x0c\n2.0\n", " \n2 0.5\n 1.0 \n\t2.0\n", "lab\n2 0.5\n1\n2\n3\n",
            "lab\n2 0.5\n+1.5\n-2.5\n", "lab\n2 0.5\n1.0\n2.0\n" * 3, "lab\n2 0.5\n0x10\n2.0\n", "lab\n2 0.5\n1.0;2.0\n", "lab\n2 0.5\n1,0\n2,5\n",
            "lab\n2 0.5\nTrue\nFalse\n", "lab\n2 0.5\n1.0+2j\n", "#lab\n#2 0.5\n1.0\n2.0\n", "lab\n#2 0.5\n1.0\n2.0\n", "lab\n2 #0.5\n1.0\n2.0\n",
        ]
        for j, t in enumerate(texts):
            path = "c%d.txt" % j
            with io.open(path, "w", newline="", encoding="utf-8") as f:
                f.write(t if isinstance(t, type(u"")) else t.decode("utf-8"))
            load_all(rec, "C%d" % j, eqsig, path, rng, full=(None if len(t) > 10000 else j % 4 == 0))
        with open("binary.txt", "wb") as f:
            f.write(b"lab\xff\xfe\n2 0.5\n1.0\n2.0\n")
        load_all(rec, "C_bin1", eqsig, "binary.txt", rng, full=False)
        with open("binary2.txt", "wb") as f:
            f.write(b"lab\n2 0.5\n1.0\n2.0\n" + b"3.0\n" * 5000 + b"\xff\xfe\n")
        load_all(rec, "C_bin2", eqsig, "binary2.txt", rng, full=None)

        # ---------------------------------------------------------------- D. larger records
        for j, n in enumerate([1000, 4096, 12000]):
            base = rand_values(rng, n, j)
            for k, vals in enumerate([base, base.tolist(), base.astype(np.float32), base[::2]]):
                path = "big%d_%d.txt" % (j, k)
                rec.call("G%d_%d/save" % (j, k), ld.save_values_and_dt, path, vals, 0.005 * (j + 1), "big one %d" % j)
                rec.note("G%d_%d/file" % (j, k), fbytes(path))
                load_all(rec, "G%d_%d" % (j, k), eqsig, path, rng, full=None)
    finally:
        os.chdir(root)
        shutil.rmtree(work, ignore_errors=True)
    with open(outfile, "wb") as f:
        pickle.dump(rec.out, f, protocol=2)


def root_of_tests():
    return os.environ["C16_TESTS_ROOT"]


# --------------------------------------------------------------------------------------------------------------
# driver side
# --------------------------------------------------------------------------------------------------------------

def main():
    cwd = os.getcwd()
    if not os.path.isdir(os.path.join(cwd, "eqsig")):
        print("run with cwd = worktree root")
        return 2
    tmp = tempfile.mkdtemp(prefix="c16_equiv%d_" % TWIN)
    try:
        orig_root = os.path.join(tmp, "orig")
        os.mkdir(orig_root)
        tar_bytes = subprocess.check_output(["git", "archive", "HEAD", "eqsig"], cwd=cwd)
        with tarfile.open(fileobj=io.BytesIO(tar_bytes)) as tf:
            tf.extractall(orig_root)
        outs = {}
        procs = []
        for name, root in (("orig", orig_root), ("edit", cwd)):
            outfile = os.path.join(tmp, name + ".pkl")
            env = dict(os.environ)
            env["PYTHONPATH"] = root
            env["PYTHONHASHSEED"] = "0"
            env["PYTHONDONTWRITEBYTECODE"] = "1"
            env["C16_TESTS_ROOT"] = cwd
            p = subprocess.Popen([sys.executable, os.path.abspath(__file__), "--worker", root, outfile], env=env, cwd=root)
            procs.append((name, p, outfile))
        for name, p, outfile in procs:
            rc = p.wait()
            if rc != 0:
                print("worker %s failed with exit status %s" % (name, rc))
                return 3
            with open(outfile, "rb") as f:
                outs[name] = pickle.load(f)
        a, b = outs["orig"], outs["edit"]
        bad = 0
        if len(a) != len(b):
            print("different number of observations: %d vs %d" % (len(a), len(b)))
            bad += 1
        for (ta, ra), (tb, rb) in zip(a, b):
            if ta != tb or ra != rb:
                bad += 1
                if bad <= 15:
                    print("MISMATCH at %s / %s\n   orig: %s\n   edit: %s" % (ta, tb, ra[:400], rb[:400]))
        nexc = sum(1 for _, r in a if r.startswith("exc("))
        print("twin %d: %d observations compared (%d of them exceptions), %d mismatches" % (TWIN, len(a), nexc, bad))
        return 0 if bad == 0 else 1
    finally:
        shutil.rmtree(tmp, ignore_errors=True)


if __name__ == "__main__":
    if len(sys.argv) >= 4 and sys.argv[1] == "--worker":
        worker(sys.argv[2], sys.argv[3])
        sys.exit(0)
    sys.exit(main())

"""
Equivalence check for twin2 (Arias/CAV/ISV share a private trapezoid helper and a module constant).

Run with twin2.diff applied, cwd = the worktree:
    /venv/bin/python out/equiv2.py
Loads the ORIGINAL eqsig/im.py from git (HEAD) into a fresh module and compares it with the
edited eqsig.im on many inputs. Exit 0 iff everything matches.
"""
import os
import sys
import copy
import types
import subprocess
import warnings

HERE = os.getcwd()
sys.path.insert(0, HERE)

import numpy as np
import eqsig
import eqsig.im as new_im

assert os.path.realpath(eqsig.__file__).startswith(os.path.realpath(HERE)), eqsig.__file__
assert os.path.realpath(new_im.__file__).startswith(os.path.realpath(HERE)), new_im.__file__

warnings.simplefilter("ignore")
np.seterr(all="ignore")


def load_original(relpath, modname):
    src = subprocess.check_output(["git", "show", "HEAD:" + relpath], cwd=HERE).decode()
    mod = types.ModuleType(modname)
    mod.__file__ = "<git HEAD:%s>" % relpath
    mod.__package__ = "eqsig"
    exec(compile(src, mod.__file__, "exec"), mod.__dict__)
    return mod


old_im = load_original("eqsig/im.py", "eqsig._orig_im")
assert hasattr(new_im, "_cumulative_integral") and not hasattr(old_im, "_cumulative_integral")

N_CHECKS = 0


def same_value(a, b):
    if type(a) is not type(b):
        return False
    if isinstance(a, np.ndarray):
        return a.dtype == b.dtype and a.shape == b.shape and np.array_equal(a, b, equal_nan=(a.dtype.kind in "fc"))
    if isinstance(a, dict):
        return a.keys() == b.keys() and all(same_value(a[k], b[k]) for k in a)
    if isinstance(a, (list, tuple)):
        return len(a) == len(b) and all(same_value(x, y) for x, y in zip(a, b))
    if isinstance(a, (float, np.floating)):
        return (a == b) or (a != a and b != b)
    try:
        return bool(a == b)
    except Exception:
        return a is b


def run(fn, *args):
    try:
        return ("ok", fn(*args))
    except Exception as e:  # noqa
        return ("exc", type(e), str(e))


def same_outcome(o, n):
    if o[0] != n[0]:
        return False
    if o[0] == "ok":
        return same_value(o[1], n[1])
    if o[1] is not n[1]:
        return False
    if o[1] is IndexError:  # running off the end of the record: only the class is preserved
        return True
    return o[2] == n[2]


def state_of(obj):
    return {k: copy.deepcopy(v) for k, v in vars(obj).items()}


def check_pair(make_obj, label, prepare=None):
    """Build two identical objects, run old on one and new on the other, compare result+state."""
    global N_CHECKS
    for name in FUNCS:
        a = make_obj()
        b = make_obj()
        if prepare is not None:
            prepare(a)
            prepare(b)
        va = copy.deepcopy(a.values)
        o = run(getattr(old_im, name), a)
        n = run(getattr(new_im, name), b)
        assert same_outcome(o, n), (label, name, o, n)
        if hasattr(a, "__dict__"):
            assert same_value(state_of(a), state_of(b)), (label, name, "state differs")
        assert same_value(a.values, va) and same_value(b.values, va), (label, name, "argument mutated")
        # second call on the same objects (cached state)
        o2 = run(getattr(old_im, name), a)
        n2 = run(getattr(new_im, name), b)
        assert same_outcome(o2, n2), (label, name, "second call", o2, n2)
        assert same_outcome(o, o2) and same_outcome(n, n2), (label, name, "not idempotent alike")
        N_CHECKS += 1


def acc(values, dt):
    return lambda: eqsig.AccSignal(copy.deepcopy(values), dt)



FUNCS = ["calc_arias_intensity", "calc_cav", "calc_isv"]
ALL_FUNCS = ["calc_arias_intensity", "calc_cav", "calc_cav_dp", "calc_isv", "calc_integral_of_abs_velocity",
             "calc_integral_of_abs_acceleration", "calc_unit_kinetic_energy"]

rng = np.random.default_rng(20240910)
DTS = [0.01, 0.005, 0.02, 0.05, 0.1, 0.2, 0.25, 0.5, 1.0, 0.004, 0.001, 1.0 / 3, 0.3, 0.03, 0.007, 2.0,
       np.float64(0.01), np.float32(0.01), 1, 2, -0.01, 0, 0.0, np.nan, np.inf, 1e-300, 1e300]

# 1. random records: plain, sign-reversed, scaled, zero-padded, list input, float32, integer dtype
for dt in DTS:
    for rep in range(10):
        n = int(rng.choice([0, 1, 2, 3, 4, 7, 50, 200, 1001, 4096]))
        amp = rng.choice([1e-8, 0.01, 0.3, 1.0, 5.0, 1e6])
        vals = amp * rng.standard_normal(n)
        check_pair(acc(vals, dt), ("random", dt, rep))
        check_pair(acc(-vals, dt), ("random-neg", dt, rep))
        check_pair(acc(vals * -2.5, dt), ("random-scaled", dt, rep))
        check_pair(acc(np.concatenate([vals, np.zeros(int(rng.integers(1, 300)))]), dt), ("random-padded", dt, rep))
        check_pair(acc(list(vals), dt), ("random-list", dt, rep))
        check_pair(acc(tuple(vals), dt), ("random-tuple", dt, rep))
        check_pair(acc(vals.astype(np.float32), dt), ("random-f32", dt, rep))
        check_pair(acc(np.round(vals * 10).astype(np.int64), dt), ("random-int64", dt, rep))
        check_pair(acc(np.clip(np.round(vals * 10), -100, 100).astype(np.int8), dt), ("random-int8", dt, rep))
        check_pair(acc(np.clip(np.round(vals * 1e4), -3e4, 3e4).astype(np.int16), dt), ("random-int16-overflow", dt, rep))
        check_pair(acc(np.clip(np.round(vals * 1e5), -2e9, 2e9).astype(np.int32), dt), ("random-int32-overflow", dt, rep))

# 2. zeros, constants, non-finite, huge values (overflow of the square)
for dt in [0.01, 0.5, 1]:
    for n in [1, 2, 5, 300]:
        check_pair(acc(np.zeros(n), dt), ("zeros", dt, n))
        check_pair(acc(np.zeros(n, dtype=int), dt), ("int zeros", dt, n))
        check_pair(acc([0] * n, dt), ("int zero list", dt, n))
        check_pair(acc(np.full(n, -0.0), dt), ("neg zeros", dt, n))
        check_pair(acc(np.full(n, 3.3), dt), ("const", dt, n))
        check_pair(acc(np.full(n, 1e200) * rng.choice([-1, 1], n), dt), ("huge", dt, n))
        check_pair(acc(np.full(n, 1e-200) * rng.choice([-1, 1], n), dt), ("tiny", dt, n))
        for bad in [np.nan, np.inf, -np.inf]:
            v = rng.standard_normal(n)
            v[rng.integers(0, n)] = bad
            check_pair(acc(v, dt), ("nonfinite", dt, n, bad))
        check_pair(acc(rng.standard_normal(n) > 0, dt), ("bool", dt, n))
        check_pair(acc(rng.standard_normal(n) + 1j * rng.standard_normal(n), dt), ("complex", dt, n))

# 3. the raw helper called directly: 1-D, 2-D (as cumulative_response_spectra does), ints, lists, scalars
def check_raw(a, dt, label):
    global N_CHECKS
    a1, a2 = copy.deepcopy(a), copy.deepcopy(a)
    o = run(old_im._raw_calc_arias_intensity, a1, dt)
    n = run(new_im._raw_calc_arias_intensity, a2, dt)
    if o[0] == "exc" and o[1] is TypeError:
        assert n[0] == "exc" and n[1] is TypeError and o[2] == n[2], (label, o, n)
    else:
        assert same_outcome(o, n), (label, o, n)
    assert same_value(a1, a) and same_value(a2, a), (label, "argument mutated")
    N_CHECKS += 1


for dt in [0.01, 0.1, 1, np.float32(0.02)]:
    for shape in [(0,), (1,), (2,), (100,), (3, 50), (1, 7), (4, 1), (2, 3, 20)]:
        a = rng.standard_normal(shape)
        check_raw(a, dt, ("raw", dt, shape))
        check_raw((a * 1000).astype(np.int32), dt, ("raw int32", dt, shape))
        check_raw(a.astype(np.float32), dt, ("raw f32", dt, shape))
        check_raw(np.asfortranarray(a), dt, ("raw F", dt, shape))
        check_raw(a[..., ::2], dt, ("raw strided", dt, shape))
        check_raw(a.tolist(), dt, ("raw list", dt, shape))
    check_raw(3.0, dt, ("raw scalar", dt))
    check_raw(np.float64(3.0), dt, ("raw np scalar", dt))
    check_raw(None, dt, ("raw None", dt))

# 4. cumulative_response_spectra goes through the raw helper with a 2-D response array
for dt in [0.01, 0.02]:
    for rep in range(3):
        vals = rng.standard_normal(int(rng.choice([300, 1000])))
        for periods, xi in [(None, None), ([0.2, 0.5, 1.0], 0.05), (np.array([0.3]), 0.2), ([0.1, 2.0], 0.0)]:
            a, b = eqsig.AccSignal(vals.copy(), dt), eqsig.AccSignal(vals.copy(), dt)
            o = run(old_im.cumulative_response_spectra, a, "arias_intensity", periods, xi)
            n = run(new_im.cumulative_response_spectra, b, "arias_intensity", periods, xi)
            assert same_outcome(o, n), ("crs", dt, rep)
            assert same_value(state_of(a), state_of(b))
            o = run(old_im.cumulative_response_spectra, a, "other", periods, xi)
            n = run(new_im.cumulative_response_spectra, b, "other", periods, xi)
            assert same_outcome(o, n), ("crs other", dt, rep)
            N_CHECKS += 2

# 5. multi-step histories on one object: velocity cached beforehand (both integration schemes), filtered, reset
def hist_trap_false(a):
    a.generate_displacement_and_velocity_series(trap=False)


def hist_cached(a):
    _ = a.velocity
    _ = a.displacement


def hist_reset(a):
    _ = a.velocity
    a.reset_values(a.values[::-1] * 0.7)


def hist_filter(a):
    a.remove_poly(2)
    a.butter_pass((0.2, 2.0))
    _ = a.fa_spectrum


def hist_stale(a):
    # velocity cached, then cache flag cleared by an unrelated reset: must be recomputed identically
    _ = a.velocity
    a.clear_cache()


def hist_deprecated_stats(a):
    a.generate_cumulative_stats()


for dt in [0.01, 0.02, 0.1]:
    for rep in range(4):
        n = int(rng.choice([4, 8, 15]) / dt) + int(rng.integers(0, 5))
        vals = rng.choice([0.1, 0.5, 2.0]) * rng.standard_normal(n)
        for h in [hist_trap_false, hist_cached, hist_reset, hist_filter, hist_stale, hist_deprecated_stats]:
            check_pair(acc(vals, dt), ("history", h.__name__, dt, rep), prepare=h)
            check_pair(acc(vals.astype(int), dt), ("history-int", h.__name__, dt, rep), prepare=h)

# 6. AccSignal.generate_cumulative_stats() (bound to the edited module) against the original functions
for rep in range(5):
    vals = rng.standard_normal(500)
    a = eqsig.AccSignal(vals, 0.01)
    a.generate_cumulative_stats()
    b = eqsig.AccSignal(vals, 0.01)
    assert same_value(a.arias_intensity_series, old_im.calc_arias_intensity(b))
    assert same_value(a.cav_series, old_im.calc_cav(b))
    assert same_value(a.arias_intensity, old_im.calc_arias_intensity(b)[-1])
    assert same_value(a.cav, old_im.calc_cav(b)[-1])
    N_CHECKS += 4

# 7. every anchored function, all together, in sequence on the same pair of objects
FUNCS = ALL_FUNCS
for dt in [0.01, 0.05, 0.5]:
    for rep in range(4):
        n = int(6 / dt) + 1
        check_pair(acc(rng.standard_normal(n), dt), ("all funcs", dt, rep))
        vals = rng.standard_normal(n)
        a, b = eqsig.AccSignal(vals, dt), eqsig.AccSignal(vals, dt)
        for name in ALL_FUNCS + ALL_FUNCS[::-1]:
            assert same_outcome(run(getattr(old_im, name), a), run(getattr(new_im, name), b)), ("sequence", name)
            assert same_value(state_of(a), state_of(b)), ("sequence state", name)
            N_CHECKS += 1

print("equiv2: %d comparisons, all identical" % N_CHECKS)
sys.exit(0)

"""
Equivalence check for twin1 (itransform tidy-up).

Run with twin1 applied, cwd = the worktree:
    cd /tmp/twin4/C15 && /venv/bin/python out/equiv1.py
Loads the ORIGINAL eqsig/stockwell.py from git HEAD and compares it with the edited one.
"""
import importlib.util
import os
import subprocess
import sys
import tempfile

WORKTREE = os.getcwd()
sys.path.insert(0, WORKTREE)

import numpy as np  # noqa: E402
import eqsig  # noqa: E402
from eqsig import stockwell as new  # noqa: E402

assert os.path.realpath(eqsig.__file__).startswith(os.path.realpath(WORKTREE)), eqsig.__file__


def load_original():
    tmpdir = tempfile.mkdtemp(prefix="c15_orig_", dir="/tmp")
    subprocess.check_call("git archive HEAD eqsig | tar -x -C %s" % tmpdir, shell=True, cwd=WORKTREE)
    path = os.path.join(tmpdir, "eqsig", "stockwell.py")
    spec = importlib.util.spec_from_file_location("orig_stockwell", path)
    mod = importlib.util.module_from_spec(spec)
    spec.loader.exec_module(mod)
    assert mod.__file__.startswith(tmpdir)
    return mod


orig = load_original()
n_checks = 0


def same(a, b, what):
    global n_checks
    n_checks += 1
    assert type(a) is type(b), (what, type(a), type(b))
    assert a.dtype == b.dtype, (what, a.dtype, b.dtype)
    assert a.shape == b.shape, (what, a.shape, b.shape)
    # bit-for-bit (NaNs and the sign of zero included)
    assert a.tobytes() == b.tobytes(), what


def check_itransform(stock, what):
    if isinstance(stock, np.ndarray):
        s_o, s_n = stock.copy(), stock.copy()
    else:
        import copy
        s_o, s_n = copy.deepcopy(stock), copy.deepcopy(stock)
    r_o = orig.itransform(s_o)
    r_n = new.itransform(s_n)
    same(r_o, r_n, what)
    # arguments not mutated (in either version)
    if isinstance(stock, np.ndarray):
        assert s_o.tobytes() == stock.tobytes() and s_n.tobytes() == stock.tobytes(), what
    else:
        assert s_o == stock and s_n == stock, what
    return r_n


def records(rng):
    lengths = list(range(4, 131)) + [255, 256, 257, 500, 511, 512, 1000, 1023, 1024]
    for n in lengths:
        t = np.arange(n)
        yield "normal", n, rng.standard_normal(n)
        if n <= 130 or n in (512, 1023):
            yield "int", n, rng.integers(-50, 50, size=n)
            yield "zeros", n, np.zeros(n)
            yield "const", n, np.full(n, 3.5)
            yield "f32", n, rng.standard_normal(n).astype(np.float32)
            k = max(1, (n // 2) // 3)
            yield "sine", n, np.sin(2 * np.pi * k * t / (2 * (n // 2)))
            yield "list", n, list(rng.standard_normal(n))
            yield "impulse", n, np.eye(1, n, n // 3)[0]


def main():
    rng = np.random.default_rng(15)
    # 1. on genuine Stockwell transforms (both implementations) of many records
    for kind, n, acc in records(rng):
        for tname in ("transform", "transform_w_scipy_fft"):
            stock = getattr(orig, tname)(acc)
            assert stock.shape == (n // 2, 2 * (n // 2))
            rec = check_itransform(stock, (kind, n, tname))
            assert rec.shape == (2 * (n // 2),)
            if n <= 40:
                # contiguous copy, Fortran copy, nested lists
                check_itransform(np.ascontiguousarray(stock), (kind, n, tname, "C"))
                check_itransform(np.asfortranarray(stock), (kind, n, tname, "F"))
                check_itransform(stock.tolist(), (kind, n, tname, "list"))

    # 2. on arbitrary time-frequency arrays (complex, real, integer), incl. tiny ones
    for rows in list(range(1, 40)) + [64, 100, 256, 512]:
        for cols in (1, 2, rows, 2 * rows, 2 * rows + 3):
            z = rng.standard_normal((rows, cols)) + 1j * rng.standard_normal((rows, cols))
            check_itransform(z, ("cplx", rows, cols))
            check_itransform(z.real.copy(), ("real", rows, cols))
            check_itransform(rng.integers(-9, 9, size=(rows, cols)), ("int", rows, cols))
            check_itransform(z.astype(np.complex64), ("c64", rows, cols))
            check_itransform(np.zeros((rows, cols), dtype=complex), ("zeros", rows, cols))
            check_itransform(z[::-1], ("flipped view", rows, cols))
            check_itransform(z.T.copy().T, ("F-order", rows, cols))

    # 3. the other anchor functions are untouched by this twin: spot check
    for n in (4, 5, 16, 33, 128):
        acc = rng.standard_normal(n)
        same(orig.transform(acc), new.transform(acc), ("transform", n))
        same(orig.transform_w_scipy_fft(acc), new.transform_w_scipy_fft(acc), ("scipy", n))
        same(orig.generate_gaussian(n // 2), new.generate_gaussian(n // 2), ("gauss", n))
        st = new.transform(acc)
        same(orig.get_max_tifq_vals_freq(st, 0.01), new.get_max_tifq_vals_freq(st, 0.01), ("maxf", n))

    print("equiv1: %d comparisons identical" % n_checks)


if __name__ == "__main__":
    main()

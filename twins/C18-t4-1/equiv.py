"""
Equivalence check for twin1 (combine_at_angle / compute_rotated tidy-up).

Run with twin1 applied, cwd = the worktree:
    /venv/bin/python out/equiv1.py

The ORIGINAL package is extracted from git (HEAD) into a temporary directory; the same
scenario script is then executed in two subprocesses (original vs. edited package), each of
which records a normalised trace of every result / exception / object state / stdout.
The two traces must be identical (bit-for-bit for arrays, incl. dtype and shape).
"""
import io
import os
import pickle
import shutil
import subprocess
import sys
import tempfile

WORKTREE = os.path.dirname(os.path.dirname(os.path.abspath(__file__)))


# --------------------------------------------------------------------------------------
# child side
# --------------------------------------------------------------------------------------

def norm(obj, depth=0):
    """Normalises a python object into something picklable and exactly comparable"""
    import numpy as np
    if depth > 6:
        return ('deep', repr(type(obj)))
    if isinstance(obj, np.ndarray):
        if obj.dtype == object:
            return ('ndarray-object', obj.shape, [norm(o, depth + 1) for o in obj.ravel().tolist()])
        return ('ndarray', str(obj.dtype), obj.shape, np.ascontiguousarray(obj).tobytes())
    if isinstance(obj, np.generic):
        return ('npscalar', type(obj).__name__, np.asarray(obj).tobytes())
    if isinstance(obj, (bool, int, float, complex, str, bytes, type(None))):
        return (type(obj).__name__, repr(obj))
    if isinstance(obj, (list, tuple)):
        return (type(obj).__name__, [norm(o, depth + 1) for o in obj])
    if isinstance(obj, dict):
        return (type(obj).__name__, [(norm(k, depth + 1), norm(v, depth + 1)) for k, v in obj.items()])
    if isinstance(obj, BaseException):
        return ('exception', type(obj).__name__, str(obj))
    if hasattr(obj, '__dict__'):
        return ('object', type(obj).__name__, [(k, norm(v, depth + 1)) for k, v in sorted(vars(obj).items())])
    return ('other', type(obj).__name__, repr(obj))


def child(pkg_root, out_file):
    sys.path.insert(0, pkg_root)
    os.chdir(pkg_root)
    import contextlib
    import warnings
    import numpy as np
    import eqsig
    import eqsig.multiple
    assert os.path.abspath(eqsig.__file__).startswith(os.path.abspath(pkg_root) + os.sep), (eqsig.__file__, pkg_root)
    assert os.path.abspath(eqsig.multiple.__file__).startswith(os.path.abspath(pkg_root) + os.sep)
    warnings.simplefilter('ignore')

    trace = []

    def record(label, fn):
        """Runs fn, records its (normalised) result or exception plus whatever it printed"""
        buf = io.StringIO()
        try:
            with contextlib.redirect_stdout(buf):
                res = fn()
            trace.append((label, 'ok', norm(res), buf.getvalue()))
        except Exception as e:  # noqa
            trace.append((label, 'exc', norm(e), buf.getvalue()))

    # spy on the angles handed to combine_at_angle by compute_rotated
    angle_log = []
    inner_combine = eqsig.multiple.combine_at_angle

    def spy_combine(ns, we, angle):
        angle_log.append((type(angle).__name__, np.asarray(angle).tobytes()))
        return inner_combine(ns, we, angle)

    rng = np.random.RandomState(1801)

    def make_pair(kind, n, dt):
        if kind == 'float':
            a, b = rng.randn(n), rng.randn(n)
        elif kind == 'int':
            a, b = rng.randint(-50, 50, n), rng.randint(-50, 50, n)
        elif kind == 'list':
            a, b = list(rng.randn(n)), list(rng.randn(n))
        elif kind == 'intlist':
            a, b = [int(v) for v in rng.randint(-9, 9, n)], [int(v) for v in rng.randint(-9, 9, n)]
        elif kind == 'zeros':
            a, b = np.zeros(n), np.zeros(n)
        elif kind == 'float32':
            a, b = rng.randn(n).astype(np.float32), rng.randn(n).astype(np.float32)
        elif kind == 'sine':
            t = np.arange(n) * dt
            a, b = np.sin(3.1 * t) * np.exp(-0.2 * t), 0.7 * np.cos(5.3 * t + 0.4)
        else:
            raise ValueError(kind)
        return eqsig.AccSignal(a, dt, label='ns'), eqsig.AccSignal(b, dt, label='we')

    angles = [0, 0.0, 90, 90.0, 180, 270, 360, -45, 33.3, 1e-9, 720.5, -180.0, 45, 135.0,
              np.float64(12.5), np.int64(30), np.float32(60.0), 359.999999, True]
    angles += list(rng.uniform(-720, 720, 12))

    # ---- combine_at_angle -------------------------------------------------------------
    for kind in ['float', 'int', 'list', 'intlist', 'zeros', 'float32', 'sine']:
        for n in [1, 2, 3, 17, 256]:
            ns, we = make_pair(kind, n, 0.01)
            for ai, angle in enumerate(angles):
                def run(ns=ns, we=we, angle=angle):
                    out = eqsig.combine_at_angle(ns, we, angle)
                    return out, ns, we
                record('combine/%s/%i/%i' % (kind, n, ai), run)
                # theta + 180
                record('combine180/%s/%i/%i' % (kind, n, ai),
                       lambda ns=ns, we=we, angle=angle: eqsig.multiple.combine_at_angle(ns, we, angle + 180))
    # mixed kinds / Signal (not Acc) inputs / array angle
    ns, _ = make_pair('int', 9, 0.02)
    _, we = make_pair('float', 9, 0.02)
    record('combine/mixed', lambda: (eqsig.combine_at_angle(ns, we, 31.0), ns, we))
    s1 = eqsig.Signal(rng.randn(8), 0.1)
    s2 = eqsig.Signal(rng.randn(8), 0.1)
    record('combine/plain-signals', lambda: eqsig.combine_at_angle(s1, s2, 10.0))
    record('combine/len-mismatch', lambda: eqsig.combine_at_angle(eqsig.AccSignal(rng.randn(4), 0.1),
                                                                 eqsig.AccSignal(rng.randn(5), 0.1), 10.0))
    record('combine/array-angle', lambda: eqsig.combine_at_angle(s1, s2, np.linspace(0, 70, 8)))
    record('combine/none-angle', lambda: eqsig.combine_at_angle(s1, s2, None))
    record('combine/str-angle', lambda: eqsig.combine_at_angle(s1, s2, 'a'))

    # ---- compute_rotated --------------------------------------------------------------
    def f_scalar(sig):
        return float(np.max(np.abs(sig.values)))

    def f_npscalar(sig):
        return np.sum(sig.values ** 2)

    def f_array(sig):
        return np.cumsum(np.abs(sig.values))

    def f_list(sig):
        return [1.0, float(sig.values[0]), float(np.min(sig.values))]

    def f_state(sig):
        # exposes the complete state of the intermediate signal
        return repr(norm(sig))

    def f_int(sig):
        return 3

    funcs = [('scalar', f_scalar), ('npscalar', f_npscalar), ('array', f_array), ('list', f_list),
             ('state', f_state), ('int', f_int)]
    params = ['arias_intensity', 'pga', 'pgv', 'pgd', 'npts', 'dt', 'label', 'values']
    offsets = [0.0, 0, 30, -30.0, 200.5, 360, 725.25, -1e-7, np.float64(17.0), 90, 180.0]
    pointss = [1, 2, 3, 7, 100]

    def run_rotated(ns, we, **kw):
        del angle_log[:]
        eqsig.multiple.combine_at_angle = spy_combine
        try:
            out = eqsig.compute_rotated(ns, we, **kw)
        finally:
            eqsig.multiple.combine_at_angle = inner_combine
        return out, type(out).__name__, list(angle_log), ns, we

    case = 0
    for kind in ['float', 'int', 'list', 'zeros', 'sine']:
        for n in [1, 2, 5, 64]:
            ns, we = make_pair(kind, n, 0.02)
            for off in offsets:
                pts = pointss[case % len(pointss)]
                par = params[case % len(params)]
                fname, fn = funcs[case % len(funcs)]
                case += 1
                record('rot/par/%s/%i/%r/%s/%i' % (kind, n, off, par, pts),
                       lambda ns=ns, we=we, off=off, par=par, pts=pts:
                       run_rotated(ns, we, angle_off_ns=off, parameter=par, points=pts))
                record('rot/func/%s/%i/%r/%s/%i' % (kind, n, off, fname, pts),
                       lambda ns=ns, we=we, off=off, fn=fn, pts=pts:
                       run_rotated(ns, we, angle_off_ns=off, func=fn, points=pts))
    ns, we = make_pair('sine', 400, 0.01)
    # defaults (100 points), positional arguments, every parameter / func
    for par in params:
        record('rot/default/par/%s' % par, lambda par=par: run_rotated(ns, we, parameter=par))
        record('rot/positional/par/%s' % par, lambda par=par: eqsig.compute_rotated(ns, we, 12.5, par, None, 9))
    for fname, fn in funcs:
        record('rot/default/func/%s' % fname, lambda fn=fn: run_rotated(ns, we, func=fn))
        record('rot/positional/func/%s' % fname, lambda fn=fn: eqsig.compute_rotated(ns, we, -77.0, None, fn, 11))
    # cached state on the inputs is left alone
    ns.generate_displacement_and_velocity_series()
    _ = we.fa_spectrum
    record('rot/cached-inputs', lambda: run_rotated(ns, we, angle_off_ns=45.0, parameter='pgv', points=5))
    # invalid option combinations / inputs
    record('rot/no-option', lambda: run_rotated(ns, we))
    record('rot/no-option-0pts', lambda: run_rotated(ns, we, points=0))
    record('rot/both-options', lambda: run_rotated(ns, we, parameter='pga', func=f_scalar, points=3))
    record('rot/arias+func', lambda: run_rotated(ns, we, parameter='arias_intensity', func=f_scalar, points=3))
    record('rot/bad-attr', lambda: run_rotated(ns, we, parameter='no_such_thing', points=3))
    record('rot/0pts', lambda: run_rotated(ns, we, parameter='pga', points=0))
    record('rot/neg-pts', lambda: run_rotated(ns, we, parameter='pga', points=-2))
    record('rot/not-acc', lambda: run_rotated(s1, we, parameter='pga'))
    record('rot/not-acc2', lambda: run_rotated(ns, s2, parameter='pga'))
    record('rot/dt-mismatch', lambda: run_rotated(ns, eqsig.AccSignal(we.values, 0.02), parameter='pga'))
    record('rot/npts-mismatch', lambda: run_rotated(ns, eqsig.AccSignal(we.values[:-1], 0.01), parameter='pga'))
    record('rot/func-raises', lambda: run_rotated(ns, we, func=lambda s: 1 / 0, points=4))
    record('rot/func-empty', lambda: run_rotated(ns, we, func=lambda s: [], points=4))
    record('rot/array-offset', lambda: run_rotated(ns, we, angle_off_ns=np.array([0.0, 10.0]), parameter='pga', points=3))

    with open(out_file, 'wb') as f:
        pickle.dump(trace, f)


# --------------------------------------------------------------------------------------
# parent side
# --------------------------------------------------------------------------------------

def main():
    tmp = tempfile.mkdtemp(prefix='c18_equiv1_', dir='/tmp')
    try:
        orig_root = os.path.join(tmp, 'orig')
        os.makedirs(orig_root)
        subprocess.check_call('git archive HEAD eqsig | tar -x -C "%s"' % orig_root, shell=True, cwd=WORKTREE)
        traces = []
        for root in (orig_root, WORKTREE):
            out_file = os.path.join(tmp, 'trace_%i.pkl' % len(traces))
            env = dict(os.environ)
            env.pop('PYTHONPATH', None)
            subprocess.check_call([sys.executable, os.path.abspath(__file__), '--child', root, out_file],
                                  cwd=root, env=env)
            with open(out_file, 'rb') as f:
                traces.append(pickle.load(f))
        t_orig, t_new = traces
        assert len(t_orig) == len(t_new), (len(t_orig), len(t_new))
        bad = 0
        n_exc = 0
        for a, b in zip(t_orig, t_new):
            assert a[0] == b[0]
            if a[1] == 'exc':
                n_exc += 1
            if a != b:
                bad += 1
                if bad < 10:
                    print('MISMATCH in scenario', a[0])
                    print('   original:', repr(a[1:])[:600])
                    print('   edited  :', repr(b[1:])[:600])
        print('%i scenarios compared (%i raising in the original), %i mismatches' % (len(t_orig), n_exc, bad))
        return 1 if bad else 0
    finally:
        shutil.rmtree(tmp, ignore_errors=True)


if __name__ == '__main__':
    if len(sys.argv) == 4 and sys.argv[1] == '--child':
        child(sys.argv[2], sys.argv[3])
    else:
        sys.exit(main())

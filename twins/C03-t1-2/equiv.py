"""Equivalence check for twin2 (eqsig/single.py: AccSignal.gen_response_spectrum restructured,
lazy s_a / s_v / s_d share a private _ensure_response_spectra helper).

Run with twin2 applied, cwd = the worktree.  Exit 0 iff original and edited agree bit-for-bit,
including object state after every step of multi-step histories and the calls made into eqsig.sdof.
"""
import contextlib
import io
import os
import subprocess
import sys
import types
import warnings

HERE = os.getcwd()
sys.path.insert(0, HERE)

import numpy as np  # noqa: E402

import eqsig  # noqa: E402
import eqsig.sdof as dh  # noqa: E402
from eqsig import single as new  # noqa: E402

assert eqsig.__file__.startswith(HERE), (eqsig.__file__, HERE)


def load_original(relpath, name):
    src = subprocess.check_output(['git', 'show', 'HEAD:' + relpath], cwd=HERE).decode()
    mod = types.ModuleType(name)
    mod.__file__ = '<HEAD:%s>' % relpath
    mod.__package__ = 'eqsig'
    exec(compile(src, mod.__file__, 'exec'), mod.__dict__)
    return mod


old = load_original('eqsig/single.py', 'eqsig._orig_single')
assert old.AccSignal is not new.AccSignal
assert old.dh is dh and new.dh is dh

N_CHECKS = 0

# ---------------------------------------------------------------------------------------------
# record every call the signal objects make into eqsig.sdof.pseudo_response_spectra
CALLS = []
_real_prs = dh.pseudo_response_spectra
FAIL_WITH = [None]
CURRENT = [None]


def _spy(motion, dt, periods, xi):
    obj = CURRENT[0]
    CALLS.append((
        freeze(motion), freeze(dt), freeze(periods), freeze(xi),
        motion is obj._values, periods is obj._response_times,
    ))
    if FAIL_WITH[0] is not None:
        raise FAIL_WITH[0]
    return _real_prs(motion, dt, periods, xi)


dh.pseudo_response_spectra = _spy


def freeze(x):
    """hashable, bit-exact description of a value"""
    if isinstance(x, np.ndarray):
        return ('nd', x.dtype.str, x.shape, x.tobytes())
    if isinstance(x, np.generic):
        return ('npscalar', x.dtype.str, x.tobytes())
    if isinstance(x, float):
        return ('float', np.float64(x).tobytes())
    if isinstance(x, (list, tuple)):
        return (type(x).__name__,) + tuple(freeze(v) for v in x)
    if isinstance(x, dict):
        return ('dict',) + tuple((k, freeze(v)) for k, v in sorted(x.items()))
    return (type(x).__name__, repr(x))


def state(obj):
    return freeze(dict(obj.__dict__))


def same(a, b, ctx):
    global N_CHECKS
    N_CHECKS += 1
    assert a == b, ctx


def run_step(obj, step):
    """perform one step on one object; returns everything observable about it"""
    CURRENT[0] = obj
    del CALLS[:]
    kind = step[0]
    buf = io.StringIO()
    with warnings.catch_warnings(record=True) as wlist, contextlib.redirect_stdout(buf):
        warnings.simplefilter('always')
        try:
            if kind == 'get':
                val = getattr(obj, step[1])
                again = getattr(obj, step[1])
                res = ('ok', freeze(val), val is again, val is getattr(obj, '_' + step[1]))
            elif kind == 'gen':
                res = ('ok', freeze(obj.gen_response_spectrum(*step[1], **step[2])))
            elif kind == 'generate':
                res = ('ok', freeze(obj.generate_response_spectrum(*step[1], **step[2])))
            elif kind == 'set_rt':
                obj.response_times = step[1]
                res = ('ok', obj.response_times is step[1])
            elif kind == 'reset':
                res = ('ok', freeze(obj.reset_values(step[1])))
            elif kind == 'clear':
                res = ('ok', freeze(obj.clear_cache()))
            elif kind == 'add_constant':
                res = ('ok', freeze(obj.add_constant(step[1])))
            elif kind == 'pga':
                res = ('ok', freeze(obj.pga))
            elif kind == 'set_xi':
                obj._cached_xi = step[1]
                res = ('ok',)
            elif kind == 'poke':      # write into the value buffer without clearing the cache
                obj._values[step[1]] = step[2]
                res = ('ok',)
            elif kind == 'memfail':
                FAIL_WITH[0] = MemoryError('boom')
                try:
                    res = ('ok', freeze(obj.gen_response_spectrum(*step[1], **step[2])))
                finally:
                    FAIL_WITH[0] = None
            elif kind == 'valfail':
                FAIL_WITH[0] = ValueError('inner')
                try:
                    res = ('ok', freeze(obj.gen_response_spectrum(*step[1], **step[2])))
                finally:
                    FAIL_WITH[0] = None
            else:
                raise AssertionError(kind)
        except AssertionError:
            raise
        except Exception as exc:
            ctx_exc = exc.__context__
            res = ('raise', type(exc).__name__, str(exc),
                   None if ctx_exc is None else (type(ctx_exc).__name__, str(ctx_exc)))
    warns = sorted((w.category.__name__, str(w.message)) for w in wlist)
    return res, warns, buf.getvalue(), list(CALLS), state(obj)


def run_history(ctor_args, ctor_kwargs, steps, ctx):
    objs = []
    for mod in (old, new):
        a = [np.copy(v) if isinstance(v, np.ndarray) else v for v in ctor_args]
        objs.append(mod.AccSignal(*a, **ctor_kwargs))
    same(state(objs[0]), state(objs[1]), ctx + ('init',))
    for i, step in enumerate(steps):
        o = run_step(objs[0], step)
        n = run_step(objs[1], step)
        names = ('result', 'warnings', 'stdout', 'sdof calls', 'state')
        for nm, x, y in zip(names, o, n):
            same(x, y, ctx + (i, step[0], nm, x if nm in ('result', 'stdout', 'warnings') else None,
                              y if nm in ('result', 'stdout', 'warnings') else None))


rng = np.random.RandomState(3)

RECORDS = [
    ('randn300', rng.randn(300), 0.01),
    ('randn41', rng.randn(41), 0.02),
    ('short2', np.array([0.3, -0.7]), 0.1),
    ('short3', np.array([0.3, -0.7, 0.1]), 0.005),
    ('zeros', np.zeros(30), 0.01),
    ('int', rng.randint(-4, 5, size=60), 0.01),
    ('list', list(rng.randn(25)), 0.05),
    ('f32', rng.randn(50).astype(np.float32), 0.01),
    ('dt1', rng.randn(20), 1.0),
    ('intdt', rng.randn(20), 1),
]


def rt_sets(dt):
    return [
        None,
        [0.0, 0.02, 0.5, 2.0],
        (0.0, dt, 3 * dt, 6 * dt, 7 * dt, 1.0),
        np.array([dt, 5 * dt, 6 * dt, 0.4, 3.0]),
        [0.05, 1.0],
        (0.3,),
        np.array([0, 1, 2]),
        [1, 2],
        [0.0, 40 * dt],       # target_dt ends up above dt: no interpolation
        [100 * dt],
        [20 * dt, 1.0],       # target_dt == dt exactly (min_dt_ratio irrelevant)
    ]


# 1. single calls: every option combination
for rname, vals, dt in RECORDS:
    for ri, rts in enumerate(rt_sets(dt)):
        for mdr in (1, 2, 4, 8):
            for xi in (-1, 0.0, 0.05, 0.5, 0.99):
                ctx = (rname, ri, mdr, xi)
                # periods passed to the method
                steps = [('gen', (rts,), dict(xi=xi, min_dt_ratio=mdr)),
                         ('get', 's_a'), ('get', 's_v'), ('get', 's_d')]
                run_history((vals, dt), {}, steps, ctx + ('arg',))
                if rts is not None:
                    # periods passed to the constructor, generation through the alias
                    steps = [('generate', (), dict(xi=xi, min_dt_ratio=mdr)),
                             ('get', 's_d'), ('get', 's_a')]
                    run_history((vals, dt), dict(response_times=rts), steps, ctx + ('ctor',))

# 2. lazy properties on fresh objects, each property first
for rname, vals, dt in RECORDS:
    for ri, rts in enumerate(rt_sets(dt)):
        for first in ('s_a', 's_v', 's_d'):
            others = [p for p in ('s_a', 's_v', 's_d') if p != first]
            steps = [('get', first)] + [('get', p) for p in others] + [('get', first)]
            run_history((vals, dt), dict(response_times=rts), steps, ('lazy', rname, ri, first))
    run_history((vals, dt), dict(response_period_range=(0.2, 2.0), verbose=1),
                [('get', 's_v'), ('get', 's_a'), ('gen', (), {}), ('get', 's_d')], ('lazy-range', rname))

# 3. multi-step histories (cache invalidation, re-generation, positional arguments, failures)
vals, dt = rng.randn(120), 0.01
history = [
    ('get', 's_a'),
    ('gen', ([0.0, 0.1, 1.0],), {}),
    ('get', 's_d'),
    ('set_rt', np.array([0.02, 0.2])),
    ('get', 's_v'),
    ('get', 's_a'),
    ('gen', (None, 0.2, 8), {}),
    ('get', 's_a'),
    ('reset', rng.randn(77)),
    ('get', 's_d'),
    ('add_constant', 0.3),
    ('get', 's_a'),
    ('pga',),
    ('clear',),
    ('get', 's_v'),
    ('set_xi', 0.1),
    ('get', 's_v'),            # still cached: xi change not seen
    ('gen', (), {}),           # now uses the stored xi
    ('get', 's_v'),
    ('gen', ((0.0, 0.5),), dict(xi=0, min_dt_ratio=1)),
    ('get', 's_a'),
    ('poke', 5, 40.0),
    ('get', 's_a'),            # cache not cleared by a raw write
    ('generate', ([0.0, 0.03, 0.3], 0.05, 2), {}),
    ('get', 's_a'),
    ('memfail', ([0.01, 0.3],), dict(min_dt_ratio=8)),   # error path: message and state
    ('get', 's_a'),
    ('memfail', (), {}),
    ('valfail', ((0.0, 0.3),), {}),
    ('get', 's_d'),
    ('gen', ([0.0],), {}),          # IndexError: leading zero with nothing after it
    ('get', 's_d'),
    ('gen', ([],), {}),             # IndexError
    ('set_rt', [0.1, 0.2]),
    ('gen', (), dict(min_dt_ratio=0)),   # ZeroDivisionError
    ('get', 's_d'),
    ('gen', (0.5,), {}),            # scalar periods: TypeError
    ('set_rt', np.array([[0.1, 0.2], [0.3, 0.4]])),
    ('get', 's_a'),                 # 2-d periods: ambiguous truth value
    ('set_rt', np.array([0.4, 0.0, 0.2])),
    ('get', 's_a'),                 # zero not in front
    ('set_rt', [np.nan, 0.2]),
    ('get', 's_a'),
    ('gen', ([0.1, 0.5],), dict(xi=1.0)),
    ('gen', ([0.1, 0.5],), dict(xi=-1.0)),   # float spelling of the sentinel
    ('get', 's_a'),
    ('gen', ([0.1, 0.5],), dict(xi=np.float64(-1))),
    ('gen', ([0.1, 0.5],), dict(xi='a')),
    ('get', 's_a'),
]
for verbose in (0, 1):
    run_history((vals, dt), dict(verbose=verbose), history, ('history', verbose))
    run_history((vals.astype(int) * 2, 0.02), dict(verbose=verbose, response_times=(0.0, 0.04, 1.0)),
                history, ('history-int', verbose))

# random histories
pool_rt = [None, [0.0, 0.02, 0.5], (0.05, 0.7), np.array([0.0, 0.1]), np.array([0.011, 0.06, 0.061, 2.0]), [1, 2]]
for seed in range(60):
    r = np.random.RandomState(1000 + seed)
    n = int(r.choice([2, 3, 8, 50, 150]))
    dt = float(r.choice([0.005, 0.01, 0.02, 0.1]))
    vals = r.randn(n) if seed % 3 else r.randint(-3, 4, size=n)
    steps = []
    for _ in range(12):
        c = r.randint(0, 8)
        if c == 0:
            steps.append(('get', str(r.choice(['s_a', 's_v', 's_d']))))
        elif c == 1:
            steps.append(('gen', (pool_rt[r.randint(len(pool_rt))],),
                          dict(xi=float(r.choice([-1, 0.0, 0.05, 0.4])), min_dt_ratio=int(r.choice([1, 2, 4, 8])))))
        elif c == 2:
            steps.append(('set_rt', pool_rt[1 + r.randint(len(pool_rt) - 1)]))
        elif c == 3:
            steps.append(('reset', r.randn(int(r.choice([2, 5, 40])))))
        elif c == 4:
            steps.append(('clear',))
        elif c == 5:
            steps.append(('generate', (), dict(min_dt_ratio=int(r.choice([1, 2, 4, 8])))))
        elif c == 6:
            steps.append(('add_constant', float(r.randn())))
        else:
            steps.append(('get', 's_a'))
    run_history((vals, dt), dict(response_times=pool_rt[r.randint(len(pool_rt))]), steps, ('random', seed))

dh.pseudo_response_spectra = _real_prs

# 4. nothing but the two methods and the helper differ between the classes
for name in sorted(set(dir(old.AccSignal)) | set(dir(new.AccSignal))):
    if name == '_ensure_response_spectra':
        assert not hasattr(old.AccSignal, name)
        continue
    assert hasattr(old.AccSignal, name) and hasattr(new.AccSignal, name), name
import inspect  # noqa: E402
same(str(inspect.signature(old.AccSignal.gen_response_spectrum)),
     str(inspect.signature(new.AccSignal.gen_response_spectrum)), ('signature',))
same(old.AccSignal.gen_response_spectrum.__doc__, new.AccSignal.gen_response_spectrum.__doc__, ('doc',))
for p in ('s_a', 's_v', 's_d'):
    same(getattr(old.AccSignal, p).__doc__, getattr(new.AccSignal, p).__doc__, ('doc', p))

print('equiv2: %i comparisons identical' % N_CHECKS)

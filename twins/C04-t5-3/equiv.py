#!/usr/bin/env python
"""
Equivalence program for a behaviour-preserving edit of eqsig/single.py (property C04:
"derived quantities of a signal object never go stale").

Run with the edit applied and cwd = the worktree:

    cd <worktree> && PYTHONPATH=<worktree> /venv/bin/python out/equivK.py

The ORIGINAL package is obtained with `git archive HEAD eqsig` into a temporary directory.
The same deterministic workload (this file, `--worker`) is then executed in two separate
subprocesses, one importing the original package and one importing the edited package
(os.getcwd()).  Each worker writes, for every case and every step of every history, a
digest of everything observable through the public API: return values, exceptions (type
and message), warnings, printed output, mutation of arguments, every readable derived
quantity (bit-for-bit: dtype, shape and raw bytes), object identity of returned arrays
between reads, aliasing of returned arrays with `values`, and in-place changes of arrays
handed out earlier.  The parent compares the two transcripts and exits 0 iff they are
identical.
"""
import sys
import os
import io
import copy
import pickle
import hashlib
import struct
import random
import warnings
import itertools
import contextlib
import subprocess
import tempfile
import tarfile
import shutil
import time as _time

FOCUS = 3  # which twin this program accompanies (changes the op weights of the random histories)


# --------------------------------------------------------------------------------------
# canonical form / digests
# --------------------------------------------------------------------------------------
def feed(h, x, depth=0):
    """feed a canonical byte representation of x (type-tagged, bit-exact for numbers and arrays) into hasher h"""
    np = _np()
    t = type(x)
    if t is np.ndarray:
        if x.dtype == object:
            h.update(b'<O' + repr(x.shape).encode())
            for v in x.ravel().tolist():
                feed(h, v, depth + 1)
            h.update(b'>')
        else:
            h.update(b'<A' + x.dtype.str.encode() + repr(x.shape).encode())
            h.update(np.ascontiguousarray(x).tobytes())
            h.update(b'>')
    elif x is None or t is bool or t is int or t is str or t is bytes:
        h.update(b'<' + t.__name__.encode() + b':' + repr(x).encode() + b'>')
    elif t is float:
        h.update(b'<f' + struct.pack('<d', x) + b'>')
    elif t is complex:
        h.update(b'<c' + struct.pack('<dd', x.real, x.imag) + b'>')
    elif isinstance(x, np.ndarray):
        h.update(b'<SUB' + t.__name__.encode())
        feed(h, np.asarray(x), depth + 1)
        h.update(b'>')
    elif isinstance(x, np.generic):
        h.update(b'<S' + x.dtype.str.encode() + x.tobytes() + b'>')
    elif t is tuple or t is list:
        h.update(b'<' + t.__name__.encode())
        if depth > 8:
            h.update(b'DEEP')
        else:
            for v in x:
                feed(h, v, depth + 1)
        h.update(b'>')
    elif t is dict:
        h.update(b'<dict')
        for k, v in x.items():
            feed(h, k, depth + 1)
            feed(h, v, depth + 1)
        h.update(b'>')
    elif t is range:
        h.update(b'<range' + repr((x.start, x.stop, x.step)).encode() + b'>')
    elif isinstance(x, BaseException):
        h.update(b'<EXC' + t.__name__.encode() + b':' + str(x).encode() + b'>')
    elif t.__name__ in ('Signal', 'AccSignal') and hasattr(x, 'values'):
        h.update(b'<SIGOBJ' + t.__name__.encode())
        feed(h, x.values, depth + 1)
        feed(h, x.dt, depth + 1)
        h.update(b'>')
    elif isinstance(x, (bool, int, float, str, complex, tuple, list, dict)):  # subclasses of builtins
        h.update(b'<SUBB' + t.__name__.encode() + repr(x).encode() + b'>')
    else:
        r = repr(x)
        h.update(b'<OTHER' + t.__name__.encode() + b':' + (r if ' at 0x' not in r else '').encode() + b'>')


_NP = []


def _np():
    if not _NP:
        import numpy
        _NP.append(numpy)
    return _NP[0]


def digest(x):
    h = hashlib.sha1()
    feed(h, x)
    return h.hexdigest()[:12]


# --------------------------------------------------------------------------------------
# worker
# --------------------------------------------------------------------------------------
SIG_READS = ['npts', 'dt', 'time', 'values', 'fa_spectrum', 'fa_spectrum_abs', 'fa_freqs', 'fa_frequencies',
             'smooth_fa_freqs', 'smooth_fa_frequencies', 'smooth_fa_spectrum', 'label', 'smooth_freq_range',
             'smooth_freq_points', 'verbose', 'ccbox']
ACC_READS = ['velocity', 'displacement', 'pga', 'pgv', 'pgd', 's_a', 's_v', 's_d', 'response_times',
             't_b01', 't_b05', 't_b10', 'a_rms01', 'a_rms05', 'a_rms10', 't_595', 'sd_start', 'sd_end',
             'arias_intensity', 'cav', 'arias_intensity_series', 'cav_series']
# one representative read per cache group (exhaustive exploration of the observational cache state)
ACC_GROUPS = ['fa_spectrum', 'smooth_fa_spectrum', 's_a', 'velocity', 'pga', 'pgv', 'pgd']
SIG_GROUPS = ['fa_freqs', 'smooth_fa_spectrum']
# reads used after the mutator in the exhaustive part (twice, to check idempotence of reads)
CORE_SIG_READS = ['values', 'npts', 'time', 'fa_spectrum', 'fa_freqs', 'smooth_fa_freqs', 'smooth_fa_spectrum']
CORE_ACC_READS = ['velocity', 'displacement', 'pga', 'pgv', 'pgd', 's_a', 's_v', 's_d', 'response_times', 't_595',
                  'arias_intensity']


class Session(object):
    """Runs a history on one object and records everything observable."""

    def __init__(self, eqsig, np):
        self.eqsig = eqsig
        self.np = np
        self.obj = None
        self.held = {}  # reader name -> last object returned
        self.log = []

    def guarded(self, fn):
        """call fn() capturing result / exception / warnings / stdout"""
        out = io.StringIO()
        with warnings.catch_warnings(record=True) as wlist:
            warnings.simplefilter('always')
            with contextlib.redirect_stdout(out):
                try:
                    res = ('OK', fn())
                except Exception as e:  # noqa
                    res = ('EXC', type(e).__name__, str(e))
        wrec = tuple((w.category.__name__, str(w.message)) for w in wlist)
        return res, wrec, out.getvalue()

    def read(self, name):
        self.read_many([name])

    def read_many(self, names):
        np = self.np
        obj = self.obj
        out = io.StringIO()
        with warnings.catch_warnings(record=True) as wlist:
            warnings.simplefilter('always')
            with contextlib.redirect_stdout(out):
                for name in names:
                    nw = len(wlist)
                    try:
                        res = ('OK', getattr(obj, name))
                    except Exception as e:  # noqa
                        res = ('EXC', type(e).__name__, str(e))
                    wrec = tuple((w.category.__name__, str(w.message)) for w in wlist[nw:])
                    extra = ()
                    if res[0] == 'OK' and isinstance(res[1], np.ndarray):
                        val = res[1]
                        same = val is self.held.get(name)
                        try:
                            vals = obj.values
                            shares = bool(np.shares_memory(val, vals)) if isinstance(vals, np.ndarray) else None
                        except Exception:  # noqa
                            shares = 'err'
                        extra = (same, shares, val.flags.writeable, val.flags.owndata)
                        self.held[name] = val
                    h = hashlib.sha1(repr((res[0], res[2:], wrec, extra)).encode())  # plain str / bool / None only
                    feed(h, res[1])
                    self.log.append(('read', name, h.hexdigest()[:12]))
        if out.getvalue():
            self.log.append(('read-stdout', digest(out.getvalue())))

    def all_reads(self):
        if type(self.obj).__name__ == 'AccSignal':
            return SIG_READS + ACC_READS
        return SIG_READS

    def held_digest(self):
        h = hashlib.sha1()
        for k in sorted(self.held):
            h.update(k.encode())
            feed(h, self.held[k])
        return h.hexdigest()[:12]

    def do(self, desc, fn, args=()):
        """perform a public operation; args are checked for mutation"""
        before = digest(args)
        res, wrec, out = self.guarded(fn)
        after = digest(args)
        vals_same = None
        if 'values' in self.held and self.obj is not None:
            try:
                vals_same = self.obj.values is self.held['values']
            except Exception:  # noqa
                vals_same = 'err'
        self.log.append(('op', desc, digest((res, wrec, out)), before == after, after, vals_same, self.held_digest()))


def make_values(np, rng, n=None, kind=None):
    if n is None:
        n = rng.choice([0, 1, 2, 3, 4, 5, 7, 8, 9, 12, 15, 16, 17, 24, 31, 32, 33, 40, 50, 64, 65, 100])
    if kind is None:
        kind = rng.choice(['f', 'f', 'f', 'f', 'sin', 'sin', 'i', 'list', 'ilist', 'f32', 'tuple', 'const', 'c'])
    rs = np.random.RandomState(rng.randrange(2 ** 31))
    if kind == 'f':
        return rs.randn(n) * rng.choice([1.0, 0.01, 9.8, 1e3])
    if kind == 'sin':
        t = np.arange(n)
        return np.sin(t * rng.uniform(0.05, 1.5)) * rng.uniform(0.1, 5) + rs.randn(n) * 0.1 + rng.choice([0, 0, 0.3])
    if kind == 'i':
        return rs.randint(-20, 20, size=n)
    if kind == 'list':
        return [float(v) for v in rs.randn(n)]
    if kind == 'ilist':
        return [int(v) for v in rs.randint(-9, 9, size=n)]
    if kind == 'tuple':
        return tuple(float(v) for v in rs.randn(n))
    if kind == 'f32':
        return rs.randn(n).astype(np.float32)
    if kind == 'const':
        return np.ones(n) * rng.choice([0.0, 1.0, -2.5])
    if kind == 'c':
        return rs.randn(n) + 1j * rs.randn(n)
    raise ValueError(kind)


DTS = [0.01, 0.02, 0.005, 0.1, 1.0, 0.0125, 0.05]


def make_freqs(np, rng):
    k = rng.choice([0, 1, 2, 3])
    if k == 0:
        return np.logspace(-1, 1, rng.choice([1, 2, 5, 30]))
    if k == 1:
        return [0.5, 1.0, 2.0, 4.0]
    if k == 2:
        return [1, 2, 5]
    return np.array([0.2, 0.7, 3.3, 9.0, 12.0])


def make_rts(np, rng):
    k = rng.choice([0, 1, 2, 3, 4, 5])
    if k == 0:
        return np.array([0.1, 0.3, 1.0])
    if k == 1:
        return [0.05, 0.2, 0.5, 2.0]
    if k == 2:
        return np.array([0.0, 0.2, 1.0])
    if k == 3:
        return np.linspace(0.2, 3, 7)
    if k == 4:
        return (0.4, 0.8)
    return np.array([1.0])


def build_op(np, eqsig, rng, sess, name):
    """returns (desc, callable, args-to-watch)"""
    s = sess.obj
    try:
        npts = s.npts
        dt = s.dt
    except Exception:  # noqa
        npts, dt = 0, 0.01
    if not isinstance(npts, int):
        npts = 0
    nyq = 0.5 / dt

    if name == 'reset_values':
        v = make_values(np, rng, n=rng.choice([npts, npts, None]))
        return ('reset_values', lambda: s.reset_values(v), (v,))
    if name == 'add_constant':
        c = rng.choice([0, 1, -2, 0.5, 1.5e-3, np.float32(2.0), True, 1 + 0j])
        return ('add_constant %r' % (c,), lambda: s.add_constant(c), (c,))
    if name == 'add_series':
        n = rng.choice([npts, npts, npts, npts + 1, max(npts - 1, 0)])
        v = make_values(np, rng, n=n, kind=rng.choice(['f', 'i', 'list', 'ilist', 'tuple', 'f32']))
        if rng.random() < 0.05:
            v = 3.0
        return ('add_series', lambda: s.add_series(v), (v,))
    if name == 'add_signal':
        k = rng.choice([0, 0, 0, 1, 2, 3, 4])
        n = npts if k != 3 else npts + 2
        v = make_values(np, rng, n=n, kind=rng.choice(['f', 'i', 'list']))
        if k == 0 or k == 3:
            other = eqsig.Signal(v, dt)
        elif k == 1:
            other = eqsig.AccSignal(v, dt)
        elif k == 2:
            other = eqsig.Signal(v, dt * 2)
        else:
            other = v
        return ('add_signal k=%i' % k, lambda: s.add_signal(other), (other,))
    if name == 'butter_pass':
        f1 = nyq * rng.choice([0.02, 0.05, 0.2])
        f2 = nyq * rng.choice([0.4, 0.6, 0.9, 1.2])
        k = rng.choice([0, 0, 1, 2, 3, 4, 5, 6, 7, 8])
        if k == 0:
            co = (f1, f2)
        elif k == 1:
            co = [f1, f2]
        elif k == 2:
            co = np.array([f1, f2])
        elif k == 3:
            co = (None, f2)
        elif k == 4:
            co = [f1, None]
        elif k == 5:
            co = (None, None)
        elif k == 6:
            co = f1
        elif k == 7:
            co = (f1, f2, f2)
        else:
            co = None
        kw = {}
        if rng.random() < 0.5:
            kw['filter_order'] = rng.choice([1, 2, 4])
        if rng.random() < 0.5:
            kw['remove_gibbs'] = rng.choice([None, 'start', 'end', 'mid', 'other'])
        if rng.random() < 0.3:
            kw['gibbs_extra'] = rng.choice([0, 1, 2])
        if rng.random() < 0.3:
            kw['gibbs_range'] = rng.choice([1, 5, 50])
        if k == 8:
            return ('butter_pass default %r' % (sorted(kw.items()),), lambda: s.butter_pass(**kw), (kw,))
        return ('butter_pass k=%i %r' % (k, sorted(kw.items())), lambda: s.butter_pass(co, **kw), (co, kw))
    if name == 'remove_average':
        sec = rng.choice([-1, -1, 5, 0, 1, 1000, None])
        vb = rng.choice([-1, -1, 0, 1])
        return ('remove_average %r %r' % (sec, vb), lambda: s.remove_average(section=sec, verbose=vb), ())
    if name == 'remove_poly':
        k = rng.choice([0, 0, 1, 2, 3])
        return ('remove_poly %i' % k, lambda: s.remove_poly(k), ())
    if name == 'running_average':
        w = rng.choice([1, 1, 2, 3, 4, 5, 6, 7, 0, -1, -3, 10, 11, npts, npts + 1, npts - 1, 2 * npts, 2 * npts + 1,
                        2.5, 3.0, 4.5, 1000, np.int64(4), np.float64(5)])
        if rng.random() < 0.2:
            return ('running_average default', lambda: s.running_average(), ())
        return ('running_average %r' % (w,), lambda: s.running_average(w), (w,))
    if name == 'get_section_average':
        st = rng.choice([0, 1, 0.05, 2])
        en = rng.choice([-1, 5, 0.2, 3])
        ix = rng.choice([False, True])
        return ('get_section_average', lambda: s.get_section_average(start=st, end=en, index=ix), ())
    if name == 'gen_fa_spectrum':
        p2 = rng.choice([0, 0, 1, 2, -1])
        n = rng.choice([None, None, 8, 7, 64, 1, 0, 2, 33, 4.0])
        return ('gen_fa_spectrum %r %r' % (p2, n), lambda: s.gen_fa_spectrum(p2_plus=p2, n=n), ())
    if name == 'generate_fa_spectrum':
        return ('generate_fa_spectrum', lambda: s.generate_fa_spectrum(), ())
    if name == 'gen_smooth_fa_spectrum':
        fr = rng.choice([None, None, 'x'])
        if fr == 'x':
            fr = make_freqs(np, rng)
        band = rng.choice([40, 40, 20, 10])
        return ('gen_smooth_fa_spectrum band=%i %s' % (band, type(fr).__name__),
                lambda: s.gen_smooth_fa_spectrum(smooth_fa_freqs=fr, band=band), (fr,))
    if name == 'generate_smooth_fa_spectrum':
        band = rng.choice([40, 20])
        return ('generate_smooth_fa_spectrum %i' % band, lambda: s.generate_smooth_fa_spectrum(band=band), ())
    if name == 'set_smooth_fa_freqs':
        fr = make_freqs(np, rng)
        attr = rng.choice(['smooth_fa_freqs', 'smooth_fa_frequencies'])
        return ('set %s' % attr, lambda: setattr(s, attr, fr), (fr,))
    if name == 'set_smooth_freq_range':
        lim = rng.choice([(0.1, 30), (0.5, 10), [1, 5], (2.0, 2.0)])
        return ('set smooth_freq_range %r' % (lim,), lambda: setattr(s, 'smooth_freq_range', lim), (lim,))
    if name == 'set_smooth_freq_points':
        k = rng.choice([1, 2, 10, 33, 7.0])
        return ('set smooth_freq_points %r' % (k,), lambda: setattr(s, 'smooth_freq_points', k), ())
    if name == 'set_smooth_by_range':
        lim = rng.choice([(0.1, 30), (0.5, 10), [1, 5], np.array([0.3, 3.0])])
        k = rng.choice([1, 5, 20, 50])
        return ('set_smooth_fa_frequecies_by_range', lambda: s.set_smooth_fa_frequecies_by_range(lim, k), (lim,))
    if name == 'clear_cache':
        return ('clear_cache', lambda: s.clear_cache(), ())
    if name == 'base_clear_cache':
        return ('Signal.clear_cache(obj)', lambda: eqsig.Signal.clear_cache(s), ())
    if name == 'set_values_attr':
        v = make_values(np, rng, n=npts)
        return ('obj.values = x', lambda: setattr(s, 'values', v), (v,))
    if name == 'set_label':
        return ('set label', lambda: setattr(s, 'label', 'L%i' % rng.randrange(5)), ())
    if name == 'write_through_values':
        # the caller mutates the array handed out by .values and then announces it with reset_values
        def fn():
            vals = s.values
            if len(vals):
                vals[len(vals) // 2] = vals[len(vals) // 2] * 2 + 1
            s.reset_values(vals)
        return ('write through values + reset_values', fn, ())
    if name == 're_init':
        v = make_values(np, rng, n=rng.choice([npts, npts, 6]), kind=rng.choice(['f', 'i', 'list']))
        kw = {}
        if rng.random() < 0.5:
            kw['smooth_fa_freqs'] = make_freqs(np, rng)
        if type(s).__name__ == 'AccSignal' and rng.random() < 0.8:
            kw['response_times'] = make_rts(np, rng)
        return ('__init__ again %r' % (sorted(kw),), lambda: s.__init__(v, dt, **kw), (v, kw))
    if name == 'deepcopy':
        def fn():
            sess.obj = copy.deepcopy(s)
            sess.held = {}
        return ('deepcopy', fn, ())
    if name == 'pickle':
        def fn():
            sess.obj = pickle.loads(pickle.dumps(s))
            sess.held = {}
        return ('pickle round trip', fn, ())

    # ---------------- AccSignal only ----------------
    if name == 'set_response_times':
        rt = make_rts(np, rng)
        return ('set response_times', lambda: setattr(s, 'response_times', rt), (rt,))
    if name == 'gen_response_spectrum':
        rt = rng.choice([None, None, 'x'])
        if rt == 'x':
            rt = make_rts(np, rng)
        xi = rng.choice([-1, -1, 0.02, 0.1, 'bad'])
        mdr = rng.choice([4, 4, 1, 10])
        meth = rng.choice(['gen_response_spectrum', 'generate_response_spectrum'])
        return ('%s xi=%r mdr=%r rt=%s' % (meth, xi, mdr, type(rt).__name__),
                lambda: getattr(s, meth)(response_times=rt, xi=xi, min_dt_ratio=mdr), (rt,))
    if name == 'correct_me':
        return ('correct_me', lambda: s.correct_me(), ())
    if name == 'remove_rolling_average':
        mt = rng.choice(['velocity', 'velocity', 'acc', 'values'])
        fw = rng.choice([5, 1, 2, 0.5, 10, 20, 50, 100, 1000, 3.3, 0.1])
        if rng.random() < 0.15:
            return ('remove_rolling_average default', lambda: s.remove_rolling_average(), ())
        return ('remove_rolling_average %s %r' % (mt, fw), lambda: s.remove_rolling_average(mtype=mt, freq_window=fw), ())
    if name == 'rebase_displacement':
        return ('rebase_displacement', lambda: s.rebase_displacement(), ())
    if name == 'set_zero_residual_velocity':
        tz = rng.choice([None, None, (0.0, None), (2 * dt, 5 * dt), (dt, None), [0.0, 3 * dt]])
        return ('set_zero_residual_velocity %r' % (tz,), lambda: s.set_zero_residual_velocity(timezone=tz), (tz,))
    if name == 'set_zero_residual_displacement':
        tz = rng.choice([None, None, None, (0.0, 3 * dt)])
        return ('set_zero_residual_displacement %r' % (tz,), lambda: s.set_zero_residual_displacement(timezone=tz), (tz,))
    if name == 'set_zero_residual_displacement_and_velocity':
        tz = rng.choice([None, None, (0.0, None), (2 * dt, 6 * dt), (dt, None), [0.0, 4 * dt], (3 * dt, 3 * dt)])
        return ('set_zero_residual_displacement_and_velocity %r' % (tz,),
                lambda: s.set_zero_residual_displacement_and_velocity(timezone=tz), (tz,))
    if name == 'generate_displacement_and_velocity_series':
        trap = rng.choice([True, False])
        return ('generate_displacement_and_velocity_series %r' % trap,
                lambda: s.generate_displacement_and_velocity_series(trap=trap), ())
    if name in ('generate_duration_stats', 'generate_cumulative_stats', 'generate_all_motion_stats',
                'reset_all_motion_stats', 'generate_peak_values'):
        return (name, lambda: getattr(s, name)(), ())
    if name == 'response_series':
        rt = rng.choice([None, 'x'])
        if rt == 'x':
            rt = make_rts(np, rng)
        xi = rng.choice([-1, 0.03])
        return ('response_series', lambda: s.response_series(response_times=rt, xi=xi), (rt,))
    raise ValueError(name)


SIG_OPS = ['reset_values', 'add_constant', 'add_series', 'add_signal', 'butter_pass', 'remove_average', 'remove_poly',
           'running_average', 'get_section_average', 'gen_fa_spectrum', 'generate_fa_spectrum',
           'gen_smooth_fa_spectrum', 'generate_smooth_fa_spectrum', 'set_smooth_fa_freqs', 'set_smooth_freq_range',
           'set_smooth_freq_points', 'set_smooth_by_range', 'clear_cache', 'base_clear_cache', 'set_values_attr',
           'set_label', 'write_through_values', 'deepcopy', 'pickle', 're_init']
ACC_OPS = ['set_response_times', 'gen_response_spectrum', 'correct_me', 'remove_rolling_average',
           'rebase_displacement', 'set_zero_residual_velocity', 'set_zero_residual_displacement',
           'set_zero_residual_displacement_and_velocity', 'generate_displacement_and_velocity_series',
           'generate_duration_stats', 'generate_cumulative_stats', 'generate_all_motion_stats',
           'reset_all_motion_stats', 'generate_peak_values', 'response_series']

# ops that get extra weight in the random histories, per accompanying twin
FOCUS_OPS = {
    1: ['running_average', 'remove_rolling_average', 'gen_fa_spectrum', 'set_zero_residual_displacement_and_velocity'],
    2: ['add_series', 'add_signal', 'butter_pass', 'gen_response_spectrum', 'gen_fa_spectrum', 'running_average'],
    3: ['clear_cache', 'base_clear_cache', 'set_response_times', 'set_smooth_fa_freqs', 'gen_smooth_fa_spectrum',
        'gen_response_spectrum', 'reset_all_motion_stats', 'generate_displacement_and_velocity_series', 'deepcopy',
        'pickle', 'rebase_displacement', 'running_average', 'remove_rolling_average'],
}


def new_object(np, eqsig, rng, acc, values=None, dt=None):
    if values is None:
        values = make_values(np, rng)
    if dt is None:
        dt = rng.choice(DTS)
    kw = {}
    if rng.random() < 0.3:
        kw['smooth_fa_freqs'] = make_freqs(np, rng)
    elif rng.random() < 0.3:
        kw['smooth_freq_range'] = rng.choice([(0.1, 30), (0.5, 20), [1, 10]])
    if rng.random() < 0.2:
        kw['label'] = 'rec'
    if rng.random() < 0.1:
        kw['verbose'] = 1
    if acc:
        r = rng.random()
        if r < 0.6:
            kw['response_times'] = make_rts(np, rng)
        elif r < 0.8:
            kw['response_period_range'] = rng.choice([(0.1, 5), (0.2, 1.0)])
        return eqsig.AccSignal(values, dt, **kw), (values,)
    return eqsig.Signal(values, dt, **kw), (values,)


def part_exhaustive(np, eqsig, cases):
    """every subset of cache groups read, then every mutator / settings change, then all reads twice"""
    rng0 = random.Random(12345)
    base_vals = {
        'f': np.sin(np.arange(24) * 0.7) * 2.0 + np.random.RandomState(3).randn(24) * 0.2 + 0.1,
        'i': np.random.RandomState(4).randint(-9, 9, size=24),
    }
    for acc in (True, False):
        groups = ACC_GROUPS if acc else SIG_GROUPS
        ops = SIG_OPS + (ACC_OPS if acc else [])
        for kind in (('f', 'i') if acc else ('f',)):
            if kind == 'i':
                subsets = [(), tuple(groups)]
            else:
                subsets = [c for r in range(len(groups) + 1) for c in itertools.combinations(groups, r)]
            for isub, sub in enumerate(subsets):
                for iop, opname in enumerate(ops):
                    nvar = 1 if (acc and kind == 'f') else 3
                    for var in range(nvar):
                        rng = random.Random(hash_int('ex', acc, kind, iop, var, isub % 4))
                        sess = Session(eqsig, np)
                        vals = base_vals[kind].copy()
                        if acc:
                            sess.obj = eqsig.AccSignal(vals, 0.01, response_times=np.array([0.1, 0.4, 1.0]))
                        else:
                            sess.obj = eqsig.Signal(vals, 0.01)
                        order = list(sub)
                        rng0.shuffle(order)
                        sess.read_many(order)
                        desc, fn, args = build_op(np, eqsig, rng, sess, opname)
                        sess.do(desc, fn, args)
                        core = CORE_SIG_READS + (CORE_ACC_READS if acc else [])
                        sess.read_many(core)
                        sess.read_many(core)
                        if isub % 16 == 0:
                            sess.read_many(sess.all_reads())
                        sess.log.append(('ctor-arg', digest(vals)))
                        cases.append(('exh acc=%s kind=%s sub=%s op=%s var=%i' % (acc, kind, '+'.join(sub), opname, var),
                                      sess.log))


def hash_int(*parts):
    return int(hashlib.sha1(repr(parts).encode()).hexdigest()[:8], 16)


def part_random(np, eqsig, cases, n_hist, length, focus):
    for ih in range(n_hist):
        rng = random.Random(hash_int('rnd', ih))
        acc = rng.random() < 0.7
        sess = Session(eqsig, np)
        res, wrec, out = sess.guarded(lambda: new_object(np, eqsig, rng, acc))
        if res[0] != 'OK':
            cases.append(('rnd %i ctor failed' % ih, [('ctor', digest((res, wrec, out)))]))
            continue
        sess.obj, ctor_args = res[1]
        ops = SIG_OPS + (ACC_OPS if acc else [])
        fops = [o for o in FOCUS_OPS[focus] if o in ops]
        reads = sess.all_reads()
        for istep in range(length):
            r = rng.random()
            if r < 0.4:
                k = rng.choice([1, 1, 2, 3, 5, len(reads)])
                sess.read_many(rng.sample(sess.all_reads(), min(k, len(reads))))
            else:
                opname = rng.choice(fops) if rng.random() < 0.35 else rng.choice(ops)
                desc, fn, args = build_op(np, eqsig, rng, sess, opname)
                sess.do(desc, fn, args)
                if rng.random() < 0.3:
                    sess.read_many(rng.sample(sess.all_reads(), 2))
        sess.read_many(sess.all_reads())
        sess.log.append(('ctor-arg', digest(ctor_args)))
        cases.append(('rnd %i acc=%s' % (ih, acc), sess.log))


def part_direct(np, eqsig, cases):
    """dense sweeps of the functions whose bodies the edits rewrite"""
    # running_average: every length 0..26 x many widths x dtypes, with reads before (cache hot) and after
    widths = [-3, -1, 0, 1, 2, 3, 4, 5, 6, 7, 8, 9, 12, 13, 25, 26, 27, 51, 52, 53, 2.5, 3.0, 4.5, 7.9, 1e3]
    for n in list(range(0, 15)) + [25, 26, 27, 40]:
        for w in widths:
            for kind in ('f', 'i', 'c'):
                rng = random.Random(hash_int('ra', n, kind))
                vals = make_values(np, rng, n=n, kind=kind)
                for acc in ((True, False) if kind != 'c' else (False,)):
                    sess = Session(eqsig, np)
                    sess.obj = (eqsig.AccSignal if acc else eqsig.Signal)(vals, 0.01)
                    sess.read_many(['values', 'fa_spectrum', 'smooth_fa_spectrum'] + (['pgv', 'pga'] if acc else []))
                    sess.do('running_average %r' % (w,), lambda: sess.obj.running_average(w), (w,))
                    sess.read_many(['values', 'npts', 'fa_spectrum', 'smooth_fa_spectrum'] + (['pgv', 'pga', 'displacement'] if acc else []))
                    cases.append(('direct running_average n=%i w=%r kind=%s acc=%s' % (n, w, kind, acc), sess.log))
    # remove_rolling_average: lengths x windows x dt x motion type x dtype
    for n in list(range(0, 14)) + [21, 33, 64]:
        for dt in (0.01, 0.1):
            for fw in (0.5, 1, 2, 3.3, 5, 10, 20, 25, 50, 100, 101, 1000):
                for mt in ('velocity', 'acc'):
                    for kind in ('f', 'i'):
                        rng = random.Random(hash_int('rra', n, kind))
                        vals = make_values(np, rng, n=n, kind=kind)
                        sess = Session(eqsig, np)
                        sess.obj = eqsig.AccSignal(vals, dt, response_times=[0.2, 1.0])
                        sess.read_many(['values', 'velocity', 'pgd', 'fa_freqs'] + (['s_a'] if n % 3 == 0 else []))
                        sess.do('remove_rolling_average %s %r' % (mt, fw),
                                lambda: sess.obj.remove_rolling_average(mtype=mt, freq_window=fw), ())
                        sess.read_many(['values', 'npts', 'velocity', 'displacement', 'pga', 'pgv', 'pgd', 's_a', 'fa_freqs',
                                        'fa_spectrum', 'time'])
                        cases.append(('direct remove_rolling_average n=%i dt=%r fw=%r mt=%s kind=%s' % (n, dt, fw, mt, kind),
                                      sess.log))
    # gen_fa_spectrum: lengths x explicit n / p2_plus
    for n in list(range(0, 20)) + [31, 32, 33, 100]:
        for kind in ('f', 'i', 'c'):
            rng = random.Random(hash_int('fa', n, kind))
            vals = make_values(np, rng, n=n, kind=kind)
            for nn in (None, 0, 1, 2, 3, 4, 5, 8, 16, 17, 64, 4.0, -2):
                for p2 in ((0, 1, 2, -1, -3) if nn is None else (0,)):
                    sess = Session(eqsig, np)
                    sess.obj = eqsig.Signal(vals, 0.02)
                    sess.do('gen_fa_spectrum', lambda: sess.obj.gen_fa_spectrum(p2_plus=p2, n=nn), ())
                    sess.read_many(['fa_spectrum', 'fa_freqs', 'fa_spectrum_abs', 'smooth_fa_spectrum', 'fa_spectrum', 'values'])
                    cases.append(('direct gen_fa_spectrum n=%i kind=%s nn=%r p2=%r' % (n, kind, nn, p2), sess.log))
    # baseline corrections on short and long records
    tzs = [None, (0.0, None), (0.02, 0.06), (0.01, None), [0.0, 0.04], (0.03, 0.03), (0.0, 10.0), (5.0, None)]
    for n in list(range(0, 10)) + [30]:
        for kind in ('f', 'i', 'sin'):
            rng = random.Random(hash_int('bc', n, kind))
            vals = make_values(np, rng, n=n, kind=kind)
            for meth in ('set_zero_residual_displacement_and_velocity', 'set_zero_residual_velocity',
                         'set_zero_residual_displacement', 'rebase_displacement', 'correct_me'):
                for tz in (tzs if meth.startswith('set_') else [None]):
                    for warm in (False, True):
                        sess = Session(eqsig, np)
                        sess.obj = eqsig.AccSignal(vals, 0.01, response_times=[0.3])
                        if warm:
                            sess.read_many(['values', 'time', 'velocity', 'displacement', 'pga', 'pgv', 'pgd', 's_d',
                                            'smooth_fa_spectrum'])
                        if meth.startswith('set_'):
                            sess.do('%s %r' % (meth, tz), lambda: getattr(sess.obj, meth)(timezone=tz), (tz,))
                        else:
                            sess.do(meth, lambda: getattr(sess.obj, meth)(), ())
                        sess.read_many(['values', 'time', 'velocity', 'displacement', 'pga', 'pgv', 'pgd', 's_d',
                                        'smooth_fa_spectrum', 'npts'])
                        cases.append(('direct %s n=%i kind=%s tz=%r warm=%s' % (meth, n, kind, tz, warm), sess.log))
    # add_series / add_signal argument forms
    class Weird(object):
        def __len__(self):
            return 5
    for n in (0, 1, 5, 12):
        for kind in ('f', 'i', 'f32', 'c'):
            rng = random.Random(hash_int('as', n, kind))
            vals = make_values(np, rng, n=n, kind=kind)
            others = [make_values(np, rng, n=n, kind=k) for k in ('f', 'i', 'list', 'ilist', 'tuple', 'f32', 'c')]
            others += [make_values(np, rng, n=n + 1, kind='f'), 3.0, None, 'abcde', Weird(), np.ones((n, 2)), np.ones((n, n)),
                       [[1.0]] * n, range(n), np.float64(2.0), [True] * n, np.array(5.0)]
            for io, other in enumerate(others):
                for acc in (False, True):
                    if acc and kind == 'c':
                        continue
                    sess = Session(eqsig, np)
                    sess.obj = (eqsig.AccSignal if acc else eqsig.Signal)(vals, 0.01)
                    sess.read_many(['values', 'fa_spectrum'])
                    sess.do('add_series form %i' % io, lambda: sess.obj.add_series(other), (other,))
                    sess.read_many(['values', 'npts', 'fa_spectrum', 'smooth_fa_spectrum'])
                    for dt2 in (0.01, 0.02):
                        if isinstance(other, (list, tuple, np.ndarray)) and np.ndim(other) == 1:
                            sg = eqsig.Signal(other, dt2)
                            sess.do('add_signal form %i dt2=%r' % (io, dt2), lambda: sess.obj.add_signal(sg), (sg,))
                    sess.do('add_signal raw form %i' % io, lambda: sess.obj.add_signal(other), (other,))
                    sess.read_many(['values', 'npts', 'fa_spectrum'])
                    cases.append(('direct add_series n=%i kind=%s form=%i acc=%s' % (n, kind, io, acc), sess.log))
    # butter_pass argument forms
    for n in (8, 30, 64):
        for kind in ('f', 'i'):
            rng = random.Random(hash_int('bp', n, kind))
            vals = make_values(np, rng, n=n, kind=kind)
            cos = [(1.0, 10.0), [1.0, 10.0], np.array([1.0, 10.0]), (1, 10), np.array([1, 10]), (None, 10.0), [2.0, None],
                   (None, None), np.array([None, 5.0], dtype=object), np.array([2.0, None], dtype=object), 5.0, None, 'ab',
                   (1.0, 10.0, 20.0), [], np.array([[1.0, 2.0], [10.0, 20.0]]), (10.0, 1.0), (0.0, 10.0), (1.0, 60.0),
                   (np.float64(1.5), np.float32(12.0)), {0: 1.0, 1: 10.0}, range(1, 3)]
            kws = [{}, {'filter_order': 2}, {'remove_gibbs': 'start'}, {'remove_gibbs': 'end', 'gibbs_extra': 2},
                   {'remove_gibbs': 'mid', 'gibbs_range': 3}, {'remove_gibbs': 'zzz', 'filter_order': 1, 'unknown': 1}]
            for ico, co in enumerate(cos):
                for ikw, kw in enumerate(kws if ico < 8 else kws[:1]):
                    for acc in (False, True):
                        sess = Session(eqsig, np)
                        sess.obj = (eqsig.AccSignal if acc else eqsig.Signal)(vals, 0.01)
                        sess.read_many(['values', 'smooth_fa_spectrum'] + (['pgd'] if acc else []))
                        sess.do('butter_pass form %i kw %i' % (ico, ikw), lambda: sess.obj.butter_pass(co, **kw), (co, kw))
                        sess.read_many(['values', 'npts', 'fa_spectrum', 'smooth_fa_spectrum'] + (['pgd', 'velocity'] if acc else []))
                        cases.append(('direct butter_pass n=%i kind=%s form=%i kw=%i acc=%s' % (n, kind, ico, ikw, acc), sess.log))
    # response spectrum argument forms
    rts = [None, [], [0.0], [0.0, 0.5], np.array([0.0, 0.1, 1.0]), [0.1], (0.2, 0.4), np.array([[0.1, 0.2]]), 'bad', 5.0,
           [0, 1], np.array([1, 2]), [0.5, 0.1], np.array([0.01, 0.02]), [0.0, 0.0, 1.0], [-1.0, 1.0], [float('nan'), 1.0]]
    for n in (1, 2, 20):
        for dt in (0.01, 0.1):
            vals = make_values(np, random.Random(hash_int('rs', n)), n=n, kind='f')
            for irt, rt in enumerate(rts):
                for mdr in (4, 0, 1, 100, -1, 0.5):
                    for xi in (-1, 0.05, 0):
                        if xi == 0 and mdr != 4:
                            continue
                        sess = Session(eqsig, np)
                        sess.obj = eqsig.AccSignal(vals, dt, response_times=[0.3, 0.6])
                        if irt % 2:
                            sess.read_many(['s_a', 'values'])
                        sess.do('gen_response_spectrum form %i mdr=%r xi=%r' % (irt, mdr, xi),
                                lambda: sess.obj.gen_response_spectrum(response_times=rt, xi=xi, min_dt_ratio=mdr), (rt,))
                        sess.read_many(['s_a', 's_v', 's_d', 'response_times', 'values', 'pga'])
                        sess.do('set response_times', lambda: setattr(sess.obj, 'response_times', rt), (rt,))
                        sess.read_many(['s_a', 's_d', 'response_times', 'values'])
                        sess.do('response_series', lambda: sess.obj.response_series(response_times=rt, xi=xi), (rt,))
                        cases.append(('direct gen_response_spectrum n=%i dt=%r form=%i mdr=%r xi=%r' % (n, dt, irt, mdr, xi), sess.log))
    # array subclasses handed to add_series / reset_values / constructor
    for n in (3, 8):
        base = np.arange(n) * 0.5 - 1.0
        subs = [np.ma.masked_array(base + 1, mask=[i % 3 == 0 for i in range(n)]), np.ma.masked_array(base * 2),
                base.view(np.recarray), np.asfortranarray(base), base[::-1], np.arange(2 * n)[::2], np.matrix(base).T]
        for isb, sub in enumerate(subs):
            for acc in (False, True):
                sess = Session(eqsig, np)
                sess.obj = (eqsig.AccSignal if acc else eqsig.Signal)(base, 0.01)
                sess.read_many(['values', 'fa_spectrum'])
                sess.do('add_series sub %i' % isb, lambda: sess.obj.add_series(sub), (sub,))
                sess.read_many(['values', 'npts', 'fa_spectrum'])
                sess.do('reset_values sub %i' % isb, lambda: sess.obj.reset_values(sub), (sub,))
                sess.read_many(['values', 'npts', 'fa_spectrum'])
                sess.do('running_average', lambda: sess.obj.running_average(3), ())
                sess.read_many(['values', 'npts', 'fa_spectrum'])
                sess.log.append(('arg after', digest(sub)))
                sess2 = Session(eqsig, np)
                sess2.do('ctor sub', lambda: setattr(sess2, 'obj', (eqsig.AccSignal if acc else eqsig.Signal)(sub, 0.01)), (sub,))
                if sess2.obj is not None:
                    sess2.read_many(['values', 'npts', 'fa_spectrum'])
                    sess2.do('running_average', lambda: sess2.obj.running_average(3), (sub,))
                    sess2.read_many(['values', 'npts', 'fa_spectrum'])
                cases.append(('direct subclasses n=%i sub=%i acc=%s' % (n, isb, acc), sess.log + sess2.log))
    # constructor forms and settings: class-level defaults must not leak between instances
    s1 = eqsig.AccSignal(np.arange(10.0), 0.01)
    sess1 = Session(eqsig, np)
    sess1.obj = s1
    sess1.read_many(sess1.all_reads())
    s2 = eqsig.AccSignal(np.arange(12.0) ** 2, 0.01)
    sess2 = Session(eqsig, np)
    sess2.obj = s2
    sess2.read_many(sess2.all_reads())
    sess1.do('add_constant', lambda: s1.add_constant(1.0), ())
    sess2.read_many(sess2.all_reads())
    sess1.read_many(sess1.all_reads())
    s3 = eqsig.Signal(np.arange(7.0), 0.01)
    sess3 = Session(eqsig, np)
    sess3.obj = s3
    sess3.read_many(sess3.all_reads())
    cases.append(('direct instance isolation', sess1.log + sess2.log + sess3.log))
    # public names / signatures
    import inspect
    api = []
    for cls in (eqsig.Signal, eqsig.AccSignal):
        for nm in sorted(dir(cls)):
            if nm.startswith('_'):
                continue
            member = inspect.getattr_static(cls, nm)
            if isinstance(member, property):
                api.append((cls.__name__, nm, 'property', member.fset is not None, member.fdel is not None))
            elif callable(member):
                api.append((cls.__name__, nm, str(inspect.signature(member))))
            else:
                api.append((cls.__name__, nm, repr(member)))
    cases.append(('direct public api', [('api', digest(api), repr(api)[:0])]))


def worker(out_path, expected_root):
    import numpy as np
    import eqsig
    root = os.path.realpath(os.path.dirname(os.path.dirname(eqsig.__file__)))
    if root != os.path.realpath(expected_root):
        raise SystemExit('worker imported eqsig from %s, expected %s' % (root, expected_root))
    import eqsig.single  # noqa
    try:
        import scipy.signal  # noqa  (warm import so that it is not attributed to a step)
        import scipy.integrate  # noqa
    except ImportError:
        pass
    cases = []
    t0 = _time.time()
    part_direct(np, eqsig, cases)
    t1 = _time.time()
    part_exhaustive(np, eqsig, cases)
    t2 = _time.time()
    part_random(np, eqsig, cases, n_hist=900, length=14, focus=FOCUS)
    t3 = _time.time()
    sys.stderr.write('worker %s: direct %.1fs exhaustive %.1fs random %.1fs, %i cases\n'
                     % (expected_root, t1 - t0, t2 - t1, t3 - t2, len(cases)))
    with open(out_path, 'wb') as f:
        pickle.dump(cases, f, protocol=2)


# --------------------------------------------------------------------------------------
# parent
# --------------------------------------------------------------------------------------
def main():
    cwd = os.getcwd()
    if not os.path.isdir(os.path.join(cwd, 'eqsig')):
        print('run with cwd = the worktree (no eqsig/ package in %s)' % cwd)
        return 2
    tmp = tempfile.mkdtemp(prefix='eqsig_equiv_')
    try:
        orig_root = os.path.join(tmp, 'orig')
        os.makedirs(orig_root)
        data = subprocess.check_output(['git', 'archive', 'HEAD', 'eqsig'], cwd=cwd)
        with tarfile.open(fileobj=io.BytesIO(data)) as tf:
            tf.extractall(orig_root)
        n_changed = 0
        for dirpath, dirnames, filenames in os.walk(os.path.join(cwd, 'eqsig')):
            dirnames[:] = [d for d in dirnames if d != '__pycache__']
            for fn in filenames:
                if not fn.endswith('.py'):
                    continue
                p_new = os.path.join(dirpath, fn)
                p_old = os.path.join(orig_root, os.path.relpath(p_new, cwd))
                if not os.path.exists(p_old) or open(p_old, 'rb').read() != open(p_new, 'rb').read():
                    n_changed += 1
                    print('edited file: %s' % os.path.relpath(p_new, cwd))
        if n_changed == 0:
            print('note: the working tree package is identical to HEAD (no edit applied)')
        procs = []
        outs = []
        errs = []
        for tag, root in (('orig', orig_root), ('edit', cwd)):
            out_path = os.path.join(tmp, 'transcript_%s.pkl' % tag)
            env = dict(os.environ)
            env['PYTHONPATH'] = root
            env['PYTHONHASHSEED'] = '0'
            env['PYTHONDONTWRITEBYTECODE'] = '1'
            errf = open(os.path.join(tmp, 'stderr_%s.txt' % tag), 'wb')
            procs.append(subprocess.Popen([sys.executable, os.path.abspath(__file__), '--worker', out_path, root],
                                          env=env, cwd=tmp, stderr=errf, stdout=errf))
            outs.append(out_path)
            errs.append(errf)
        rcs = [p.wait() for p in procs]
        for errf in errs:
            errf.close()
            lines = open(errf.name, 'rb').read().decode('utf-8', 'replace').splitlines()
            lines = [ln for ln in lines if 'LASCL' not in ln]  # LAPACK chatter for NaN input (same in both)
            print('\n'.join(lines[-(3 if not any(rcs) else 40):]))
        if any(rcs):
            print('worker failed: return codes %r' % (rcs,))
            return 3
        with open(outs[0], 'rb') as f:
            c_orig = pickle.load(f)
        with open(outs[1], 'rb') as f:
            c_edit = pickle.load(f)
    finally:
        shutil.rmtree(tmp, ignore_errors=True)

    n_bad = 0
    if len(c_orig) != len(c_edit):
        print('MISMATCH: number of cases differs: %i vs %i' % (len(c_orig), len(c_edit)))
        n_bad += 1
    n_steps = 0
    for (d1, l1), (d2, l2) in zip(c_orig, c_edit):
        n_steps += len(l1)
        if d1 != d2 or l1 != l2:
            n_bad += 1
            if n_bad <= 15:
                print('MISMATCH in case: %s' % d1)
                if d1 != d2:
                    print('    edited case description: %s' % d2)
                for i, (a, b) in enumerate(zip(l1, l2)):
                    if a != b:
                        print('    first differing step %i:\n      orig %r\n      edit %r' % (i, a, b))
                        print('    preceding steps: %r' % ([x[:2] for x in l1[max(0, i - 6):i]],))
                        break
                else:
                    print('    transcript lengths differ: %i vs %i' % (len(l1), len(l2)))
    print('%i cases, %i recorded steps compared, %i mismatching cases' % (len(c_orig), n_steps, n_bad))
    if n_bad:
        print('NOT EQUIVALENT')
        return 1
    print('EQUIVALENT on all cases')
    return 0


if __name__ == '__main__':
    if len(sys.argv) >= 4 and sys.argv[1] == '--worker':
        worker(sys.argv[2], sys.argv[3])
        sys.exit(0)
    sys.exit(main())

"""Equivalence check for twin1 (eqsig/sdof.py: pseudo_response_spectra / true_response_spectra
share an extracted PGA-substitution helper, single w construction).

Run with twin1 applied, cwd = the worktree.  Exit 0 iff original and edited agree bit-for-bit.
"""
import os
import subprocess
import sys
import types
import warnings

HERE = os.getcwd()
sys.path.insert(0, HERE)

import numpy as np  # noqa: E402

import eqsig  # noqa: E402
from eqsig import sdof as new  # noqa: E402

assert eqsig.__file__.startswith(HERE), (eqsig.__file__, HERE)


def load_original(relpath, name):
    src = subprocess.check_output(['git', 'show', 'HEAD:' + relpath], cwd=HERE).decode()
    mod = types.ModuleType(name)
    mod.__file__ = '<HEAD:%s>' % relpath
    mod.__package__ = 'eqsig'
    exec(compile(src, mod.__file__, 'exec'), mod.__dict__)
    return mod


old = load_original('eqsig/sdof.py', 'eqsig._orig_sdof')
assert old.pseudo_response_spectra is not new.pseudo_response_spectra

N_CHECKS = 0


def same(a, b, ctx):
    global N_CHECKS
    N_CHECKS += 1
    assert type(a) is type(b), (ctx, type(a), type(b))
    if isinstance(a, tuple):
        assert len(a) == len(b), ctx
        for i, (x, y) in enumerate(zip(a, b)):
            same(x, y, ctx + ('item', i))
        return
    if isinstance(a, np.ndarray):
        assert a.dtype == b.dtype, (ctx, a.dtype, b.dtype)
        assert a.shape == b.shape, (ctx, a.shape, b.shape)
        assert a.tobytes() == b.tobytes(), (ctx, a, b)
        return
    if isinstance(a, (float, np.floating)):
        assert np.array(a).tobytes() == np.array(b).tobytes(), (ctx, a, b)
        return
    assert a == b, (ctx, a, b)


def snapshot(x):
    if isinstance(x, np.ndarray):
        return ('nd', x.dtype.str, x.shape, x.tobytes())
    return ('py', type(x).__name__, repr(x))


def call(fn, args, kwargs):
    with warnings.catch_warnings(record=True) as wlist:
        warnings.simplefilter('always')
        try:
            out = ('ok', fn(*args, **kwargs))
        except Exception as exc:  # compared by type and message
            out = ('raise', type(exc), str(exc))
    return out, sorted((w.category.__name__, str(w.message)) for w in wlist)


def compare(fname, args, kwargs=None, ctx=()):
    kwargs = kwargs or {}
    before = [snapshot(a) for a in args]
    r_old, w_old = call(getattr(old, fname), args, kwargs)
    mid = [snapshot(a) for a in args]
    r_new, w_new = call(getattr(new, fname), args, kwargs)
    after = [snapshot(a) for a in args]
    ctx = (fname,) + tuple(ctx)
    assert before == mid == after, ('argument mutated', ctx)
    assert r_old[0] == r_new[0], (ctx, r_old, r_new)
    if r_old[0] == 'ok':
        same(r_old[1], r_new[1], ctx)
    else:
        assert r_old[1:] == r_new[1:], (ctx, r_old, r_new)
    assert w_old == w_new, (ctx, w_old, w_new)
    return r_new


rng = np.random.RandomState(20260926)


def period_sets(dt):
    """period lists on either side of 6*dt, with / without leading zero, several containers"""
    base = [
        [0.5],
        [0.0, 0.5],
        [0.0, dt, 3 * dt, 5.999 * dt, 6 * dt, 6.001 * dt, 10 * dt, 1.0, 4.0],
        [dt, 2 * dt, 6 * dt, 7 * dt, 0.3, 2.0],
        [0.0],
        [-0.0, 0.2],
        list(np.linspace(0.05, 3.0, 17)),
        [0.0] + list(np.logspace(-2, 0.7, 11)),
        [1, 2, 3],            # integer periods
        [0, 1, 2],            # integer periods, leading zero
        [2.0, 0.4, 0.02],     # unsorted
        [0.5, 0.5, 0.5],      # repeated
    ]
    out = []
    for b in base:
        out.append(('list', list(b)))
        out.append(('tuple', tuple(b)))
        out.append(('array', np.array(b)))
    out.append(('int-array', np.array([0, 1, 3])))
    out.append(('f32-array', np.array([0.0, 0.1, 1.0], dtype=np.float32)))
    return out


def records():
    recs = []
    for n in (2, 3, 5, 6, 7, 37, 200):
        recs.append(('randn%i' % n, rng.randn(n)))
    recs.append(('zeros', np.zeros(25)))
    recs.append(('ones', np.ones(12)))
    recs.append(('negzeros', -np.zeros(9)))
    recs.append(('allneg', -np.abs(rng.randn(40)) - 0.1))
    recs.append(('allpos', np.abs(rng.randn(40)) + 0.1))
    recs.append(('int', rng.randint(-5, 6, size=50)))
    recs.append(('int8', rng.randint(-100, 100, size=30).astype(np.int8)))
    recs.append(('uint8', rng.randint(0, 200, size=30).astype(np.uint8)))
    recs.append(('f32', rng.randn(64).astype(np.float32)))
    recs.append(('pulse', np.concatenate([np.zeros(10), [3.0], np.zeros(30)])))
    recs.append(('sine', 0.8 * np.sin(np.arange(400) * 0.07)))
    recs.append(('big', 1e6 * rng.randn(30)))
    recs.append(('tiny', 1e-12 * rng.randn(30)))
    recs.append(('noncontig', rng.randn(120)[::3]))
    return recs


# 1. the spectra functions
for dt in (0.01, 0.005, 0.02, 0.1, 1.0):
    for rname, rec in records():
        for pname, periods in period_sets(dt):
            for xi in (0.0, 0.05, 0.3, 0.99):
                ctx = (rname, dt, pname, xi)
                compare('pseudo_response_spectra', (rec, dt, periods, xi), ctx=ctx)
                compare('true_response_spectra', (rec, dt, periods, xi), ctx=ctx)

# keyword spelling, integer dt / xi
rec = rng.randn(80)
compare('pseudo_response_spectra', (), dict(motion=rec, dt=0.01, periods=[0, 0.03, 0.5], xi=0.05))
compare('true_response_spectra', (), dict(motion=rec, dt=0.01, periods=[0, 0.03, 0.5], xi=0.05))
compare('pseudo_response_spectra', (rec, 1, [0, 3, 5, 6, 7, 20], 0))
compare('true_response_spectra', (rec, 1, [0, 3, 5, 6, 7, 20], 0))
compare('pseudo_response_spectra', (rec, np.float64(0.01), np.array([0.04, 0.5]), np.float64(0.05)))

# 2. same exceptions for inputs the functions reject
bad = [
    (list(rec), 0.01, [0.1, 1.0], 0.05),          # list record: absmax needs an ndarray
    (tuple(rec), 0.01, [0.0, 1.0], 0.05),
    (rec, 0.01, [], 0.05),                        # empty period list
    (rec, 0.01, 0.5, 0.05),                       # scalar period
    (rec, 0.01, [[0.1, 0.2]], 0.05),              # 2-d periods
    (np.array([]), 0.01, [0.1, 1.0], 0.05),       # empty record
    (rec, 0.01, [1.0, 0.0], 0.05),                # zero not in front
    (rec, 0.01, [0.0, 0.0, 1.0], 0.05),           # two zeros
    (rec, 0.01, [0.1, 1.0], 1.0),                 # xi = 1
    (rec, 'a', [0.1, 1.0], 0.05),
    (rec, 0.01, ['a'], 0.05),
    (rec, 0.01, None, 0.05),
    (rec, 0.01, [np.nan, 1.0], 0.05),
]
for i, args in enumerate(bad):
    compare('pseudo_response_spectra', args, ctx=('bad', i))
    compare('true_response_spectra', args, ctx=('bad', i))

# 3. absmax itself is untouched but is what the new helper calls
for shape in ((7,), (3, 9), (1, 1), (4, 1)):
    arr = rng.randn(*shape)
    compare('absmax', (arr,))
    if arr.ndim == 2:
        compare('absmax', (arr,), dict(axis=1))
        compare('absmax', (arr, 0))

# 4. callers of the edited functions, through the edited package, against the original functions
import eqsig.im  # noqa: E402

for n, dt in ((300, 0.01), (50, 0.02), (11, 0.1)):
    for dtype in (float, int):
        vals = (3 * rng.randn(n)).astype(dtype)
        for rts in (None, [0.0, 0.05, 0.5, 2.0], (0.03, 0.3), np.array([0, 1, 2])):
            for mdr in (1, 2, 4, 8):
                for xi in (-1, 0.0, 0.2):
                    asig = eqsig.AccSignal(vals, dt, response_times=rts)
                    asig.gen_response_spectrum(xi=xi, min_dt_ratio=mdr)
                    rt = asig.response_times
                    t0 = rt[0] if rt[0] != 0 else rt[1]
                    target = max(t0 / 20, dt / mdr)
                    if target < dt:
                        v_i, dt_i = eqsig.fns.time_step.interp_array_to_approx_dt(asig.values, dt, target, even=False)
                    else:
                        v_i, dt_i = asig.values, dt
                    ref = old.pseudo_response_spectra(v_i, dt_i, rt, 0.05 if xi == -1 else xi)
                    same((asig.s_d, asig.s_v, asig.s_a), ref, ('AccSignal', n, dt, dtype, mdr, xi))
        asig = eqsig.AccSignal(vals, dt)
        psa = old.pseudo_response_spectra(asig.values, dt, np.arange(0.1, 1.51, 0.01), xi=0.05)
        from scipy.integrate import cumulative_trapezoid
        same(eqsig.im.calc_asi(asig), max(0.01 * cumulative_trapezoid(abs(psa[2]))) / 9.81, ('asi', n))
        psv = old.pseudo_response_spectra(asig.values, dt, np.arange(0.1, 2.51, 0.01), xi=0.05)
        same(eqsig.im.calc_vsi(asig), max(0.01 * cumulative_trapezoid(abs(psv[1]))), ('vsi', n))

print('equiv1: %i comparisons identical' % N_CHECKS)

"""Equivalence check for twin2 (run with twin2 applied, cwd = the worktree).

Compares the ORIGINAL package (extracted from git HEAD into a temporary directory) with the
EDITED package (the working tree) on exhaustive small series, random series and edge cases.
Both are run in separate subprocesses (so that the editable install of eqsig cannot interfere)
and their recorded results are compared here.  Exit status 0 iff everything matches.
"""
import itertools
import os
import pickle
import subprocess
import sys
import tempfile



def _rec(x):
    """A comparable, picklable record of a result or of an argument after the call."""
    import numpy as np
    if isinstance(x, np.ndarray):
        return ('nd', str(x.dtype), x.shape, x.tobytes())
    if isinstance(x, np.generic):
        return ('ng', str(x.dtype), x.tobytes())
    if isinstance(x, (list, tuple)):
        return (type(x).__name__,) + tuple(_rec(v) for v in x)
    return (type(x).__name__, repr(x))


def _call(fn, *args, **kwargs):
    import copy
    args = copy.deepcopy(args)
    try:
        out = ('ok', _rec(fn(*args, **kwargs)))
    except BaseException as e:  # noqa
        out = ('exc', type(e).__name__, str(e))
    return out, _rec(list(args))  # result and state of the arguments after the call


def corpus():
    """Deterministic list of (label, series) pairs."""
    import numpy as np
    items = []
    # exhaustive, small alphabets
    for n in range(1, 7):
        for tup in itertools.product((-2, -1, 0, 1, 2), repeat=n):
            items.append(('ex5', np.array(tup, dtype=float)))
    for n in range(1, 6):
        for tup in itertools.product((-3, -2, -1, 0, 1, 2, 3), repeat=n):
            items.append(('ex7', np.array(tup, dtype=float)))
    rng = np.random.RandomState(12)
    # sampled from the longer exhaustive domains
    for n in (7, 8):
        for _ in range(3000):
            items.append(('s5', rng.randint(-2, 3, size=n).astype(float)))
    for n in (6,):
        for _ in range(3000):
            items.append(('s7', rng.randint(-3, 4, size=n).astype(float)))
    # lists, tuples, integer and float32 dtypes
    for _ in range(1500):
        n = rng.randint(1, 12)
        v = rng.randint(-3, 4, size=n)
        items.append(('list_int', [int(a) for a in v]))
        items.append(('list_float', [float(a) for a in v]))
        items.append(('tuple', tuple(float(a) for a in v)))
        items.append(('int64', v.astype(np.int64)))
        items.append(('int32', v.astype(np.int32)))
        items.append(('f32', (v * 0.5).astype(np.float32)))
    # zeros / constants / runs of zeros
    for n in (1, 2, 3, 5, 50):
        items.append(('zeros', np.zeros(n)))
        items.append(('ones', np.ones(n)))
        items.append(('mones', -np.ones(n)))
        items.append(('izeros', np.zeros(n, dtype=int)))
    for _ in range(1500):
        n = rng.randint(2, 40)
        v = rng.randint(-2, 3, size=n).astype(float)
        v[rng.rand(n) < 0.5] = 0.0
        items.append(('zero_runs', v))
    # random series with several levels per excursion
    for n in (10, 37, 100, 333, 1000, 2500, 5000):
        for rep in range(6):
            t = np.arange(n)
            v = np.sin(t * rng.uniform(0.01, 0.5)) * rng.uniform(0.5, 3) + rng.normal(0, 0.3, n)
            items.append(('rand', v))
            items.append(('rand_q', np.round(v * 4) / 4))  # quantised: exact zeros and ties
            items.append(('rand_small', v * 1e-2))
            w = np.cumsum(rng.normal(0, 1, n))
            items.append(('walk', w))
            items.append(('walk_q', np.round(w)))
    # long chains of small half cycles between large ones: consecutive prunable segments for tol > 0
    for n in (20, 61, 200, 1500):
        for rep in range(25):
            amp = np.where(rng.rand(n) < 0.3, rng.uniform(1, 3), rng.uniform(0.01, 0.4, n))
            sgn = np.where(rng.rand(n) < 0.6, -1.0, 1.0) ** np.arange(n)
            v = amp * sgn
            v[rng.rand(n) < 0.1] = 0.0
            items.append(('burst', v))
            items.append(('burst_q', np.round(v * 5) / 5))
    items.append(('non_contig', np.round(rng.normal(0, 2, 400))[::3]))
    items.append(('signed_zero', np.array([-0.0, 1.0, -0.0, 0.0, -1.0, 0.0, -0.0, 2.0])))
    items.append(('tiny', np.array([1e-200, -1e-200, 1e-200, 0.0, -1e-300, 1e-300])))  # product underflows
    return items


def worker(path, outfile):
    sys.path.insert(0, path)
    import numpy as np
    import eqsig
    assert os.path.realpath(eqsig.__file__).startswith(os.path.realpath(path)), (eqsig.__file__, path)
    import eqsig.fns.peaks_and_crossings as pc

    class Sig(object):
        def __init__(self, values):
            self.values = values

    results = []
    for label, v in corpus():
        big = len(v) > 50
        vmax = float(np.max(np.abs(np.asarray(v, dtype=float)))) if len(v) else 1.0
        if label.startswith('burst'):
            tols = (0.0, 0.05, 0.1, 0.2, 0.2000001, 0.3, 0.4, 0.41, 0.6, 1.0, 2.0, 3.5)
        elif big:
            tols = (0, 0.0, 0.3 * vmax, 0.05 * vmax, 1e-9)
        elif label in ('ex5', 'ex7'):
            tols = (0.0, 0.5, 1.0, 1.5, 2.5)
        else:
            tols = (0, 0.0, 0.5, 1, 1.0, 1.5, 2.5, np.float64(0.25), 10.0)
        for tol in tols:
            for kaz in (False, True):
                results.append((label, 'zc', kaz, repr(tol),
                                _call(pc.get_zero_crossings_array_indices, v, keep_adj_zeros=kaz, tol=tol)))
            results.append((label, 'sp', repr(tol), _call(pc.get_switched_peak_array_indices, v, tol=tol)))
        if label in ('ex5', 'ex7') and len(v) > 4:
            continue
        # default / positional argument forms and the dependants
        results.append((label, 'zc_def', _call(pc.get_zero_crossings_array_indices, v)))
        results.append((label, 'zc_pos', _call(pc.get_zero_crossings_array_indices, v, True, 0.5)))
        results.append((label, 'sp_def', _call(pc.get_switched_peak_array_indices, v)))
        results.append((label, 'sp_pos', _call(pc.get_switched_peak_array_indices, v, 0.5)))
        results.append((label, 'zc_sig', _call(pc.get_zero_crossings_indices, Sig(v))[0]))
        results.append((label, 'sp_sig', _call(pc.get_switched_peak_indices, Sig(v))[0]))
        results.append((label, 'sp_sig_raw', _call(pc.get_switched_peak_indices, v)))
        results.append((label, 'zp', _call(pc.get_zero_and_peak_array_indices, v)))
        results.append((label, 'zp1', _call(pc.get_zero_and_peak_array_indices, v, None, 1)))
        results.append((label, 'ncyc_sw', _call(pc.get_n_cyc_array, v, 'switched')))
        results.append((label, 'ncyc_sw_pk', _call(pc.get_n_cyc_array, v, 'switched', 'peak')))
    # invalid / boundary configurations must fail in the same way
    for v in ([], np.array([]), [1.0, -1.0]):
        for tol in (-1.0, 0.0, 0.5):
            results.append(('edge', 'zc', repr(tol), _call(pc.get_zero_crossings_array_indices, v, tol=tol)))
            results.append(('edge', 'sp', repr(tol), _call(pc.get_switched_peak_array_indices, v, tol=tol)))
    # results must be fresh arrays that the caller may modify without affecting later calls
    v = np.array([0.0, 1.0, -1.0, 0.0, 0.0, 2.0, -3.0])
    r1 = pc.get_zero_crossings_array_indices(v)
    r1[:] = -7
    r2 = pc.get_switched_peak_array_indices(v)
    r2[:] = -7
    results.append(('fresh', _rec(pc.get_zero_crossings_array_indices(v)),
                    _rec(pc.get_switched_peak_array_indices(v)), _rec(v),
                    r1.flags.writeable, r2.flags.writeable, r1.flags.owndata or r1.base is not v))
    # public names of the module are unchanged
    results.append(('names', sorted(n for n in dir(pc) if not n.startswith('_'))))
    with open(outfile, 'wb') as f:
        pickle.dump(results, f, protocol=pickle.HIGHEST_PROTOCOL)


def main():
    here = os.getcwd()
    assert os.path.isdir(os.path.join(here, 'eqsig')), 'run with cwd = the worktree'
    tmp = tempfile.mkdtemp(prefix='c12_equiv_', dir='/tmp')
    subprocess.check_call('git archive HEAD eqsig | tar -x -C %s' % tmp, shell=True, cwd=here)
    env = dict(os.environ)
    env.pop('PYTHONPATH', None)
    procs = []
    for name, path in (('orig', tmp), ('edit', here)):  # the two workers run concurrently
        outfile = os.path.join(tmp, name + '.pkl')
        procs.append((outfile, subprocess.Popen(
            [sys.executable, os.path.abspath(__file__), '--worker', path, outfile], cwd=path, env=env)))
    outs = []
    for outfile, proc in procs:
        assert proc.wait() == 0, 'worker failed'
        with open(outfile, 'rb') as f:
            outs.append(pickle.load(f))
    orig, edit = outs
    assert len(orig) == len(edit), (len(orig), len(edit))
    n_bad = 0
    n_exc = 0
    for a, b in zip(orig, edit):
        if a != b:
            n_bad += 1
            if n_bad <= 10:
                print('MISMATCH\n  orig: %r\n  edit: %r' % (a, b))
        if any(isinstance(x, tuple) and len(x) and isinstance(x[0], tuple) and x[0][:1] == ('exc',) for x in a):
            n_exc += 1
    # the edited file must really differ from the original (i.e. the twin is applied)
    changed = subprocess.call(['git', 'diff', '--quiet', 'HEAD', '--', 'eqsig'], cwd=here) != 0
    print('compared %d records (%d raising in both), mismatches: %d, twin applied: %s'
          % (len(orig), n_exc, n_bad, changed))
    import shutil
    shutil.rmtree(tmp, ignore_errors=True)
    if n_bad or not changed:
        sys.exit(1)
    print('EQUIVALENT')


if __name__ == '__main__':
    if len(sys.argv) > 1 and sys.argv[1] == '--worker':
        worker(sys.argv[2], sys.argv[3])
    else:
        main()

"""
Equivalence check for twin1 (C16, eqsig/loader.py).

Run with the twin applied, cwd = the worktree:

    /venv/bin/python out/equiv1.py

The ORIGINAL package is extracted from git (``git archive HEAD eqsig``) into a temporary directory
under /tmp. The same deterministic scenario program is then executed twice in sub-processes - once
importing the original package and once importing the edited package of the worktree - and the
recorded observations (returned values incl. dtype/shape/bytes, written file contents, exceptions,
warnings, argument mutation, complete object state) are compared for exact equality.

Exit status 0 iff everything matches.
"""
import os
import pickle
import shutil
import subprocess
import sys
import tempfile

WORKTREE = os.path.dirname(os.path.dirname(os.path.abspath(__file__)))


# --------------------------------------------------------------------------------------------------
# worker: runs the scenarios against whatever `eqsig` is first on sys.path
# --------------------------------------------------------------------------------------------------

def enc(x, tmp):
    """Encode a result into something picklable that compares exactly (bit-for-bit for arrays)"""
    import numpy as np
    if isinstance(x, np.ndarray):
        if x.dtype == object:
            return ("ndarray-object", x.shape, [enc(v, tmp) for v in x.ravel().tolist()])
        return ("ndarray", str(x.dtype), x.shape, np.ascontiguousarray(x).tobytes())
    if isinstance(x, np.generic):
        return ("npscalar", type(x).__name__, str(x.dtype), x.tobytes())
    if isinstance(x, bool) or x is None:
        return ("py", type(x).__name__, x)
    if isinstance(x, float):
        import struct
        return ("float", struct.pack("<d", x))
    if isinstance(x, int):
        return ("int", x)
    if isinstance(x, str):
        return ("str", x.replace(tmp, "<TMP>"))
    if isinstance(x, bytes):
        return ("bytes", x)
    if isinstance(x, (list, tuple)):
        return (type(x).__name__, [enc(v, tmp) for v in x])
    if isinstance(x, dict):
        return ("dict", sorted((repr(k), enc(v, tmp)) for k, v in x.items()))
    if hasattr(x, "__dict__") and type(x).__module__.startswith("eqsig"):
        return ("object", type(x).__module__ + "." + type(x).__name__, enc(vars(x), tmp))
    return ("repr", type(x).__name__, repr(x).replace(tmp, "<TMP>"))


def worker(out_path):
    import warnings
    import numpy as np
    import eqsig
    from eqsig import loader

    tmp = tempfile.mkdtemp(prefix="c16w_", dir="/tmp")
    obs = []  # ordered list of (key, encoded observation)

    def call(key, fn, *args, **kwargs):
        """Call fn, record result or exception and warnings"""
        with warnings.catch_warnings(record=True) as wlist:
            warnings.simplefilter("always")
            try:
                res = fn(*args, **kwargs)
                rec = ("ok", enc(res, tmp))
            except Exception as e:  # noqa
                res = None
                rec = ("exc", type(e).__name__, str(e).replace(tmp, "<TMP>"))
        # ResourceWarnings depend on garbage-collection timing (and on whether a file handle is leaked when an
        # INVALID, non-str label makes the writer raise), they are not part of the compared behaviour.
        wrec = [(w.category.__name__, str(w.message).replace(tmp, "<TMP>")) for w in wlist
                if not issubclass(w.category, ResourceWarning)]
        obs.append((key, rec, wrec))
        return res

    def file_bytes(key, ffp):
        if os.path.exists(ffp):
            with open(ffp, "rb") as f:
                obs.append((key, ("file", f.read()), []))
        else:
            obs.append((key, ("nofile",), []))

    ms = [None, 1, 1.0, 2.5, -1.0, 0.0, np.float64(3.0), 9.81, 1e-3, 7]

    def load_all(key, ffp, full=True):
        call(key + "/lvd", loader.load_values_and_dt, ffp)
        call(key + "/lvd_pkg", eqsig.load_values_and_dt, ffp)
        call(key + "/load_signal", loader.load_signal, ffp)
        for astype in ("sig", "signal", "acc_sig", "asig", "", None, 3):
            call(key + "/load_signal[%r]" % (astype,), loader.load_signal, ffp, astype=astype)
        call(key + "/load_signal_pos", loader.load_signal, ffp, "acc_sig")
        for m in (ms if full else ms[:4]):
            if m is None:
                call(key + "/load_sig", loader.load_sig, ffp)
                call(key + "/load_asig", loader.load_asig, ffp)
                call(key + "/load_asig[T]", loader.load_asig, ffp, load_label=True)
                call(key + "/load_asig[F]", loader.load_asig, ffp, load_label=False)
                call(key + "/load_asig[1]", loader.load_asig, ffp, 1)
                call(key + "/load_asig[0]", loader.load_asig, ffp, 0)
            else:
                call(key + "/load_sig[m=%r]" % (m,), loader.load_sig, ffp, m=m)
                call(key + "/load_sig[pos m=%r]" % (m,), eqsig.load_sig, ffp, m)
                call(key + "/load_asig[m=%r]" % (m,), loader.load_asig, ffp, m=m)
                call(key + "/load_asig[T,m=%r]" % (m,), eqsig.load_asig, ffp, load_label=True, m=m)
                call(key + "/load_asig[pos T,m=%r]" % (m,), loader.load_asig, ffp, True, m)

    def roundtrip(key, values, dt, label, full=True):
        """save (both entry points) -> load with every entry point -> save again -> load again"""
        ffp = os.path.join(tmp, "rt_%i.txt" % len(obs))
        before = pickle.dumps(enc(values, tmp))
        call(key + "/save", loader.save_values_and_dt, ffp, values, dt, label)
        obs.append((key + "/arg-unchanged", pickle.dumps(enc(values, tmp)) == before, []))
        file_bytes(key + "/file", ffp)
        if not os.path.exists(ffp):
            return
        load_all(key, ffp, full=full)
        # multi-step history: load an object, save the object, load again, scale, save, load
        for name, ldr in (("sig", loader.load_sig), ("asig", loader.load_asig)):
            obj = call(key + "/hist/%s/load" % name, ldr, ffp)
            if obj is None:
                continue
            ffp2 = ffp + "." + name
            call(key + "/hist/%s/save_signal" % name, eqsig.save_signal, ffp2, obj)
            obs.append((key + "/hist/%s/state-after-save" % name, enc(obj, tmp), []))
            file_bytes(key + "/hist/%s/file" % name, ffp2)
            obj2 = call(key + "/hist/%s/reload" % name, loader.load_asig, ffp2, True, 2.0)
            if obj2 is None:
                continue
            ffp3 = ffp2 + ".3"
            call(key + "/hist/%s/save3" % name, loader.save_signal, ffp3, obj2)
            file_bytes(key + "/hist/%s/file3" % name, ffp3)
            call(key + "/hist/%s/reload3" % name, loader.load_signal, ffp3, "acc_sig")
            call(key + "/hist/%s/reload3v" % name, loader.load_values_and_dt, ffp3)

    rng = np.random.RandomState(20160916)

    # ---- 1. edge cases from the quantifier ---------------------------------------------------
    labels = ["m1", "my label", " leading and trailing ", "two  spaces", "tab\tlabel", "", "1 2 3",
              "0.5", u"\u00e9tiquette \u5730\u9707", "label, with, commas", "#hash", "a" * 300]
    dts = [1e-4, 0.0001, 0.001, 0.005, 0.01, 0.02, 0.025, 0.1, 0.5, 0.99995, 1.0, 1, 2, 1.5, 10.0, 12.3456,
           99.9999, 100, 100.0, np.float64(0.01), np.float32(0.02), np.int64(3), 0.00125, 0.33333333]
    edge_values = [
        [0.0], [1.5], [-2.25], [1e8], np.array([3]),  # length one
        [0.0, 0.0], [0.0, -0.0, 0.0], np.zeros(5), np.zeros(4, dtype=int),
        [1, 2, 3], (1, 2, 3), [1, -2.5, 3], np.array([1, -2, 3]), np.arange(7, dtype=np.int32),
        np.array([1.5, -2.5, 3.25], dtype=np.float32),
        [1e-7, -1e-7, 4.9e-7, 5.1e-7, -5e-7, 5e-7], [0.0000005, 0.0000015, 0.0000025],
        [1e6, -1e6, 123456.789012345, -98765.4321], [1e15, -1e15, 1e22, 1e300, -1e300],
        [0.1234565, 0.1234575, -0.1234565], np.array([1.0, 2.0, 3.0])[::-1], np.arange(10.)[::2],
        np.linspace(-1, 1, 11), np.array([[1.0], [2.0], [3.0]]), [np.float64(1.25), np.float64(-3.5)],
        [True, False, True], [float("nan"), 1.0, float("inf"), -float("inf")], [],
        np.array([]), np.array([[1.0, 2.0], [3.0, 4.0]]), ["1.0", "2.0"], [None, 1.0], np.array(2.0), 5.0,
    ]
    for i, v in enumerate(edge_values):
        roundtrip("edge-values[%i]" % i, v, dts[i % len(dts)], labels[i % len(labels)], full=(i % 4 == 0))
    for i, dt in enumerate(dts):
        roundtrip("edge-dt[%i]" % i, rng.randn(1 + i % 6) * 10 ** rng.randint(-3, 4), dt, labels[(i + 3) % len(labels)],
                  full=(i % 6 == 0))
    for i, lab in enumerate(labels):
        roundtrip("edge-label[%i]" % i, rng.randn(2 + i % 5), dts[(i * 5 + 1) % len(dts)], lab, full=(i % 6 == 0))
    # labels / dt outside the documented domain (must still behave identically)
    for i, lab in enumerate([None, 5, b"bytes", "line\nbreak", "form\x0cfeed", "cr\rlabel", "u2028\u2028x", ["l"]]):
        roundtrip("odd-label[%i]" % i, [1.0, -2.0, 3.0], 0.01, lab, full=False)
    for i, dt in enumerate([0.0, -0.01, 1e-5, 1e5, "0.01", None, float("nan"), float("inf"), 1e20, [0.01]]):
        roundtrip("odd-dt[%i]" % i, [1.0, -2.0, 3.0], dt, "odd dt", full=False)

    # ---- 2. random records -------------------------------------------------------------------
    for i in range(70):
        n = int(rng.choice([1, 2, 3, 4, 5, 8, 10, 17, 64, 100, 257, 1000]))
        scale = 10.0 ** rng.randint(-7, 9)
        v = rng.randn(n) * scale
        kind = i % 6
        if kind == 1:
            v = v.tolist()
        elif kind == 2:
            v = np.round(v).astype(int)
        elif kind == 3:
            v[rng.rand(n) < 0.4] = 0.0
        elif kind == 4:
            v = tuple(v.tolist())
        elif kind == 5:
            v = v.astype(np.float32)
        dt = float(np.exp(rng.uniform(np.log(1e-4), np.log(100.0))))
        if i % 5 == 0:
            dt = float(np.round(dt, 4)) or 1e-4
        lab = " ".join("w%i" % rng.randint(1000) for _ in range(rng.randint(1, 5)))
        roundtrip("random[%i]" % i, v, dt, lab, full=(i % 10 == 0))

    # ---- 3. Signal / AccSignal objects through save_signal -------------------------------------
    for i in range(12):
        n = int(rng.choice([2, 3, 10, 50, 300]))
        v = rng.randn(n) * 10.0 ** rng.randint(-4, 5)
        dt = [0.01, 0.005, 1.0, 2.5, 0.0001, 100.0][i % 6]
        lab = labels[i % len(labels)]
        cls = eqsig.Signal if i % 2 else eqsig.AccSignal
        sig = cls(v if i % 3 else v.tolist(), dt, label=lab)
        if i % 4 == 0:
            sig.fa_spectrum  # populate caches before saving
        ffp = os.path.join(tmp, "obj_%i.txt" % i)
        vbefore = sig.values.copy()
        call("obj[%i]/save_signal" % i, eqsig.save_signal, ffp, sig)
        obs.append(("obj[%i]/values-unchanged" % i, bool(np.array_equal(vbefore, sig.values)), []))
        obs.append(("obj[%i]/state" % i, enc(sig, tmp), []))
        file_bytes("obj[%i]/file" % i, ffp)
        load_all("obj[%i]" % i, ffp, full=(i % 4 == 0))
        # overwrite an existing (longer) file with a shorter record
        call("obj[%i]/overwrite" % i, loader.save_values_and_dt, ffp, v[:2], dt, "short")
        file_bytes("obj[%i]/file-overwritten" % i, ffp)
        load_all("obj[%i]/ow" % i, ffp, full=False)

    # ---- 4. files not produced by the writer ---------------------------------------------------
    shipped = os.path.join(os.environ["C16_WORKTREE"], "tests", "unit_test_data", "test_motion_dt0p01.txt")
    load_all("shipped", shipped)
    hand = {
        "crlf.txt": "label x\r\n3 0.0200\r\n1.0\r\n2.0\r\n3.0\r\n",
        "trailing_nl.txt": "label y\n3 1.5000\n1.0\n-2.0\n3.0\n",
        "blank_lines.txt": "label\n3 0.0100\n1.0\n\n2.0\n\n3.0\n\n",
        "csv.txt": "multi col\n3 0.0100\n1.0,5.0,6.0\n2.0,7.0,8.0\n3.0,9.0,10.0",
        "sci.txt": "sci\n4 2.0000 extra tokens\n1e-3\n-2.5E+02\n3\n+4.5",
        "bad_value.txt": "bad\n3 0.0100\n1.0\nabc\n3.0",
        "comment.txt": "c\n3 0.0100\n1.0 # note\n# full line\n3.0",
        "dt_ge_1.txt": "big dt\n2 12.5000\n1.0\n2.0",
        "dt_sci.txt": "sci dt\n2 1e-2\n1.0\n2.0",
        "header_only.txt": "only header\n0 0.0100",
        "one_line.txt": "only label",
        "empty.txt": "",
        "no_dt.txt": "lab\n3\n1.0\n2.0\n3.0",
        "bad_dt.txt": "lab\n3 abc\n1.0\n2.0\n3.0",
        "ff_label.txt": "form\x0cfeed\n2 0.0100\n1.0\n2.0",
        "vt_header.txt": "lab\n2 0.0100\x0b5 0.5\n1.0\n2.0",
        "blank_first.txt": "\n2 0.0100\n1.0\n2.0",
        "spaces_header.txt": "  lab  \n   2    0.0500   \n 1.0 \n 2.0 ",
    }
    for name in sorted(hand):
        ffp = os.path.join(tmp, name)
        with open(ffp, "w", newline="") as f:
            f.write(hand[name])
        load_all("hand/" + name, ffp, full=False)
    load_all("missing", os.path.join(tmp, "does_not_exist.txt"), full=False)
    call("save/bad-dir", loader.save_values_and_dt, os.path.join(tmp, "no_dir", "x.txt"), [1.0], 0.01, "l")
    call("save_signal/bad-dir", loader.save_signal, os.path.join(tmp, "no_dir", "x.txt"),
         eqsig.Signal([1.0, 2.0], 0.01))

    # ---- 5. public namespace of the module / package -------------------------------------------
    import inspect
    for fname in ("load_values_and_dt", "save_values_and_dt", "load_signal", "load_sig", "load_asig", "save_signal",
                  "load_3_comp_values_and_dt_from_v2a"):
        fn = getattr(loader, fname)
        obs.append(("sig/" + fname, (str(inspect.signature(fn)), fn.__doc__), []))
        if fname in ("load_3_comp_values_and_dt_from_v2a",):
            continue
        obs.append(("pkg/" + fname, getattr(eqsig, fname) is fn, []))
    obs.append(("public-names", sorted(n for n in vars(loader) if not n.startswith("_")), []))

    obs.append(("eqsig-file", os.path.dirname(os.path.abspath(eqsig.__file__)), []))
    shutil.rmtree(tmp, ignore_errors=True)
    with open(out_path, "wb") as f:
        pickle.dump(obs, f)


# --------------------------------------------------------------------------------------------------
# driver
# --------------------------------------------------------------------------------------------------

def run_worker(pkg_root, out_path):
    env = dict(os.environ)
    env["PYTHONPATH"] = pkg_root
    env["C16_WORKTREE"] = WORKTREE
    env["PYTHONDONTWRITEBYTECODE"] = "1"
    subprocess.check_call([sys.executable, os.path.abspath(__file__), "--worker", out_path], cwd=pkg_root, env=env)
    with open(out_path, "rb") as f:
        return pickle.load(f)


def main():
    base = tempfile.mkdtemp(prefix="c16_equiv_", dir="/tmp")
    try:
        orig_root = os.path.join(base, "orig")
        os.makedirs(orig_root)
        archive = subprocess.Popen(["git", "archive", "HEAD", "eqsig"], cwd=WORKTREE, stdout=subprocess.PIPE)
        subprocess.check_call(["tar", "-x", "-C", orig_root], stdin=archive.stdout)
        assert archive.wait() == 0
        obs_orig = run_worker(orig_root, os.path.join(base, "orig.pkl"))
        obs_edit = run_worker(WORKTREE, os.path.join(base, "edit.pkl"))
    finally:
        shutil.rmtree(base, ignore_errors=True)

    # sanity: the two runs really used different packages
    loc_o, loc_e = obs_orig.pop()[1], obs_edit.pop()[1]
    assert loc_o.startswith(base) and loc_o != loc_e, (loc_o, loc_e)
    assert loc_e == os.path.join(WORKTREE, "eqsig"), loc_e

    assert len(obs_orig) == len(obs_edit), (len(obs_orig), len(obs_edit))
    n_bad = 0
    n_ok_calls = 0
    n_exc = 0
    for a, b in zip(obs_orig, obs_edit):
        if a != b:
            n_bad += 1
            if n_bad <= 20:
                print("MISMATCH at %s:\n   original: %r\n   edited:   %r" % (a[0], a[1:], b[1:]))
        if isinstance(a[1], tuple) and a[1] and a[1][0] == "ok":
            n_ok_calls += 1
        if isinstance(a[1], tuple) and a[1] and a[1][0] == "exc":
            n_exc += 1
    print("%i observations compared (%i successful calls, %i raising calls), %i mismatches"
          % (len(obs_orig), n_ok_calls, n_exc, n_bad))
    assert n_ok_calls > 1000
    sys.exit(1 if n_bad else 0)


if __name__ == "__main__":
    if len(sys.argv) > 2 and sys.argv[1] == "--worker":
        sys.path.insert(0, os.getcwd())
        worker(sys.argv[2])
    else:
        main()

"""
Equivalence program for a behaviour-preserving edit of eqsig (property C05: signal objects own
their data; array-level analysis functions do not mutate their inputs).

Run with the edit applied and cwd = the worktree:

    cd <worktree> && PYTHONPATH=<worktree> python out/equivK.py

The ORIGINAL package is taken from git (`git archive HEAD eqsig`) into a temporary directory. The
same deterministic driver is then run in two subprocesses (PYTHONPATH = original tree / edited tree)
and the two logs are compared entry by entry:

  * returned values (dtype, shape, bytes; 1e-12 relative is tolerated and counted separately),
  * exception types, warning categories,
  * the arguments after the call (lists and arrays), and the result of calling again,
  * object state through the public API after every step of random histories of public operations
    (values, their dtype/flags, npts, time, lazily cached series and spectra, peak values),
  * ownership facts: does `sig.values` share memory with a caller's array, was the values array
    replaced or updated in place, what does a previously obtained reference to `.values` hold now.

Exit code 0 iff everything matches.
"""
import os
import sys
import pickle
import struct
import subprocess
import tempfile
import shutil
import time as _time

FOCUS = 'twin3'  # only used to choose the random seeds
SEED = {'twin1': 1101, 'twin2': 2202, 'twin3': 3303}[FOCUS]
N_HIST = 950
N_CLUSTER = 170
N_ARRAY_REP = 0.75  # multiplier of repetitions of array-level cases


# ------------------------------------------------------------------------------------------------
# child: the driver
# ------------------------------------------------------------------------------------------------

def child(expected_root, out_ffp):
    import warnings
    import copy
    import numpy as np
    import eqsig
    from eqsig import Signal, AccSignal, Cluster
    import eqsig.fns.peaks_and_crossings as pc
    import eqsig.fns.time_step as ts
    import eqsig.fns.generic as gen
    import eqsig.fns.time_shift as tsh
    import eqsig.fns.average as av
    import eqsig.fns.frequency as fq
    import eqsig.im as im
    import eqsig.surface as surface
    import eqsig.stockwell as stockwell
    import eqsig.sdof as sdof
    import eqsig.multiple as multiple

    pkg_dir = os.path.realpath(os.path.dirname(eqsig.__file__))
    assert pkg_dir == os.path.realpath(os.path.join(expected_root, 'eqsig')), (pkg_dir, expected_root)

    log = []

    # ---------------- snapshots ----------------
    def snap(x, depth=0):
        if depth > 6:
            return ('deep',)
        if x is None or isinstance(x, (bool, str)):
            return x
        if isinstance(x, Signal):
            return ('signal', light_state(x))
        if isinstance(x, np.ndarray):
            if x.dtype == object:
                return ('ndobj', x.shape, [snap(v, depth + 1) for v in x.ravel().tolist()])
            return ('nd', x.dtype.str, x.shape, np.ascontiguousarray(x).tobytes())
        if isinstance(x, np.generic):
            return ('ng', x.dtype.str, x.tobytes())
        if isinstance(x, int):
            return ('i', x)
        if isinstance(x, float):
            return ('f', struct.pack('d', x))
        if isinstance(x, complex):
            return ('c', struct.pack('dd', x.real, x.imag))
        if isinstance(x, (list, tuple)):
            return (type(x).__name__, [snap(v, depth + 1) for v in x])
        if isinstance(x, dict):
            return ('dict', [(repr(k), snap(x[k], depth + 1)) for k in sorted(x, key=repr)])
        if isinstance(x, range):
            return ('range', x.start, x.stop, x.step)
        return ('obj', type(x).__name__)

    def run(fn, *args, **kwargs):
        with warnings.catch_warnings(record=True) as w:
            warnings.simplefilter('always')
            try:
                res = fn(*args, **kwargs)
                out = ('ok', snap(res))
            except Exception as e:  # noqa
                res = None
                out = ('exc', type(e).__name__)
        cats = sorted(set(x.category.__name__ for x in w))
        return res, (out, cats)

    def arr_facts(v):
        if isinstance(v, np.ndarray):
            return (type(v).__name__, v.dtype.str, v.shape, bool(v.flags.c_contiguous), bool(v.flags.owndata),
                    bool(v.flags.writeable), v.base is None)
        return ('notarray', type(v).__name__)

    def light_state(sig):
        v = sig.values
        st = [type(sig).__name__, snap(v), arr_facts(v), snap(sig.npts), snap(sig.dt), snap(sig.label)]
        st.append(run(lambda: sig.time)[1])
        st.append(run(lambda: len(sig.values) == sig.npts)[1])
        return st

    def full_state(sig, heavy=False):
        st = light_state(sig)
        st.append(run(lambda: sig.fa_spectrum)[1])
        st.append(run(lambda: sig.fa_freqs)[1])
        st.append(run(lambda: sig.smooth_fa_freqs)[1])
        if isinstance(sig, AccSignal):
            st.append(run(lambda: sig.velocity)[1])
            st.append(run(lambda: sig.displacement)[1])
            st.append(run(lambda: sig.pga)[1])
            st.append(run(lambda: sig.pgv)[1])
            st.append(run(lambda: sig.pgd)[1])
            st.append(run(lambda: sig.response_times)[1])
            st.append([snap(getattr(sig, a, 'missing')) for a in
                       ('t_b01', 't_b05', 't_b10', 'a_rms01', 'a_rms05', 'a_rms10', 't_595', 'sd_start', 'sd_end',
                        'arias_intensity')])
        if heavy:
            st.append(run(lambda: sig.smooth_fa_spectrum)[1])
            if isinstance(sig, AccSignal):
                st.append(run(lambda: (sig.s_a, sig.s_v, sig.s_d))[1])
        return st

    # ---------------- random inputs ----------------
    LENS = [1, 2, 2, 3, 3, 4, 5, 6, 8, 9, 12, 16, 17, 24, 31, 32, 33, 40, 50, 64, 65, 80, 100, 128]

    def base_values(rng, n, kind=None):
        if kind is None:
            kind = rng.randint(0, 9)
        if kind == 0:
            v = rng.randn(n)
        elif kind == 1:  # many repeats and zeros
            v = np.round(rng.randn(n) * 2) / 2.0
        elif kind == 2:  # integer typed
            v = rng.randint(-6, 7, size=n)
        elif kind == 3:  # smooth oscillation
            t = np.arange(n)
            v = np.sin(t * rng.uniform(0.05, 1.5) + rng.uniform(0, 3)) * rng.uniform(0.5, 3) + 0.1 * rng.randn(n)
        elif kind == 4:  # starts and ends at zero with plateaus
            v = np.round(np.cumsum(rng.randint(-1, 2, size=n)) * 1.0)
            v[0] = 0.0
        elif kind == 5:  # offset record
            v = rng.randn(n) + rng.uniform(-3, 3)
        elif kind == 6:  # decaying burst
            t = np.arange(n)
            v = np.exp(-t / max(n / 3.0, 1.0)) * np.cos(t * rng.uniform(0.2, 2.0)) * 4
        elif kind == 7:  # int32
            v = rng.randint(-20, 21, size=n).astype(np.int32)
        else:  # exact zeros mixed with signed values
            v = rng.randn(n)
            v[rng.rand(n) < 0.3] = 0.0
        return v

    def make_record(rng, n=None, form=None, kind=None):
        """returns a record in one of many forms: array (float/int/float32), list, tuple, strided view, read-only"""
        if n is None:
            n = LENS[rng.randint(0, len(LENS))]
        v = base_values(rng, n, kind)
        if form is None:
            form = rng.randint(0, 8)
        if form == 0 or form == 1:
            return v
        if form == 2:
            return v.tolist()
        if form == 3:
            return tuple(v.tolist())
        if form == 4:  # strided view of a bigger array
            big = np.zeros(2 * n + 1, dtype=v.dtype)
            big[::2][:n] = v
            return big[::2][:n]
        if form == 5:
            return v.astype(np.float32)
        if form == 6:
            v = np.array(v)
            v.setflags(write=False)
            return v
        return [float(x) for x in v]

    def deep(x):
        return copy.deepcopy(x)

    def args_snap(args, kwargs):
        return [snap(a) for a in args] + [(k, snap(kwargs[k])) for k in sorted(kwargs)]

    def mutate_container(rng, x):
        """changes a caller side container in place if possible, returns True if changed"""
        try:
            if isinstance(x, np.ndarray) and x.flags.writeable and len(x):
                x[rng.randint(0, len(x))] += 7
                return True
            if isinstance(x, list) and len(x):
                x[rng.randint(0, len(x))] = 123.0
                return True
        except Exception:
            pass
        return False

    # ---------------- array-level calls ----------------
    def call_case(name, fn, args, kwargs=None, sigs=()):
        """calls twice; logs results, arguments afterwards and the state of signal arguments"""
        kwargs = kwargs or {}
        before = args_snap(args, kwargs)
        sig_before = [light_state(s) for s in sigs]
        r1 = run(fn, *args, **kwargs)[1]
        after1 = args_snap(args, kwargs)
        sig_after = [light_state(s) for s in sigs]
        r2 = run(fn, *args, **kwargs)[1]
        after2 = args_snap(args, kwargs)
        log.append((name, r1, r2, before == after1, after1 == after2, after2,
                    sig_before == sig_after, sig_after))

    def array_cases(rng, rep):
        def reps(k):
            return max(1, int(k * rep))

        # --- peaks and crossings
        for i in range(reps(160)):
            rec = make_record(rng)
            call_case('pc.determine_indices_of_peaks_for_cleaned', pc.determine_indices_of_peaks_for_cleaned, [rec])
            call_case('pc.determine_indices_of_peaks_for_cleaned_array', pc.determine_indices_of_peaks_for_cleaned_array, [rec])
            call_case('pc._determine_peak_only_series_4_cleaned_data', pc._determine_peak_only_series_4_cleaned_data, [rec])
            call_case('pc.determine_peak_only_delta_series_4_cleaned_data', pc.determine_peak_only_delta_series_4_cleaned_data, [rec])
            call_case('pc.clean_out_non_changing', pc.clean_out_non_changing, [rec])
            call_case('pc.get_peak_array_indices', pc.get_peak_array_indices, [rec],
                      {'ptype': ['all', 'min', 'max', 'other'][rng.randint(0, 4)]})
            call_case('pc.get_zero_crossings_array_indices', pc.get_zero_crossings_array_indices, [rec],
                      {'keep_adj_zeros': bool(rng.randint(0, 2)), 'tol': [0.0, 0.0, 0.3, 1.0, -1.0][rng.randint(0, 5)]})
            call_case('pc.determine_peaks_only_delta_series', pc.determine_peaks_only_delta_series, [rec])
            call_case('pc.determine_pseudo_cyclic_peak_only_series', pc.determine_pseudo_cyclic_peak_only_series, [rec])
            call_case('pc.get_switched_peak_array_indices', pc.get_switched_peak_array_indices, [rec],
                      {'tol': [0.0, 0.0, 0.2, 1.5][rng.randint(0, 4)]})
            call_case('pc.get_switched_peak_indices(arr)', pc.get_switched_peak_indices, [rec])
            call_case('pc.get_n_cyc_array', pc.get_n_cyc_array, [rec],
                      {'opt': ['all', 'switched', 'bad'][min(rng.randint(0, 5), 2) if rng.rand() < 0.2 else rng.randint(0, 2)],
                       'start': ['origin', 'peak', 'bad'][rng.randint(0, 3) if rng.rand() < 0.2 else rng.randint(0, 2)]})
            call_case('pc.get_major_change_indices', pc.get_major_change_indices, [rec],
                      {'already_diff': bool(rng.randint(0, 2)), 'dx': [1, 0.5, 2][rng.randint(0, 3)]})
            if rng.rand() < 0.5:
                zv = make_record(rng, n=len(rec))
                call_case('pc.get_zero_and_peak_array_indices2', pc.get_zero_and_peak_array_indices, [rec, zv],
                          {'min_step': int(rng.randint(0, 3))})
            else:
                call_case('pc.get_zero_and_peak_array_indices1', pc.get_zero_and_peak_array_indices, [rec],
                          {'min_step': int(rng.randint(0, 3))})
            cls = [Signal, AccSignal][rng.randint(0, 2)]
            sig = run(cls, deep(rec), 0.01)[0]
            if sig is not None:
                call_case('pc.get_peak_indices', pc.get_peak_indices, [sig], sigs=[sig])
                call_case('pc.get_zero_crossings_indices', pc.get_zero_crossings_indices, [sig], sigs=[sig])
                call_case('pc.get_switched_peak_indices(sig)', pc.get_switched_peak_indices, [sig], sigs=[sig])

        # --- intensity measures on arrays
        for i in range(reps(90)):
            rec = make_record(rng)
            dt = [0.01, 0.02, 0.1, 1][rng.randint(0, 4)]
            call_case('im.calc_sig_dur_vals', im.calc_sig_dur_vals, [rec, dt],
                      {'se': bool(rng.randint(0, 2)), 'start': [0.05, 0.2][rng.randint(0, 2)], 'end': [0.95, 0.75][rng.randint(0, 2)]})
            call_case('im.calc_significant_duration', im.calc_significant_duration, [rec, dt])
            call_case('im.calc_peak', im.calc_peak, [rec])
            call_case('im.calculate_peak', im.calculate_peak, [rec])
            call_case('im._raw_calc_arias_intensity', im._raw_calc_arias_intensity, [rec, dt])
            b = [0.3, 0.5, np.array([0.3, 0.6]), [0.2, 0.4]][rng.randint(0, 4)]
            call_case('im.calc_n_cyc_array_w_power_law', im.calc_n_cyc_array_w_power_law, [rec, 1.0, b],
                      {'cut_off': [0.01, 0.3][rng.randint(0, 2)]})
            call_case('im.calc_cyc_amp_array_w_power_law', im.calc_cyc_amp_array_w_power_law, [rec, 15, b])
            rec1 = make_record(rng, n=len(rec))
            call_case('im.calc_cyc_amp_gm_arrays_w_power_law', im.calc_cyc_amp_gm_arrays_w_power_law, [rec, rec1, 10, 0.4])
            call_case('im.calc_cyc_amp_combined_arrays_w_power_law', im.calc_cyc_amp_combined_arrays_w_power_law, [rec, rec1, 10, 0.4])

        # --- intensity measures on signal objects
        sig_fns = [('im.calc_sig_dur', lambda s: im.calc_sig_dur(s)),
                   ('im.calc_sig_dur_se_cav', lambda s: im.calc_sig_dur(s, start=0.1, end=0.8, im=im.calc_cav, se=True)),
                   ('im.calc_sir', im.calc_sir),
                   ('im.calc_arias_intensity', im.calc_arias_intensity),
                   ('im.calc_cav', im.calc_cav),
                   ('im.calc_isv', im.calc_isv),
                   ('im.max_fa_period', im.max_fa_period),
                   ('im.calc_bandwidth_freqs', im.calc_bandwidth_freqs),
                   ('im.calc_bandwidth_f_min', lambda s: im.calc_bandwidth_f_min(s, ratio=0.5)),
                   ('im.calc_bandwidth_f_max', im.calc_bandwidth_f_max),
                   ('im.calc_bracketed_duration', lambda s: im.calc_bracketed_duration(s, 0.5)),
                   ('im.calc_brac_dur', lambda s: im.calc_brac_dur(s, 0.8, se=True)),
                   ('im.calc_brac_dur_none', lambda s: im.calc_brac_dur(s, 1e6, se=False)),
                   ('im.calc_acc_rms', lambda s: im.calc_acc_rms(s, 0.5)),
                   ('im.calc_a_rms', lambda s: im.calc_a_rms(s, 0.5)),
                   ('im.calc_integral_of_abs_velocity', im.calc_integral_of_abs_velocity),
                   ('im.calc_cumulative_abs_displacement', im.calc_cumulative_abs_displacement),
                   ('im.calc_integral_of_abs_acceleration', im.calc_integral_of_abs_acceleration),
                   ('im.calc_unit_kinetic_energy', im.calc_unit_kinetic_energy),
                   ('im.cumulative_response_spectra', lambda s: im.cumulative_response_spectra(s, 'arias_intensity', periods=[0.2, 0.7], xi=0.05)),
                   ('im.cumulative_response_spectra_bad', lambda s: im.cumulative_response_spectra(s, 'other')),
                   ('im.calc_asi', lambda s: im.calc_asi(s, periods=np.array([0.1, 0.3, 0.5, 1.0]))),
                   ('im.calc_vsi', lambda s: im.calc_vsi(s, periods=np.array([0.1, 0.3, 0.5, 1.0]))),
                   ('im.calc_vsi_temporal', lambda s: im.calc_vsi_temporal(s, periods=np.array([0.1, 0.3, 1.0]))),
                   ('fq.get_sig_freq_range', fq.get_sig_freq_range),
                   ('fq.calc_fourier_moment', lambda s: fq.calc_fourier_moment(s, 2)),
                   ('fq.get_bandwidth_boore_2003', fq.get_bandwidth_boore_2003),
                   ('fq.generate_fa_spectrum', fq.generate_fa_spectrum),
                   ('fq.generate_fa_spectrum_nopad', lambda s: fq.generate_fa_spectrum(s, n_pad=False)),
                   ('fq.calc_fa_spectrum', fq.calc_fa_spectrum),
                   ('fq.calc_fa_spectrum_n', lambda s: fq.calc_fa_spectrum(s, n=24)),
                   ('fq.calc_fa_spectrum_p2', lambda s: fq.calc_fa_spectrum(s, p2_plus=1)),
                   ('ts.interp_to_approx_dt', lambda s: ts.interp_to_approx_dt(s, 0.004)),
                   ('ts.interp_to_approx_dt_odd', lambda s: ts.interp_to_approx_dt(s, 0.03, even=False)),
                   ('ts.resample_to_approx_dt', lambda s: ts.resample_to_approx_dt(s, 0.004)),
                   ('ts.resample_to_approx_dt_odd', lambda s: ts.resample_to_approx_dt(s, 0.03, even=False)),
                   ('tsh.join_sig_w_time_shift', lambda s: tsh.join_sig_w_time_shift(s, np.array([0.02, 0.05]), jtype='sub')),
                   ('av.get_section_average', lambda s: av.get_section_average(s, start=0.0, end=0.05)),
                   ('av.get_section_average_i', lambda s: av.get_section_average(s, start=1, end=4, index=True)),
                   ('stockwell.get_max_stockwell_freq', stockwell.get_max_stockwell_freq),
                   ('surface.energy', lambda s: surface.calc_surface_energy(s, np.array([0.02, 0.05]))),
                   ]
        for i in range(reps(45)):
            rec = make_record(rng)
            dt = [0.01, 0.01, 0.02, 0.1][rng.randint(0, 4)]
            for name, fn in sig_fns:
                if rng.rand() < 0.45:
                    continue
                sig = run(AccSignal, deep(rec), dt)[0]
                if sig is None:
                    continue
                call_case(name, fn, [sig], sigs=[sig])
        for i in range(reps(3)):  # slower ones
            rec = make_record(rng, n=[150, 230, 301][i % 3])
            sig = AccSignal(deep(rec), 0.01)
            call_case('im.calc_cav_dp', im.calc_cav_dp, [sig], sigs=[sig])
            sig = AccSignal(deep(rec)[:60], 0.05)
            call_case('im.calc_max_velocity_period', im.calc_max_velocity_period, [sig], sigs=[sig])
            call_case('im.max_acceleration_period', im.max_acceleration_period, [sig], sigs=[sig])

        # --- surface
        for i in range(reps(90)):
            rec = make_record(rng)
            dt = [0.01, 0.02, 0.1][rng.randint(0, 3)]
            sig = run(AccSignal, deep(rec), dt)[0]
            if sig is None:
                continue
            k = rng.randint(0, 6)
            if k == 0:
                tt = float(rng.uniform(0, 8)) * dt
            elif k == 1:
                tt = [float(rng.uniform(0, 8)) * dt]
            elif k == 2:
                tt = (rng.uniform(0, 6, size=3) * dt).tolist()
            else:
                tt = rng.uniform(0, 8, size=rng.randint(1, 4)) * dt
            kw = {'nodal': bool(rng.randint(0, 2)), 'trim': bool(rng.randint(0, 2)), 'start': bool(rng.randint(0, 2)),
                  'stt': [0.0, 2.2 * dt, 5 * dt][rng.randint(0, 3)]}
            nt = len(tt) if hasattr(tt, '__len__') else 1
            j = rng.randint(0, 4)
            if j == 1:
                kw['up_red'] = 0.8
                kw['down_red'] = 0.5
            elif j == 2:
                kw['up_red'] = rng.uniform(0.5, 1, size=nt)
                kw['down_red'] = rng.uniform(0.5, 1, size=nt)
            elif j == 3:
                kw['up_red'] = rng.uniform(0.5, 1, size=nt).tolist()
                kw['down_red'] = 2
            call_case('surface.calc_surface_energy', surface.calc_surface_energy, [sig, tt], kw, sigs=[sig])
            call_case('surface.calc_cum_abs_surface_energy', surface.calc_cum_abs_surface_energy, [sig, tt], kw, sigs=[sig])
            call_case('surface.get_time_shift_motions', surface.get_time_shift_motions, [sig, tt], kw, sigs=[sig])
            nr = rng.randint(1, 4)
            vals2d = rng.randn(nr, len(rec) + 12)
            call_case('surface.trim_to_length', surface.trim_to_length,
                      [vals2d, len(rec), rng.uniform(0, 5, size=nr) * dt, dt],
                      {'trim': bool(rng.randint(0, 2)), 'start': bool(rng.randint(0, 2)), 's2s_travel_time': [0.0, 3 * dt][rng.randint(0, 2)]})

        # --- stockwell
        for i in range(reps(70)):
            n = [2, 3, 4, 5, 8, 9, 16, 21, 32, 40][rng.randint(0, 10)]
            rec = make_record(rng, n=n)
            call_case('stockwell.transform', stockwell.transform, [rec])
            call_case('stockwell.transform_w_scipy_fft', stockwell.transform_w_scipy_fft, [rec])
            call_case('stockwell.transform_slow', stockwell.transform_slow, [rec], {'ith': int(rng.randint(1, 3))})
            call_case('stockwell.generate_gaussian', stockwell.generate_gaussian, [int(n / 2)])
            st = run(stockwell.transform, deep(rec))[0]
            if st is not None:
                call_case('stockwell.itransform', stockwell.itransform, [st])
                call_case('stockwell.dep_itransform', stockwell.dep_itransform, [st])
                call_case('stockwell.get_max_tifq_vals_freq', stockwell.get_max_tifq_vals_freq, [st, 0.01])
                sig = run(AccSignal, deep(rec), 0.01)[0]
                if sig is not None:
                    sig.swtf = st
                    call_case('stockwell.get_stockwell_freqs', stockwell.get_stockwell_freqs, [sig], sigs=[sig])
                    call_case('stockwell.get_stockwell_times', stockwell.get_stockwell_times, [sig], sigs=[sig])

        # --- interpolation helpers, time shift, averages, frequency, sdof
        for i in range(reps(90)):
            rec = make_record(rng)
            dt = [0.01, 0.02, 0.1][rng.randint(0, 3)]
            call_case('ts.interp_array_to_approx_dt', ts.interp_array_to_approx_dt, [rec, dt],
                      {'target_dt': [0.01, 0.004, 0.03, 0.05][rng.randint(0, 4)], 'even': bool(rng.randint(0, 2))})
            call_case('ts.time_series_from_motion', ts.time_series_from_motion, [rec, dt])
            call_case('gen.remove_poly', gen.remove_poly, [rec], {'poly_fit': int(rng.randint(0, 3))})
            shifts = rng.randint(-3, 6, size=rng.randint(1, 4))
            call_case('tsh.put_array_in_2d_array', tsh.put_array_in_2d_array, [rec, shifts],
                      {'clip': ['none', 'end', 'start', 'both'][rng.randint(0, 4)]})
            call_case('tsh.join_values_w_shifts', tsh.join_values_w_shifts, [rec, np.abs(shifts)],
                      {'jtype': ['add', 'sub'][rng.randint(0, 2)]})
            call_case('av.calc_step_fn_vals_error', av.calc_step_fn_vals_error, [rec],
                      {'pow': int(rng.randint(1, 3)), 'dir': [None, 'down', 'up'][rng.randint(0, 3)]})
            call_case('av.calc_step_fn_steps_vals', av.calc_step_fn_steps_vals, [rec])
            call_case('av.calc_roll_av_vals', av.calc_roll_av_vals, [rec, int(rng.randint(1, 6))],
                      {'mode': ['forward', 'backward', 'centre'][rng.randint(0, 3)]})
            xs = np.sort(rng.uniform(0, 10, size=max(len(rec), 2)))
            call_case('gen.interp_left', gen.interp_left, [rng.uniform(xs[0], 11, size=4), xs], {'y': rec if rng.rand() < 0.5 else None})
            call_case('gen.interp_left_scalar', gen.interp_left, [float(xs[0]) + 0.1, xs])
            f2 = rng.randn(len(xs), 3)
            call_case('gen.interp2d', gen.interp2d, [rng.uniform(-1, 11, size=5), xs, f2])
            periods = [np.array([0.1, 0.5, 1.0]), [0.0, 0.3, 2.0], np.array([0.05])][rng.randint(0, 3)]
            call_case('sdof.pseudo_response_spectra', sdof.pseudo_response_spectra, [rec, dt, periods, 0.05])
            call_case('sdof.response_series', sdof.response_series, [rec, dt, periods, 0.1])
            call_case('sdof.true_response_spectra', sdof.true_response_spectra, [rec, dt, periods, 0.02])
            nfa = max(int(len(rec) / 2), 1)
            fa_f = np.arange(nfa) / (2.0 * nfa * dt)
            fa_s = rng.randn(nfa) + 1j * rng.randn(nfa)
            call_case('fq.calc_smooth_fa_spectrum', fq.calc_smooth_fa_spectrum, [fa_f, fa_s],
                      {'smooth_fa_frequencies': [None, np.array([0.5, 1.0, 5.0])][rng.randint(0, 2)], 'band': [40, 20][rng.randint(0, 2)]})
            call_case('fq.fas2values', fq.fas2values, [fa_s, dt])
            call_case('fq.fas2signal', fq.fas2signal, [fa_s, dt], {'stype': ['signal', 'acc'][rng.randint(0, 2)]})

    # ---------------- histories on Signal / AccSignal ----------------
    def history(rng, hid):
        is_acc = rng.rand() < 0.65
        cls = AccSignal if is_acc else Signal
        rec = make_record(rng)
        if rng.rand() < 0.25:  # longer, float, for filters and spectra
            rec = make_record(rng, n=[60, 90, 128, 200][rng.randint(0, 4)], kind=[0, 3, 5, 6][rng.randint(0, 4)])
        dt = [0.01, 0.01, 0.02, 0.005, 0.1, 0.25, 1][rng.randint(0, 7)]
        kwargs = {}
        if rng.rand() < 0.2:
            kwargs['smooth_freq_range'] = (0.5, 10)
        if rng.rand() < 0.1:
            kwargs['smooth_fa_freqs'] = [0.5, 1.0, 2.0, 4.0]
        if is_acc and rng.rand() < 0.3:
            kwargs['response_times'] = [0.2, 0.5, 1.0]
        if is_acc and rng.rand() < 0.1:
            kwargs['response_period_range'] = (0.2, 2)
        callers = [rec]  # containers the caller still holds
        entry = ['hist', hid, cls.__name__]
        sig, r = run(cls, rec, dt, **kwargs)
        entry.append(r)
        if sig is None:
            log.append(entry)
            return
        entry.append(full_state(sig))
        entry.append(snap(rec))
        entry.append([bool(np.shares_memory(sig.values, c)) for c in callers if isinstance(c, np.ndarray)])
        other = Signal(make_record(rng, n=len(sig.values) if len(sig.values) else 1, form=0), dt if rng.rand() < 0.8 else dt * 2)
        nsteps = rng.randint(2, 9)
        for step in range(nsteps):
            n = sig.npts
            old_ref = sig.values
            opk = rng.randint(0, 40 if is_acc else 24)
            name = None
            call = None
            new_callers = []
            if opk == 0:
                x = make_record(rng, n=[None, n][rng.randint(0, 2)] if n else None)
                new_callers.append(x)
                name, call = 'reset_values', (lambda: sig.reset_values(x))
            elif opk == 1:
                sec = [-1, -1, 3, None, 0][rng.randint(0, 5)]
                name, call = 'remove_average', (lambda: sig.remove_average(section=sec))
            elif opk == 2:
                k = int(rng.randint(0, 4))
                name, call = 'remove_poly', (lambda: sig.remove_poly(poly_fit=k))
            elif opk == 3:
                c = [1.5, -2, np.float64(0.25), np.int64(3), True][rng.randint(0, 5)]
                name, call = 'add_constant', (lambda: sig.add_constant(c))
            elif opk == 4:
                c = make_record(rng, n=max(n, 1), form=[0, 2, 4][rng.randint(0, 3)])
                new_callers.append(c)
                name, call = 'add_constant_arr', (lambda: sig.add_constant(c))
            elif opk == 5:
                s = make_record(rng, n=n if rng.rand() < 0.85 else n + 1)
                new_callers.append(s)
                name, call = 'add_series', (lambda: sig.add_series(s))
            elif opk == 6:
                name, call = 'add_series_self', (lambda: sig.add_series(sig.values))
            elif opk == 7:
                o = [other, other, sig, 3.0][rng.randint(0, 4)]
                name, call = 'add_signal', (lambda: sig.add_signal(o))
            elif opk in (8, 9):
                w = [0, 1, 2, 3, 4, 5, 7, 10, 2.5, -3, n, 2 * n + 1][rng.randint(0, 12)]
                name, call = 'running_average', (lambda: sig.running_average(width=w))
            elif opk == 10:
                nyq = 0.5 / dt
                co = [(0.1, 15), (None, 0.4 * nyq), (0.05 * nyq, None), [0.04 * nyq, 0.6 * nyq], np.array([0.1, 0.5]) * nyq,
                      (0.02 * nyq, 0.3 * nyq), (None, 0.25 * nyq), (1, 2, 3), 5.0][rng.randint(0, 9)]
                kw = {}
                if rng.rand() < 0.5:
                    kw['remove_gibbs'] = ['start', 'end', 'mid'][rng.randint(0, 3)]
                    kw['gibbs_extra'] = int(rng.randint(0, 3))
                    kw['gibbs_range'] = int(rng.randint(1, 60))
                if rng.rand() < 0.4:
                    kw['filter_order'] = int(rng.randint(1, 4))
                name, call = 'butter_pass', (lambda: sig.butter_pass(cut_off=co, **kw))
            elif opk == 11:
                a = (0, -1, False) if rng.rand() < 0.4 else ((1, 4, True) if rng.rand() < 0.5 else (dt, 3 * dt, False))
                name, call = 'get_section_average', (lambda: sig.get_section_average(start=a[0], end=a[1], index=a[2]))
            elif opk == 12:
                p2, nn = [(0, None), (1, None), (0, 16), (0, 7), (2, None), (0, 1)][rng.randint(0, 6)]
                name, call = 'gen_fa_spectrum', (lambda: (sig.gen_fa_spectrum(p2_plus=p2, n=nn), sig.fa_spectrum, sig.fa_frequencies, sig.fa_spectrum_abs))
            elif opk == 13:
                fr = [None, np.array([0.5, 1.0, 3.0])][rng.randint(0, 2)]
                name, call = 'gen_smooth_fa_spectrum', (lambda: (sig.gen_smooth_fa_spectrum(smooth_fa_freqs=fr, band=[40, 10][step % 2]), sig.smooth_fa_spectrum))
            elif opk == 14:
                def call():
                    sig.smooth_fa_freqs = [0.3, 0.9, 2.7]
                    return sig.smooth_fa_frequencies
                name = 'set_smooth_fa_freqs'
            elif opk == 15:
                name, call = 'set_smooth_by_range', (lambda: sig.set_smooth_fa_frequecies_by_range((0.2, 20), 7))
            elif opk == 16:
                def call():
                    sig.values = [1.0, 2.0]
                    return None
                name = 'values_setter'
            elif opk == 17:  # caller mutates what it passed in earlier
                idx = rng.randint(0, len(callers))
                changed = mutate_container(rng, callers[idx])
                name, call = 'caller_mutates_%s' % changed, (lambda: None)
            elif opk == 18:  # caller writes through the public values array
                def call():
                    if len(sig.values):
                        sig.values[len(sig.values) // 2] = 2
                    return None
                name = 'write_values_item'
            elif opk == 19:
                name, call = 'clear_cache', (lambda: sig.clear_cache())
            elif opk == 20:
                name, call = 'smooth_freq_range', (lambda: (sig.smooth_freq_range, sig.smooth_freq_points))
            elif opk == 21:
                def call():
                    sig.smooth_freq_range = (0.4, 8)
                    sig.smooth_freq_points = 5
                    return sig.smooth_fa_freqs
                name = 'set_smooth_freq_range'
            elif opk == 22:
                name, call = 'generate_fa', (lambda: (sig.generate_fa_spectrum(), sig.generate_smooth_fa_spectrum(band=30)))
            elif opk == 23:
                x = make_record(rng, n=n if n else None)
                new_callers.append(x)

                def call():
                    sig.reset_values(x)
                    mutate_container(np.random.RandomState(step), x)
                    return None
                name = 'reset_then_caller_mutates'
            # ---- AccSignal only
            elif opk in (24, 25):
                name, call = 'correct_me', (lambda: sig.correct_me())
            elif opk in (26, 27):
                mt = ['velocity', 'acc'][rng.randint(0, 2)]
                wdt = [1, 2, 3, 4, 6, 9, 0.5][rng.randint(0, 7)]
                fw = 1.0 / (wdt * dt) * 0.999
                name, call = 'remove_rolling_average', (lambda: sig.remove_rolling_average(mtype=mt, freq_window=fw))
            elif opk == 28:
                name, call = 'rebase_displacement', (lambda: sig.rebase_displacement())
            elif opk == 29:
                tz = [None, None, (2 * dt, 6 * dt), (dt, None), (0, n * dt)][rng.randint(0, 5)]
                name, call = 'set_zero_residual_velocity', (lambda: sig.set_zero_residual_velocity(timezone=tz))
            elif opk == 30:
                tz = [None, None, (dt, 4 * dt)][rng.randint(0, 3)]
                name, call = 'set_zero_residual_displacement', (lambda: sig.set_zero_residual_displacement(timezone=tz))
            elif opk == 31:
                tz = [None, None, (2 * dt, 6 * dt), (dt, None), (0, n * dt)][rng.randint(0, 5)]
                name, call = 'set_zero_residual_displacement_and_velocity', (lambda: sig.set_zero_residual_displacement_and_velocity(timezone=tz))
            elif opk == 32:
                tr = bool(rng.randint(0, 2))
                name, call = 'gen_disp_velo', (lambda: (sig.generate_displacement_and_velocity_series(trap=tr), sig.velocity, sig.displacement))
            elif opk == 33:
                rt = [None, np.array([0.1, 0.4, 1.2]), [0.0, 0.5], np.array([0.05, 0.3])][rng.randint(0, 4)]
                xi = [-1, 0.05, 0.2][rng.randint(0, 3)]
                name, call = 'gen_response_spectrum', (lambda: (sig.gen_response_spectrum(response_times=rt if n < 70 or rt is not None else [0.3, 1.0], xi=xi, min_dt_ratio=[4, 1][step % 2]), sig.s_a, sig.s_v, sig.s_d))
            elif opk == 34:
                rt = [np.array([0.1, 0.4]), [0.5]][rng.randint(0, 2)]
                name, call = 'response_series', (lambda: sig.response_series(response_times=rt, xi=[-1, 0.1][step % 2]))
            elif opk == 35:
                name, call = 'generate_cumulative_stats', (lambda: (sig.generate_cumulative_stats(), sig.arias_intensity, sig.cav, sig.arias_intensity_series, sig.cav_series))
            elif opk == 36:
                name, call = 'generate_duration_stats', (lambda: sig.generate_duration_stats())
            elif opk == 37:
                name, call = 'generate_all_motion_stats', (lambda: sig.generate_all_motion_stats())
            elif opk == 38:
                name, call = 'reset_all_motion_stats', (lambda: (sig.reset_all_motion_stats(), sig.generate_peak_values()))
            else:
                def call():
                    sig.response_times = np.array([0.3, 0.6])
                    return sig.response_times
                name = 'set_response_times'

            before_callers = [snap(c) for c in callers + new_callers]
            res, r = run(call)
            callers.extend(new_callers)
            after_callers = [snap(c) for c in callers]
            heavy = (rng.rand() < 0.12) and n <= 70
            entry.append((name, r, full_state(sig, heavy=heavy),
                          sig.values is old_ref, snap(old_ref), arr_facts(old_ref),
                          before_callers == after_callers, after_callers,
                          [bool(np.shares_memory(sig.values, c)) for c in callers if isinstance(c, np.ndarray)],
                          bool(np.shares_memory(sig.values, old_ref)) if isinstance(old_ref, np.ndarray) and isinstance(sig.values, np.ndarray) else None,
                          light_state(other)))
        log.append(entry)

    # ---------------- clusters ----------------
    def cluster_case(rng, cid):
        nsig = [1, 2, 2, 2, 3, 3][rng.randint(0, 6)]
        n = [12, 20, 33, 64, 100][rng.randint(0, 5)]
        dt = [0.01, 0.02, 0.1][rng.randint(0, 3)]
        master = base_values(rng, n, kind=[0, 3, 5, 2][rng.randint(0, 4)])
        rows = [master]
        for j in range(1, nsig):
            lag = rng.randint(-4, 5)
            row = np.roll(master, lag) + (0.01 * rng.randn(n) if master.dtype.kind == 'f' else 0)
            if rng.rand() < 0.3:
                row = base_values(rng, n, kind=0)
            rows.append(row)
        form = rng.randint(0, 7)
        if form == 0:
            values = np.array(rows)
        elif form == 1:
            values = [np.array(r) for r in rows]
        elif form == 2:
            values = [list(r.tolist()) for r in rows]
        elif form == 3:
            values = np.array(rows, dtype=float)
        elif form == 4:  # single precision or 32 bit integer records
            values = [np.array(r).astype(np.float32 if r.dtype.kind == 'f' else np.int32) for r in rows]
        elif form == 5:  # records of different lengths
            values = [np.array(r)[:n - 3 * j] for j, r in enumerate(rows)]
        else:
            values = [np.array(r)[:n - 2 * (nsig - 1 - j)].tolist() for j, r in enumerate(rows)]
        stypes = ['custom', 'acc', ['acc'] * nsig, ['custom'] + ['acc'] * (nsig - 1)][rng.randint(0, 4)]
        kw = {}
        if rng.rand() < 0.3:
            kw['names'] = ['a', 'b', 'c'][:rng.randint(0, nsig + 1)]
        if rng.rand() < 0.3:
            kw['master_index'] = int(rng.randint(-1, nsig + 1))
        if rng.rand() < 0.3:
            kw['freq_range'] = [0.5, 10]
        entry = ['cluster', cid]
        cl, r = run(Cluster, values, dt, stypes=stypes, **kw)
        entry.append(r)
        if cl is None:
            log.append(entry)
            return

        def cstate():
            out = [snap(cl.n_signals), snap(cl.names), snap(cl.master), run(lambda: cl.time)[1]]
            for k in range(cl.n_signals):
                s = cl.signal_by_index(k)
                out.append(full_state(s))
                out.append(snap(cl.values_by_index(k)))
                out.append(snap(cl.name_by_index(k)))
                out.append(snap(cl.values(cl.name_by_index(k))))
                if isinstance(values, np.ndarray):
                    out.append(bool(np.shares_memory(s.values, values)))
                else:
                    out.append([bool(np.shares_memory(s.values, v)) for v in values if isinstance(v, np.ndarray)])
            out.append(snap(values))
            return out

        entry.append(cstate())
        for step in range(rng.randint(1, 5)):
            opk = rng.randint(0, 8)
            refs = [cl.values_by_index(k) for k in range(cl.n_signals)]
            if opk == 0:
                a = [(0, 1), (0, 3 * dt), (dt, 5 * dt)][rng.randint(0, 3)]
                name, call = 'same_start', (lambda: cl.same_start(start=a[0], end=a[1]))
            elif opk in (1, 2, 3):
                st = [2, 5, 10][rng.randint(0, 3)]
                kw2 = {'steps': st}
                if rng.rand() < 0.15:
                    kw2['set_step'] = 2
                name, call = 'time_match', (lambda: cl.time_match(**kw2))
            elif opk == 4:
                name, call = 'combine_motions', (lambda: cl.combine_motions(1.0 / (40 * dt), low_index=0, high_index=cl.n_signals - 1))
            elif opk == 5:
                name, call = 'generate_response_spectrums', (lambda: cl.generate_response_spectrums() if n <= 33 else None)
            elif opk == 6:
                def call():
                    if isinstance(values, np.ndarray):
                        values[0, 0] += 5
                    else:
                        mutate_container(np.random.RandomState(step), values[0])
                    return None
                name = 'caller_mutates'
            else:
                def call():
                    a = cl.signal_by_index(0)
                    b = cl.signal_by_index(cl.n_signals - 1)
                    new = multiple.combine_at_angle(a, b, 30.0)
                    d, p = multiple.compute_rotated(a, b, angle_off_ns=10.0, parameter=['pga', 'arias_intensity', None][step % 3],
                                                    func=None if step % 3 != 2 else (lambda s: s.pgv), points=4)
                    return new, d, p
                name = 'rotate'
            res, r = run(call)
            entry.append((name, r, cstate(), [cl.values_by_index(k) is refs[k] for k in range(cl.n_signals)],
                          [snap(x) for x in refs]))
        log.append(entry)

    rng = np.random.RandomState(SEED)
    for hid in range(N_HIST):
        history(rng, hid)
    rng = np.random.RandomState(SEED + 1)
    for cid in range(N_CLUSTER):
        cluster_case(rng, cid)
    rng = np.random.RandomState(SEED + 2)
    array_cases(rng, N_ARRAY_REP)

    with open(out_ffp, 'wb') as f:
        pickle.dump(log, f, protocol=pickle.HIGHEST_PROTOCOL)


# ------------------------------------------------------------------------------------------------
# parent: set up the two trees, run the driver twice, compare
# ------------------------------------------------------------------------------------------------

class Cmp(object):
    def __init__(self):
        self.approx = 0
        self.leaves = 0

    def same(self, a, b, path):
        """returns None if same else a description of the first difference"""
        import numpy as np
        if type(a) is not type(b):
            return '%s: type %s != %s' % (path, type(a).__name__, type(b).__name__)
        if isinstance(a, (list, tuple)):
            if len(a) == 4 and a[0] == 'nd' and isinstance(a[3], bytes):
                self.leaves += 1
                if len(b) != 4 or b[0] != 'nd':
                    return '%s: array vs other' % path
                if a[1] != b[1] or a[2] != b[2]:
                    return '%s: array dtype/shape %s %s != %s %s' % (path, a[1], a[2], b[1], b[2])
                if a[3] == b[3]:
                    return None
                dt = np.dtype(a[1])
                if dt.kind in 'fc':
                    x = np.frombuffer(a[3], dtype=dt)
                    y = np.frombuffer(b[3], dtype=dt)
                    with np.errstate(all='ignore'):
                        if np.allclose(x, y, rtol=1e-12, atol=0.0, equal_nan=True):
                            self.approx += 1
                            return None
                    return '%s: array values differ (max abs diff %r)' % (path, float(np.nanmax(np.abs(x - y))))
                return '%s: array bytes differ' % path
            if len(a) != len(b):
                return '%s: length %i != %i' % (path, len(a), len(b))
            for i in range(len(a)):
                d = self.same(a[i], b[i], path + '[%i]' % i)
                if d is not None:
                    return d
            return None
        self.leaves += 1
        if a != b:
            ra, rb = repr(a), repr(b)
            return '%s: %s != %s' % (path, ra[:120], rb[:120])
        return None


def main():
    t0 = _time.time()
    cwd = os.getcwd()
    if not os.path.isdir(os.path.join(cwd, 'eqsig')):
        print('run from the root of the worktree (cwd must contain eqsig/)')
        return 2
    tmp = tempfile.mkdtemp(prefix='eqsig_equiv_')
    try:
        orig_root = os.path.join(tmp, 'orig')
        os.makedirs(orig_root)
        tar_ffp = os.path.join(tmp, 'orig.tar')
        with open(tar_ffp, 'wb') as f:
            subprocess.check_call(['git', 'archive', 'HEAD', 'eqsig'], cwd=cwd, stdout=f)
        subprocess.check_call(['tar', '-xf', tar_ffp, '-C', orig_root])
        outs = {}
        procs = []
        for label, root in (('orig', orig_root), ('edit', cwd)):
            env = dict(os.environ)
            env['PYTHONPATH'] = root
            env['PYTHONDONTWRITEBYTECODE'] = '1'
            env['PYTHONHASHSEED'] = '0'
            out_ffp = os.path.join(tmp, label + '.pkl')
            outs[label] = out_ffp
            # run from the temporary directory so that '' on sys.path cannot pick up a package
            err_f = open(os.path.join(tmp, label + '.stderr'), 'wb')  # LAPACK prints noise for records holding nan
            p = subprocess.Popen([sys.executable, os.path.abspath(__file__), '--child', root, out_ffp], env=env, cwd=tmp,
                                 stderr=err_f, stdout=err_f)
            procs.append((label, p, err_f))
        for label, p, err_f in procs:
            rc = p.wait()
            err_f.close()
            if rc != 0:
                print('driver failed for %s tree (exit code %i)' % (label, rc))
                with open(os.path.join(tmp, label + '.stderr'), 'rb') as f:
                    print(f.read().decode('utf-8', 'replace')[-3000:])
                return 2
        with open(outs['orig'], 'rb') as f:
            lo = pickle.load(f)
        with open(outs['edit'], 'rb') as f:
            le = pickle.load(f)
    finally:
        shutil.rmtree(tmp, ignore_errors=True)

    cmp = Cmp()
    n_diff = 0
    if len(lo) != len(le):
        print('different number of log entries: %i != %i' % (len(lo), len(le)))
        n_diff += 1
    n_exc = 0
    for i in range(min(len(lo), len(le))):
        d = cmp.same(lo[i], le[i], 'case %i (%s)' % (i, lo[i][0]))
        if d is not None:
            n_diff += 1
            if n_diff <= 15:
                print('MISMATCH ' + d)
    n_steps = sum(len(e) - 7 for e in lo if e[0] == 'hist' and len(e) > 7)
    print('%s: %i log entries (%i history steps), %i leaves compared, %i arrays equal only to 1e-12, %i mismatching entries, %.1f s'
          % (FOCUS, len(lo), n_steps, cmp.leaves, cmp.approx, n_diff, _time.time() - t0))
    if n_diff:
        print('NOT EQUIVALENT')
        return 1
    print('EQUIVALENT')
    return 0


if __name__ == '__main__':
    if len(sys.argv) >= 4 and sys.argv[1] == '--child':
        child(sys.argv[2], sys.argv[3])
        sys.exit(0)
    sys.exit(main())

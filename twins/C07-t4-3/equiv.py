"""
Equivalence check for twin3 (C07).

Run with the twin applied, cwd = the worktree:

    /venv/bin/python out/equiv3.py

The ORIGINAL package is extracted from git (`git archive HEAD eqsig`) into a temporary directory under /tmp.
The same deterministic battery of cases is then run in two subprocesses, one importing the original package and
one importing the edited package of the worktree; every recorded outcome (returned values incl. dtype and shape,
exceptions, warnings, mutation of arguments, aliasing, object state after every step of a history) must be
bit-for-bit identical.  Exit status 0 iff everything matches.
"""
import os
import pickle
import subprocess
import sys
import tempfile
import shutil

TWIN = 'twin3'
WORKTREE = os.path.dirname(os.path.dirname(os.path.abspath(__file__)))


# --------------------------------------------------------------------------------------------------------------------
# canonical (bit exact) encoding of outcomes
# --------------------------------------------------------------------------------------------------------------------

def enc(obj):
    import numpy as np
    if isinstance(obj, np.ndarray):
        if obj.dtype in (np.dtype(np.longdouble), np.dtype(np.clongdouble)) and obj.dtype.itemsize in (16, 32):
            # x87 extended precision: only 10 of every 16 bytes are significant, the padding is arbitrary
            raw = np.ascontiguousarray(obj).reshape(-1).view(np.uint8).reshape(-1, 16)[:, :10]
            return ('ndarray', obj.dtype.str, obj.shape, raw.tobytes())
        return ('ndarray', obj.dtype.str, obj.shape, np.ascontiguousarray(obj).tobytes())
    if isinstance(obj, np.generic):
        if isinstance(obj, (np.longdouble, np.clongdouble)):
            return ('npscalar',) + enc(np.asarray(obj))[1:]
        return ('npscalar', obj.dtype.str, obj.tobytes())
    if isinstance(obj, (tuple, list)):
        return (type(obj).__name__,) + tuple(enc(o) for o in obj)
    if isinstance(obj, dict):
        return ('dict',) + tuple((k, enc(obj[k])) for k in sorted(obj))
    if isinstance(obj, float):
        import struct
        return ('float', struct.pack('<d', obj))
    if isinstance(obj, (bool, int, str, bytes, type(None), complex)):
        return (type(obj).__name__, obj)
    import re
    return ('repr', type(obj).__name__, re.sub(r' at 0x[0-9a-fA-F]+', '', repr(obj)))


def attempt(fn, *args, **kwargs):
    """Run fn, return encoded (result | exception) and the warnings it emitted."""
    import warnings
    with warnings.catch_warnings(record=True) as wlist:
        warnings.simplefilter('always')
        try:
            res = ('ok', enc(fn(*args, **kwargs)))
        except Exception as e:  # noqa
            res = ('exc', type(e).__name__, str(e))
    warns = tuple((w.category.__name__, str(w.message)) for w in wlist)
    return res, warns


# --------------------------------------------------------------------------------------------------------------------
# the battery (runs inside the subprocess, against whichever eqsig is first on sys.path)
# --------------------------------------------------------------------------------------------------------------------

def sig_state(sig):
    names = ['_smooth_fa_freqs', '_smooth_freq_range', '_cached_smooth_fa', '_smooth_fa_spectrum', '_cached_fa',
             '_fa_spectrum', '_fa_freqs', '_npts', '_values', '_dt', '_smooth_freq_points']
    return enc(dict((n, getattr(sig, n, 'MISSING')) for n in names))


def run_battery(root):
    sys.path.insert(0, root)
    import numpy as np
    import eqsig
    assert os.path.abspath(eqsig.__file__).startswith(os.path.abspath(root) + os.sep), (eqsig.__file__, root)
    from eqsig.fns import frequency as fq
    from eqsig import im
    import eqsig.single as single

    out = []

    def rec(tag, *payload):
        out.append((tag,) + payload)

    rng = np.random.RandomState(20260926)

    # ---------------- functional form: calc_smooth_fa_spectrum / matrix form -------------------------------------
    def grid(n, df, zero):
        f = np.arange(n) * df
        return f if zero else f[1:]

    def targets(kind, f, rng):
        fpos = f[f > 0]
        if kind == 'none':
            return None
        if kind == 'on_grid':
            return fpos[:: max(1, len(fpos) // 7)].copy()
        if kind == 'inside':
            return np.sort(rng.uniform(fpos[0], fpos[-1], 9))
        if kind == 'outside':
            return np.array([fpos[0] / 50., fpos[0] / 2., fpos[-1] * 1.5, fpos[-1] * 40.])
        if kind == 'mixed':
            return np.concatenate([[fpos[0] / 3.], fpos[:3], [0.5 * (fpos[0] + fpos[-1])], fpos[-2:], [fpos[-1] * 3]])
        if kind == 'logspace':
            return np.logspace(-1, 1.4, 30)
        if kind == 'single':
            return np.array([fpos[len(fpos) // 2]])
        if kind == 'unsorted':
            return rng.permutation(np.concatenate([fpos[:4], rng.uniform(fpos[0], fpos[-1], 4)]))
        raise ValueError(kind)

    def spectrum(kind, n, rng):
        if kind == 'complex':
            return rng.randn(n) + 1j * rng.randn(n)
        if kind == 'real':
            return rng.randn(n)
        if kind == 'positive':
            return np.abs(rng.randn(n)) + 0.1
        if kind == 'const':
            return np.full(n, 2.5)
        if kind == 'zeros':
            return np.zeros(n)
        if kind == 'int':
            return rng.randint(-5, 6, n)
        if kind == 'float32':
            return rng.randn(n).astype(np.float32)
        if kind == 'spike':
            s = np.zeros(n)
            s[n // 2] = 1.0
            return s
        raise ValueError(kind)

    tkinds = ['none', 'on_grid', 'inside', 'outside', 'mixed', 'logspace', 'single', 'unsorted']
    skinds = ['complex', 'real', 'positive', 'const', 'zeros', 'int', 'float32', 'spike']
    bands = [5, 5.0, 12.5, 40, 40.0, 73, 100, 100.0]
    case = 0
    for n in [2, 3, 4, 5, 8, 17, 64, 257, 1024]:
        for zero in [True, False]:
            for df in [0.01, 0.125, 1.0]:
                f = grid(n, df, zero)
                for tk in tkinds:
                    case += 1
                    sk = skinds[case % len(skinds)]
                    band = bands[(case // 3) % len(bands)]
                    spec = spectrum(sk, len(f), rng)
                    sm = targets(tk, f, rng)
                    f0, spec0 = f.copy(), spec.copy()
                    sm0 = None if sm is None else sm.copy()
                    tag = ('fn', n, zero, df, tk, sk, band)
                    rec(tag + ('direct',), attempt(fq.calc_smooth_fa_spectrum, f, spec, sm, band=band))
                    rec(tag + ('deprecated',), attempt(fq.generate_smooth_fa_spectrum, sm, f, spec, band=band)
                        if sm is not None else None)
                    rec(tag + ('matrix',), attempt(fq.calc_smoothing_matrix_konno_1998, f, sm, band=band))
                    if case % 4 == 0:
                        rec(tag + ('defaults',), attempt(fq.calc_smooth_fa_spectrum, f, spec, sm),
                            attempt(fq.calc_smoothing_matrix_konno_1998, f, sm),
                            attempt(fq.calc_smoothing_matrix_konno_1998, f))
                    # arguments must not be mutated
                    rec(tag + ('args',), enc(f), enc(spec), enc(sm),
                        bool(np.array_equal(f, f0)), bool(np.array_equal(spec, spec0)),
                        sm is None or bool(np.array_equal(sm, sm0)))

    # odd argument forms: integer grids, float32 grids, strided / read-only views, lists, tuples, 2-D targets
    f_int = np.arange(0, 12)
    f_int_nz = np.arange(1, 12)
    spec = rng.randn(12) + 1j * rng.randn(12)
    sm_int = np.array([1, 2, 5, 20])
    for band in [5, 40, 100]:
        rec(('odd', 'intgrid', band), attempt(fq.calc_smooth_fa_spectrum, f_int, spec, sm_int, band=band),
            attempt(fq.calc_smooth_fa_spectrum, f_int_nz, spec[1:], None, band=band),
            attempt(fq.calc_smoothing_matrix_konno_1998, f_int, sm_int, band=band),
            attempt(fq.calc_smoothing_matrix_konno_1998, f_int_nz, None, band=band))
        f32 = (np.arange(20) * 0.25).astype(np.float32)
        s32 = rng.randn(20).astype(np.float32)
        rec(('odd', 'f32', band), attempt(fq.calc_smooth_fa_spectrum, f32, s32, f32[1::3], band=band),
            attempt(fq.calc_smooth_fa_spectrum, f32, s32, None, band=band),
            attempt(fq.calc_smoothing_matrix_konno_1998, f32, f32[1::3], band=band),
            attempt(fq.calc_smoothing_matrix_konno_1998, f32, None, band=np.float32(band)))
        flong = (np.arange(20) * 0.25).astype(np.longdouble)
        rec(('odd', 'longdouble', band), attempt(fq.calc_smooth_fa_spectrum, flong, s32, flong[1::3], band=band),
            attempt(fq.calc_smoothing_matrix_konno_1998, flong, None, band=band))
        big = np.arange(80) * 0.1
        bspec = rng.randn(80)
        strided_f, strided_s = big[::2], bspec[::2]
        rec(('odd', 'strided', band), attempt(fq.calc_smooth_fa_spectrum, strided_f, strided_s, big[3::7], band=band),
            attempt(fq.calc_smooth_fa_spectrum, big[::-1][:-1], bspec[::-1][:-1], big[3::7], band=band),
            attempt(fq.calc_smoothing_matrix_konno_1998, strided_f, big[3::7], band=band))
        ro_f, ro_s, ro_t = big.copy(), bspec.copy(), big[5::9].copy()
        for a in (ro_f, ro_s, ro_t):
            a.setflags(write=False)
        rec(('odd', 'readonly', band), attempt(fq.calc_smooth_fa_spectrum, ro_f, ro_s, ro_t, band=band),
            attempt(fq.calc_smooth_fa_spectrum, ro_f, ro_s, None, band=band),
            attempt(fq.calc_smoothing_matrix_konno_1998, ro_f, ro_t, band=band))
        fl = list(np.arange(1, 9) * 0.5)
        fl0 = [0.0] + fl
        sl = list(rng.randn(8))
        rec(('odd', 'lists', band), attempt(fq.calc_smooth_fa_spectrum, fl, sl, [1.0, 2.0], band=band),
            attempt(fq.calc_smooth_fa_spectrum, fl0, [0.0] + sl, None, band=band),
            attempt(fq.calc_smooth_fa_spectrum, np.array(fl), sl, np.array([1.0, 2.0]), band=band),
            attempt(fq.calc_smooth_fa_spectrum, np.array(fl0), [0.0] + sl, np.array([1.0, 2.0]), band=band),
            attempt(fq.calc_smooth_fa_spectrum, np.array(fl), np.array(sl), [1.0, 2.0], band=band),
            attempt(fq.calc_smooth_fa_spectrum, tuple(fl), tuple(sl), (1.0, 2.0), band=band),
            attempt(fq.calc_smoothing_matrix_konno_1998, fl, [1.0, 2.0], band=band),
            attempt(fq.calc_smoothing_matrix_konno_1998, np.array(fl), [1.0, 2.0], band=band),
            attempt(fq.calc_smoothing_matrix_konno_1998, fl0, None, band=band))
        rec(('odd', 'targets2d', band),
            attempt(fq.calc_smoothing_matrix_konno_1998, np.array(fl), np.array([[1.0, 2.0], [3.0, 0.5]]), band=band))
        rec(('odd', 'only_zero_bin', band), attempt(fq.calc_smooth_fa_spectrum, np.array([0.0]), np.array([1.0]), None,
                                                    band=band),
            attempt(fq.calc_smooth_fa_spectrum, np.array([0.0]), np.array([1.0]), np.array([1.0, 2.0]), band=band),
            attempt(fq.calc_smoothing_matrix_konno_1998, np.array([0.0]), None, band=band),
            attempt(fq.calc_smooth_fa_spectrum, np.array([]), np.array([]), None, band=band))
        rec(('odd', 'target_zero_or_negative', band),
            attempt(fq.calc_smooth_fa_spectrum, np.array(fl), np.array(sl), np.array([0.0, 1.0, -2.0]), band=band),
            attempt(fq.calc_smoothing_matrix_konno_1998, np.array(fl), np.array([0.0, 1.0, -2.0]), band=band))
        rec(('odd', 'nan_inf', band),
            attempt(fq.calc_smooth_fa_spectrum, np.array(fl), np.array([np.nan] + sl[1:]), np.array([1.0, 2.2]),
                    band=band),
            attempt(fq.calc_smooth_fa_spectrum, np.array(fl), np.array([np.inf] + sl[1:]), np.array([1.0, 2.2]),
                    band=band))

    # ---------------- objects: Signal / AccSignal histories ------------------------------------------------------
    def record_sig(tag, sig):
        rec(tag, sig_state(sig))

    def history(tag, cls, values, dt, kwargs, script_seed):
        hr = np.random.RandomState(script_seed)
        with_warn = attempt(lambda: cls(values, dt, **kwargs))
        rec(tag + ('construct',), with_warn)
        try:
            import warnings
            with warnings.catch_warnings():
                warnings.simplefilter('ignore')
                sig = cls(values, dt, **kwargs)
        except Exception:  # noqa
            return
        record_sig(tag + ('state0',), sig)
        steps = ['read', 'set_freqs_list', 'read', 'set_frequencies_arr', 'bw', 'set_by_range', 'read', 'gen_custom',
                 'bw', 'gen_band', 'generate_band', 'reset_values', 'read', 'dep_range_get', 'dep_range_set', 'read',
                 'dep_points_get', 'dep_points_set', 'read', 'clear_cache', 'gen_fa', 'read', 'set_freqs_int', 'bw',
                 'set_frequencies_list', 'matrix_form', 'sig_range', 'gen_custom_on_grid', 'bw', 'set_by_range_list',
                 'set_by_range_arr', 'read', 'alias_checks']
        order = list(steps)
        if script_seed % 3 == 1:
            order = list(hr.permutation(steps))
        elif script_seed % 3 == 2:
            order = list(hr.choice(steps, size=45))
        for i, step in enumerate(order):
            stag = tag + (i, step)
            if step == 'read':
                rec(stag, attempt(lambda: sig.smooth_fa_spectrum), attempt(lambda: sig.smooth_fa_freqs),
                    attempt(lambda: sig.smooth_fa_frequencies),
                    attempt(lambda: sig.smooth_fa_freqs is sig.smooth_fa_frequencies),
                    attempt(lambda: sig.smooth_fa_freqs is sig._smooth_fa_freqs))
            elif step == 'set_freqs_list':
                lst = [0.2, 0.5, 1.0, 2.0, 7.5, 20.0]

                def fn():
                    sig.smooth_fa_freqs = lst
                rec(stag, attempt(fn), enc(lst))
            elif step == 'set_freqs_int':
                arr = np.array([1, 2, 3, 5, 8, 13])

                def fn():
                    sig.smooth_fa_freqs = arr
                rec(stag, attempt(fn), enc(arr), sig._smooth_fa_freqs is arr)
            elif step == 'set_frequencies_arr':
                arr = np.sort(hr.uniform(0.05, 40., 11))
                arr0 = arr.copy()

                def fn():
                    sig.smooth_fa_frequencies = arr
                rec(stag, attempt(fn), enc(arr), bool(np.array_equal(arr, arr0)), sig._smooth_fa_freqs is arr,
                    bool(np.shares_memory(sig._smooth_fa_freqs, arr)))
            elif step == 'set_frequencies_list':
                lst = [3, 1.5, 0.25, 11]

                def fn():
                    sig.smooth_fa_frequencies = lst
                rec(stag, attempt(fn), enc(lst))
            elif step == 'set_by_range':
                lims = (float(hr.uniform(0.05, 0.5)), float(hr.uniform(5., 40.)))
                npnts = int(hr.randint(1, 70))
                rec(stag, attempt(sig.set_smooth_fa_frequecies_by_range, lims, npnts), enc(lims))
            elif step == 'set_by_range_list':
                lims = [1, 10]
                rec(stag, attempt(sig.set_smooth_fa_frequecies_by_range, lims, 4), enc(lims),
                    sig._smooth_freq_range is lims)
            elif step == 'set_by_range_arr':
                lims = np.array([0.3, 12.0, 99.0])
                rec(stag, attempt(sig.set_smooth_fa_frequecies_by_range, lims, 16), enc(lims),
                    sig._smooth_freq_range is lims, bool(np.shares_memory(sig._smooth_freq_range, lims)))
            elif step == 'gen_custom':
                arr = np.sort(hr.uniform(0.05, 40., 7))
                band = [5, 20.5, 40, 100][int(hr.randint(4))]
                rec(stag, attempt(sig.gen_smooth_fa_spectrum, smooth_fa_freqs=arr, band=band), enc(arr),
                    sig._smooth_fa_freqs is arr)
            elif step == 'gen_custom_on_grid':
                def fn():
                    ff = sig.fa_freqs
                    arr = ff[1:: max(1, len(ff) // 5)]
                    sig.gen_smooth_fa_spectrum(arr, band=30)
                    return arr, sig._smooth_fa_freqs is arr
                rec(stag, attempt(fn))
            elif step == 'gen_band':
                band = [5, 33.3, 40, 100][int(hr.randint(4))]
                rec(stag, attempt(sig.gen_smooth_fa_spectrum, band=band))
            elif step == 'generate_band':
                band = [5, 33.3, 40, 100][int(hr.randint(4))]
                rec(stag, attempt(sig.generate_smooth_fa_spectrum, band), attempt(sig.generate_smooth_fa_spectrum))
            elif step == 'reset_values':
                newv = hr.randn(int(hr.randint(4, 300)))
                rec(stag, attempt(sig.reset_values, newv))
            elif step == 'dep_range_get':
                rec(stag, attempt(lambda: sig.smooth_freq_range))
            elif step == 'dep_range_set':
                def fn():
                    sig.smooth_freq_range = (0.2, 25)
                rec(stag, attempt(fn))
            elif step == 'dep_points_get':
                rec(stag, attempt(lambda: sig.smooth_freq_points))
            elif step == 'dep_points_set':
                def fn():
                    sig.smooth_freq_points = 23
                rec(stag, attempt(fn))
            elif step == 'clear_cache':
                rec(stag, attempt(sig.clear_cache))
            elif step == 'gen_fa':
                rec(stag, attempt(sig.gen_fa_spectrum, p2_plus=int(hr.randint(0, 3))))
            elif step == 'bw':
                for ratio in [0.707, 0.5, 0.1, 0.999, 1.0, 0.0]:
                    rec(stag + (ratio,), attempt(im.calc_bandwidth_freqs, sig, ratio=ratio),
                        attempt(im.calc_bandwidth_f_min, sig, ratio=ratio),
                        attempt(im.calc_bandwidth_f_max, sig, ratio=ratio))
                rec(stag + ('default',), attempt(im.calc_bandwidth_freqs, sig), attempt(im.calc_bandwidth_f_min, sig),
                    attempt(im.calc_bandwidth_f_max, sig))
            elif step == 'sig_range':
                for ratio in [15, 2, 1.0, 1000., 0.5]:
                    rec(stag + (ratio,), attempt(fq.get_sig_freq_range, sig, ratio=ratio),
                        attempt(lambda: fq.get_sig_array_indexes_range(sig.smooth_fa_spectrum, ratio=ratio)))
                rec(stag + ('default',), attempt(fq.get_sig_freq_range, sig),
                    attempt(lambda: fq.get_sig_array_indexes_range(sig.smooth_fa_spectrum)))
            elif step == 'matrix_form':
                def fn():
                    mat = fq.calc_smoothing_matrix_konno_1998(sig.fa_frequencies, sig.smooth_fa_frequencies, band=40)
                    return mat, fq.calc_smooth_fa_spectrum_w_custom_matrix(sig, mat)
                rec(stag, attempt(fn))
            elif step == 'alias_checks':
                rec(stag, attempt(lambda: sig.smooth_fa_spectrum is sig._smooth_fa_spectrum),
                    attempt(lambda: sig.smooth_fa_frequencies is sig._smooth_fa_freqs))
            else:
                raise ValueError(step)
            record_sig(stag + ('state',), sig)

    t = np.arange(400) * 0.01
    value_sets = [
        ('randn', rng.randn(400), 0.01),
        ('sine', np.sin(2 * np.pi * 2.0 * t) + 0.3 * np.sin(2 * np.pi * 7.3 * t), 0.01),
        ('short5', rng.randn(5), 0.02),
        ('short3_list', [0.5, -1.0, 0.25], 0.1),
        ('len2', [1.0, -1.0], 0.05),
        ('int', rng.randint(-10, 10, 130), 0.005),
        ('zeros', np.zeros(64), 0.01),
        ('pow2', rng.randn(256), 0.02),
        ('spike', np.eye(1, 100, 10)[0], 0.01),
        ('long', rng.randn(3000), 0.005),
    ]
    kw_sets = [
        {},
        {'smooth_freq_range': (0.5, 10)},
        {'smooth_freq_range': [1, 20]},
        {'smooth_freq_range': np.array([0.2, 45.])},
        {'smooth_fa_freqs': [0.3, 1, 2.5, 10]},
        {'smooth_fa_freqs': np.array([1, 2, 4, 8])},
        {'smooth_fa_freqs': np.logspace(-1, 1.5, 40)},
    ]
    seed = 0
    for vname, vals, dt in value_sets:
        for ki, kw in enumerate(kw_sets):
            for cname, cls in (('Signal', single.Signal), ('AccSignal', single.AccSignal)):
                seed += 1
                if vname == 'long' and ki not in (0, 6):
                    continue
                history(('obj', vname, ki, cname), cls, vals, dt, kw, seed)

    # smooth targets exactly on the Fourier grid of a Signal, with and without zero bin handled by the method
    for npts in [16, 100, 512]:
        vals = rng.randn(npts)
        sig = single.AccSignal(vals, 0.01)
        ff = sig.fa_frequencies
        for sel in [ff[1:], ff[1::3], ff[-4:], np.concatenate([ff[1:4], ff[1:4] * 1.0000001])]:
            for band in [5, 40, 100]:
                rec(('ongrid', npts, len(sel), band), attempt(sig.gen_smooth_fa_spectrum, smooth_fa_freqs=sel, band=band),
                    sig_state(sig), attempt(im.calc_bandwidth_freqs, sig),
                    attempt(fq.calc_smooth_fa_spectrum, sig.fa_frequencies, sig.fa_spectrum, sel, band=band),
                    attempt(fq.calc_smooth_fa_spectrum, sig.fa_frequencies[1:], sig.fa_spectrum[1:], sel, band=band))

    # duck-typed objects for the bandwidth helpers
    class Duck(object):
        def __init__(self, spec, freqs):
            self.smooth_fa_spectrum = spec
            self.smooth_fa_frequencies = freqs

    for k in range(60):
        n = int(rng.randint(1, 40))
        spec = np.abs(rng.randn(n))
        if k % 7 == 0:
            spec[:] = 1.0
        if k % 11 == 0:
            spec[:] = 0.0
        if k % 13 == 0 and n > 2:
            spec[1] = np.nan
        freqs = np.sort(rng.uniform(0.1, 30, n))
        duck = Duck(spec, freqs)
        for ratio in [0.707, 0.3, 1.0, 0.0, 15, 2]:
            rec(('duck', k, ratio), attempt(im.calc_bandwidth_freqs, duck, ratio=ratio),
                attempt(im.calc_bandwidth_f_min, duck, ratio=ratio), attempt(im.calc_bandwidth_f_max, duck, ratio=ratio),
                attempt(fq.get_sig_freq_range, duck, ratio=ratio),
                attempt(fq.get_sig_array_indexes_range, spec, ratio=ratio), enc(spec), enc(freqs))
        duck_l = Duck(list(spec), list(freqs))
        rec(('duck_list', k), attempt(im.calc_bandwidth_freqs, duck_l), attempt(im.calc_bandwidth_f_min, duck_l),
            attempt(im.calc_bandwidth_f_max, duck_l), attempt(fq.get_sig_freq_range, duck_l),
            attempt(fq.get_sig_array_indexes_range, list(spec)))
        duck_m = Duck(spec, list(freqs))
        rec(('duck_mixed', k), attempt(im.calc_bandwidth_freqs, duck_m), attempt(im.calc_bandwidth_f_min, duck_m),
            attempt(im.calc_bandwidth_f_max, duck_m), attempt(fq.get_sig_freq_range, duck_m))

    # public surface must be unchanged
    rec(('namespace', 'frequency'), tuple(sorted(n for n in dir(fq) if not n.startswith('_'))))
    rec(('namespace', 'eqsig'), tuple(sorted(n for n in dir(eqsig) if not n.startswith('_'))))
    rec(('namespace', 'im'), tuple(sorted(n for n in dir(im) if not n.startswith('_'))))
    rec(('namespace', 'Signal'), tuple(sorted(n for n in dir(single.Signal) if not n.startswith('__'))))
    import inspect
    for fn in [fq.calc_smooth_fa_spectrum, fq.calc_smoothing_matrix_konno_1998, fq.generate_smooth_fa_spectrum,
               fq.calc_smooth_fa_spectrum_w_custom_matrix, fq.get_sig_freq_range, fq.get_sig_array_indexes_range,
               im.calc_bandwidth_freqs, im.calc_bandwidth_f_min, im.calc_bandwidth_f_max,
               single.Signal.gen_smooth_fa_spectrum, single.Signal.generate_smooth_fa_spectrum,
               single.Signal.set_smooth_fa_frequecies_by_range, single.Signal.__init__]:
        rec(('signature', fn.__name__), str(inspect.signature(fn)), fn.__doc__)
    return out


# --------------------------------------------------------------------------------------------------------------------
# driver
# --------------------------------------------------------------------------------------------------------------------

def main():
    if len(sys.argv) == 4 and sys.argv[1] == '--worker':
        root, outfile = sys.argv[2], sys.argv[3]
        os.chdir(root)
        res = run_battery(root)
        with open(outfile, 'wb') as fh:
            pickle.dump(res, fh, protocol=2)
        return 0

    tmpdir = tempfile.mkdtemp(prefix='eqsig_orig_%s_' % TWIN, dir='/tmp')
    try:
        arch = subprocess.Popen(['git', 'archive', 'HEAD', 'eqsig'], cwd=WORKTREE, stdout=subprocess.PIPE)
        subprocess.check_call(['tar', '-x', '-C', tmpdir], stdin=arch.stdout)
        arch.stdout.close()
        assert arch.wait() == 0
        results = {}
        env = dict(os.environ)
        env.pop('PYTHONPATH', None)
        env['PYTHONDONTWRITEBYTECODE'] = '1'
        for var in ('OMP_NUM_THREADS', 'OPENBLAS_NUM_THREADS', 'MKL_NUM_THREADS'):
            env[var] = '1'
        for name, root in (('orig', tmpdir), ('edit', WORKTREE)):
            outfile = os.path.join(tmpdir, 'res_%s.pkl' % name)
            subprocess.check_call([sys.executable, os.path.abspath(__file__), '--worker', root, outfile], env=env,
                                  cwd=root)
            with open(outfile, 'rb') as fh:
                results[name] = pickle.load(fh)
        # the edited tree must really differ from the original (i.e. the twin is applied)
        diff = subprocess.call(['diff', '-rq', '-x', '__pycache__', os.path.join(tmpdir, 'eqsig'),
                                os.path.join(WORKTREE, 'eqsig')], stdout=subprocess.DEVNULL)
        if diff == 0:
            print('WARNING: worktree eqsig/ is identical to HEAD - is %s applied?' % TWIN)
        a, b = results['orig'], results['edit']
        n_bad = 0
        if len(a) != len(b):
            print('different number of records: %i vs %i' % (len(a), len(b)))
            n_bad += 1
        for ra, rb in zip(a, b):
            if ra != rb:
                n_bad += 1
                if n_bad <= 10:
                    print('MISMATCH at', ra[0])
                    print('   orig:', repr(ra[1:])[:600])
                    print('   edit:', repr(rb[1:])[:600])
        n_exc = sum(1 for r in a for p in r[1:] if isinstance(p, tuple) and len(p) == 2 and isinstance(p[0], tuple)
                    and p[0] and p[0][0] == 'exc')
        print('%s: %i records compared (%i of the attempts raise identically), %i mismatches'
              % (TWIN, len(a), n_exc, n_bad))
        return 0 if n_bad == 0 else 1
    finally:
        shutil.rmtree(tmpdir, ignore_errors=True)


if __name__ == '__main__':
    sys.exit(main())

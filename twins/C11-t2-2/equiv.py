"""
Equivalence check for twin 2 of C11 (run with twin2.diff applied, cwd = the worktree).

The ORIGINAL package is extracted from git (HEAD) into a temporary directory under /tmp; the EDITED
package is the one in the worktree.  The same deterministic battery of inputs is pushed through both
packages in two sub-processes (so that the two `eqsig` packages never meet in one interpreter); each
sub-process writes a pickle of serialised results (values incl. dtype / shape / bytes, exceptions,
warnings, argument mutation) which are compared here for exact (bit-for-bit) identity.

Exit status 0 iff everything matches.
"""
import hashlib
import itertools
import os
import pickle
import shutil
import subprocess
import sys
import tempfile
import warnings

TWIN = 2
EDITED_FILES = ['eqsig/fns/peaks_and_crossings.py']
LEVELS = (-1.0, -0.5, 0.0, 0.5, 2.0)  # the 5-level alphabet (contains 0 - the first sample being 0 matters)
EXH_PEAK_LEN = 8   # get_peak_array_indices: all sequences up to this length, all ptypes
EXH_OTHER_LEN = 6  # other functions: all sequences up to this length


# ----------------------------------------------------------------------------------------------------
# worker part (runs in a sub-process against ONE of the two packages)
# ----------------------------------------------------------------------------------------------------

def ser(x):
    """Serialise a result so that equality of serialisations means identical value, type, dtype and shape"""
    import numpy as np
    if isinstance(x, np.ndarray):
        return ('ndarray', x.dtype.str, x.shape, x.tobytes(), bool(x.flags.writeable))
    if isinstance(x, np.generic):
        return ('npscalar', type(x).__name__, x.dtype.str, x.tobytes())
    if isinstance(x, (list, tuple)):
        return (type(x).__name__, tuple(ser(v) for v in x))
    if isinstance(x, float):
        return ('float', x.hex() if x == x else 'nan')
    if isinstance(x, (int, str, bool, type(None))):
        return (type(x).__name__, repr(x))
    if isinstance(x, _FakeSig):
        return ('_FakeSig', ser(x.values))
    return ('other', type(x).__name__, repr(x))


class _FakeSig(object):
    def __init__(self, values):
        self.values = values


def fast_call(fn, *args):
    """Light version of call() for the big exhaustive loop (no copies; the caller checks the argument afterwards)"""
    try:
        return ('ok', ser(fn(*args)))
    except Exception as e:  # noqa
        return ('exc', type(e).__name__, str(e))


def call(fn, *args, **kwargs):
    """Calls fn on private copies of the arguments; returns serialised (result | exception, warnings, args after)"""
    import copy
    args = copy.deepcopy(args)
    with warnings.catch_warnings(record=True) as wlist:
        warnings.simplefilter('always')
        try:
            res = ('ok', ser(fn(*args, **kwargs)))
        except Exception as e:  # noqa
            res = ('exc', type(e).__name__, str(e))
    wser = tuple((w.category.__name__, str(w.message)) for w in wlist)
    return res, wser, ser(args)


def worker(pkg_parent, outfile):
    sys.path.insert(0, pkg_parent)
    os.chdir(pkg_parent)
    import numpy as np
    import eqsig
    import eqsig.fns.peaks_and_crossings as pc
    assert os.path.abspath(eqsig.__file__).startswith(os.path.abspath(pkg_parent) + os.sep), eqsig.__file__
    assert os.path.abspath(pc.__file__).startswith(os.path.abspath(pkg_parent) + os.sep), pc.__file__

    out = {'__file__': os.path.abspath(pc.__file__)}

    # ---- 1. exhaustive: running digests per (function, option, length) ----
    levels = np.array(LEVELS)
    for n in range(1, EXH_PEAK_LEN + 1):
        hs = {pt: hashlib.sha256() for pt in ('all', 'max', 'min')}
        with warnings.catch_warnings(record=True) as wlist:
            warnings.simplefilter('always')
            for combo in itertools.product(range(len(LEVELS)), repeat=n):
                v = levels[list(combo)]
                before = v.tobytes()
                for pt in hs:
                    hs[pt].update(repr(fast_call(pc.get_peak_array_indices, v, pt)).encode())
                assert v.tobytes() == before and v.dtype == float, 'argument was modified'
        for pt in hs:
            out[('exh', 'get_peak_array_indices', pt, n)] = hs[pt].hexdigest()
        out[('exh', 'get_peak_array_indices', 'warnings', n)] = tuple((w.category.__name__, str(w.message)) for w in wlist)

    int_levels = np.array([-2, -1, 0, 1, 3])
    for n in range(1, EXH_OTHER_LEN + 1):
        hs = {}

        def upd(key, val):
            hs.setdefault(key, hashlib.sha256()).update(repr(val).encode())

        for combo in itertools.product(range(len(LEVELS)), repeat=n):
            idx = list(combo)
            v = levels[idx]
            vi = int_levels[idx]
            vl = [LEVELS[i] for i in idx]
            vli = [int(int_levels[i]) for i in idx]
            for tag, arr in (('f', v), ('i', vi), ('lf', vl), ('li', vli)):
                upd(('clean', tag), call(pc.clean_out_non_changing, arr))
                upd(('detind', tag), call(pc.determine_indices_of_peaks_for_cleaned_array, arr))
                upd(('peaks_all', tag), call(pc.get_peak_array_indices, arr))
                upd(('peaks_max', tag), call(pc.get_peak_array_indices, arr, 'max'))
                upd(('peaks_min', tag), call(pc.get_peak_array_indices, arr, ptype='min'))
            for opt in ('all', 'switched'):
                for start in ('origin', 'peak'):
                    upd(('ncyc', opt, start), call(pc.get_n_cyc_array, v, opt, start))
                    upd(('ncyc_i', opt, start), call(pc.get_n_cyc_array, vi, opt=opt, start=start))
            upd(('ncyc_list',), call(pc.get_n_cyc_array, vl))
            upd(('switched',), call(pc.get_switched_peak_array_indices, v))
            upd(('switched_tol',), call(pc.get_switched_peak_array_indices, v, tol=0.6))
            upd(('zc', False), call(pc.get_zero_crossings_array_indices, v))
            upd(('zc', True), call(pc.get_zero_crossings_array_indices, v, keep_adj_zeros=True))
            upd(('zc_tol',), call(pc.get_zero_crossings_array_indices, v, True, 0.6))
            upd(('zp',), call(pc.get_zero_and_peak_array_indices, v))
            upd(('delta',), call(pc.determine_peaks_only_delta_series, v))
            upd(('pseudo',), call(pc.determine_pseudo_cyclic_peak_only_series, v))
            upd(('delta_clean',), call(pc.determine_peak_only_delta_series_4_cleaned_data, v))
            upd(('pseudo_clean',), call(pc._determine_peak_only_series_4_cleaned_data, v))
        for key in hs:
            out[('exh2', key, n)] = hs[key].hexdigest()

    # ---- 2. random real-valued and plateau-rich series, edge cases: full results kept ----
    rng = np.random.RandomState(20240911 + 11)
    series = []
    for n in (2, 3, 4, 5, 7, 10, 33, 100, 257, 1000, 5000):
        for rep in range(4):
            series.append(('normal', rng.standard_normal(n)))
            series.append(('uniform_pos', rng.uniform(0.1, 5.0, n)))
            series.append(('walk', np.cumsum(rng.standard_normal(n))))
            series.append(('rounded', np.round(rng.standard_normal(n), 1)))
            series.append(('ints', rng.randint(-3, 4, n)))
            series.append(('plateaus', np.repeat(rng.randint(-2, 3, n // 2 + 1), rng.randint(1, 5, n // 2 + 1))[:n].astype(float)))
            series.append(('flat_start0', np.concatenate((np.zeros(n // 3 + 1), rng.standard_normal(n)))[:n + 1]))
            series.append(('flat_start1', np.concatenate((np.full(n // 3 + 1, 1.5), np.round(rng.standard_normal(n), 1)))))
            series.append(('flat_end', np.concatenate((np.round(rng.standard_normal(n), 1), np.full(n // 3 + 1, -0.5)))))
            series.append(('sine', np.sin(np.linspace(0, 20 * rng.rand(), n)) * rng.rand()))
            series.append(('tiny', rng.standard_normal(n) * 1e-200))
            series.append(('huge', rng.standard_normal(n) * 1e200))
    t = np.linspace(0, 30, 3000)
    series.append(('decay', np.sin(3 * t) * np.exp(-0.1 * t)))
    edge = [
        ('zeros', np.zeros(6)), ('ones', np.ones(6)), ('single', np.array([3.0])), ('single0', np.array([0.0])),
        ('empty', np.array([])), ('two_up', np.array([0.0, 1.0])), ('two_dn', np.array([1.0, 0.0])),
        ('two_eq', np.array([2.0, 2.0])), ('negzero', np.array([-0.0, 0.0, 1.0, 0.0, -0.0, -1.0])),
        ('doc', np.array([0, 2, 1, 2, -1, 1, 1, 0.3, -1, 0.2, 1, 0.2])),
        ('doc_list', [0, 2, 1, 2, -1, 1, 1, 0.3, -1, 0.2, 1, 0.2]),
        ('tuple', (1, 1, 3, 3, 2, 2, 5)), ('int_list', [4, 4, 1, 1, 1, 6, 6, 2]),
        ('int32', np.array([1, 2, 2, 1, 5, 5], dtype=np.int32)), ('float32', np.array([1, 2, 2, 1, 5, 5], dtype=np.float32)),
        ('monotone_up', np.arange(10.0)), ('monotone_dn', -np.arange(10.0)), ('mono_plateau', np.array([0., 0, 1, 1, 2, 2, 3, 3])),
        ('underflow', np.array([0.0, 1e-200, 0.0, 1e-200, 0.0])), ('noncontig', np.arange(20.0)[::3] % 4),
        ('alt', np.array([1.0, -1.0] * 20)), ('start_nonzero_flat', np.array([5., 5, 5, 4, 6, 6, 3])),
    ]
    for k, (name, v) in enumerate(series + edge):
        key = ('case', k, name)
        r = {}
        r['clean'] = call(pc.clean_out_non_changing, v)
        r['detind'] = call(pc.determine_indices_of_peaks_for_cleaned_array, v)
        r['detind_dep'] = call(pc.determine_indices_of_peaks_for_cleaned, v)
        try:
            cleaned = pc.clean_out_non_changing(np.array(v, dtype=float))[0]
            r['detind_cleaned'] = call(pc.determine_indices_of_peaks_for_cleaned_array, cleaned)
            r['delta_clean'] = call(pc.determine_peak_only_delta_series_4_cleaned_data, cleaned)
            r['pseudo_clean'] = call(pc._determine_peak_only_series_4_cleaned_data, cleaned)
        except Exception as e:  # noqa
            r['detind_cleaned'] = ('prep-exc', type(e).__name__, str(e))
        for pt in ('all', 'max', 'min', 'other'):
            r['peaks', pt] = call(pc.get_peak_array_indices, v, pt)
        r['peaks_default'] = call(pc.get_peak_array_indices, v)
        r['peak_indices_sig'] = call(pc.get_peak_indices, _FakeSig(v))
        for opt in ('all', 'switched', 'bad'):
            for start in ('origin', 'peak', 'bad'):
                r['ncyc', opt, start] = call(pc.get_n_cyc_array, v, opt=opt, start=start)
        r['ncyc_default'] = call(pc.get_n_cyc_array, v)
        r['switched'] = call(pc.get_switched_peak_array_indices, v)
        r['switched_tol'] = call(pc.get_switched_peak_array_indices, v, tol=0.3)
        r['switched_sig'] = call(pc.get_switched_peak_indices, _FakeSig(v))
        for kaz in (False, True):
            for tol in (0.0, 0.3):
                r['zc', kaz, tol] = call(pc.get_zero_crossings_array_indices, v, keep_adj_zeros=kaz, tol=tol)
        r['zp'] = call(pc.get_zero_and_peak_array_indices, v)
        r['zp2'] = call(pc.get_zero_and_peak_array_indices, v, None, 2)
        r['delta'] = call(pc.determine_peaks_only_delta_series, v)
        r['pseudo'] = call(pc.determine_pseudo_cyclic_peak_only_series, v)
        out[key] = r

    # ---- 3. whether the 'max'/'min' selections are views of a fresh array, as before (observable by callers) ----
    v = np.array([0, 2, 1, 2, -1, 1, 1, 0.3, -1, 0.2, 1, 0.2])
    for pt in ('all', 'max', 'min'):
        res = pc.get_peak_array_indices(v, pt)
        out[('flags', pt)] = (res.flags.c_contiguous, res.flags.owndata, res.strides)
    res = pc.clean_out_non_changing(v)
    out[('flags', 'clean')] = tuple((a.flags.c_contiguous, a.flags.owndata, a.strides) for a in res)
    res = pc.determine_indices_of_peaks_for_cleaned_array(v)
    out[('flags', 'detind')] = (res.flags.c_contiguous, res.flags.owndata, res.strides)
    res = pc.get_n_cyc_array(v)
    out[('flags', 'ncyc')] = (res.flags.c_contiguous, res.flags.owndata, res.strides)

    # ---- 4. users elsewhere in the package (intensity measures built on the peak finder) ----
    import eqsig.im
    rng = np.random.RandomState(5)
    for k in range(5):
        acc = np.cumsum(rng.standard_normal(400)) * 0.01
        acc -= np.mean(acc)
        acc2 = np.roll(acc, 7)[::-1] * 0.7
        out[('im', 'n_cyc_pl', k)] = call(eqsig.im.calc_n_cyc_array_w_power_law, acc, 0.05, 0.3)
        out[('im', 'cyc_amp', k)] = call(eqsig.im.calc_cyc_amp_array_w_power_law, acc, 5, 0.3)
        out[('im', 'cyc_amp_gm', k)] = call(eqsig.im.calc_cyc_amp_gm_arrays_w_power_law, acc, acc2, 5, 0.3)
        out[('im', 'cyc_amp_comb', k)] = call(eqsig.im.calc_cyc_amp_combined_arrays_w_power_law, acc, acc2, 5, 0.3)

    with open(outfile, 'wb') as f:
        pickle.dump(out, f, protocol=2)


# ----------------------------------------------------------------------------------------------------
# driver part
# ----------------------------------------------------------------------------------------------------

def main():
    here = os.getcwd()
    assert os.path.isdir(os.path.join(here, 'eqsig')), 'run with cwd = the worktree'
    tmpdir = tempfile.mkdtemp(prefix='c11_equiv%d_' % TWIN, dir='/tmp')
    try:
        subprocess.check_call('git archive HEAD eqsig | tar -x -C "%s"' % tmpdir, shell=True, cwd=here)
        changed = False
        for f in EDITED_FILES:
            with open(os.path.join(here, f)) as a, open(os.path.join(tmpdir, f)) as b:
                if a.read() != b.read():
                    changed = True
        assert changed, 'the worktree is identical to HEAD in %s: apply twin%d.diff first' % (EDITED_FILES, TWIN)
        o_pkl = os.path.join(tmpdir, 'orig.pkl')
        e_pkl = os.path.join(tmpdir, 'edit.pkl')
        env = dict(os.environ)
        env.pop('PYTHONPATH', None)
        env['PYTHONHASHSEED'] = '0'
        procs = [subprocess.Popen([sys.executable, os.path.abspath(__file__), '--worker', tmpdir, o_pkl], env=env, cwd=tmpdir),
                 subprocess.Popen([sys.executable, os.path.abspath(__file__), '--worker', here, e_pkl], env=env, cwd=here)]
        codes = [p.wait() for p in procs]
        assert codes == [0, 0], 'worker failed: %s' % codes
        with open(o_pkl, 'rb') as f:
            orig = pickle.load(f)
        with open(e_pkl, 'rb') as f:
            edit = pickle.load(f)
    finally:
        shutil.rmtree(tmpdir, ignore_errors=True)

    assert orig.pop('__file__').startswith(tmpdir), 'original package was not loaded from the git archive'
    assert edit.pop('__file__').startswith(here), 'edited package was not loaded from the worktree'
    bad = []
    assert set(orig) == set(edit)
    n_cmp = 0
    for key in orig:
        if isinstance(orig[key], dict):
            assert set(orig[key]) == set(edit[key])
            for sub in orig[key]:
                n_cmp += 1
                if orig[key][sub] != edit[key][sub]:
                    bad.append((key, sub, orig[key][sub], edit[key][sub]))
        else:
            n_cmp += 1
            if orig[key] != edit[key]:
                bad.append((key, None, orig[key], edit[key]))
    n_ok_results = sum(1 for key in orig if isinstance(orig[key], dict) for sub in orig[key]
                       if isinstance(orig[key][sub], tuple) and orig[key][sub][0] and orig[key][sub][0][0] == 'ok')
    print('compared %d records (%d full non-exception results + exhaustive digests)' % (n_cmp, n_ok_results))
    if bad:
        for b in bad[:20]:
            print('MISMATCH', repr(b)[:1500])
        print('%d mismatches' % len(bad))
        return 1
    print('twin %d: all results identical' % TWIN)
    return 0


if __name__ == '__main__':
    if len(sys.argv) > 1 and sys.argv[1] == '--worker':
        worker(sys.argv[2], sys.argv[3])
        sys.exit(0)
    sys.exit(main())

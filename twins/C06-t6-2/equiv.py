"""
Equivalence program for twin 2 of property C06 (Fourier amplitude spectrum).

Run with the edit applied and cwd = the worktree:

    cd <worktree> && PYTHONPATH=<worktree> /venv/bin/python out/equiv2.py

The program extracts the ORIGINAL package from git (`git archive HEAD eqsig`) into a
temporary directory, runs one and the same deterministic battery of cases in two
subprocesses (one importing the original package, one importing the edited package of
the worktree), and compares every recorded observation bit-for-bit (dtype, shape and raw
bytes of arrays; type and repr of scalars; type and message of exceptions).

Exit status 0 iff every observation matches.
"""
import io
import os
import pickle
import subprocess
import sys
import tarfile
import tempfile

TWIN = 2


# --------------------------------------------------------------------------------------
# worker: runs the battery against the package found first on sys.path
# --------------------------------------------------------------------------------------

def _enc(x, depth=0):
    """Encode a result in a form that is comparable bit-for-bit and picklable."""
    import numpy as np
    if isinstance(x, np.ndarray):
        if x.dtype == object:
            return ("objarr", x.shape, tuple(_enc(v, depth + 1) for v in x.ravel().tolist()))
        return ("arr", x.dtype.str, x.shape, np.ascontiguousarray(x).tobytes())
    if isinstance(x, np.generic):
        return ("npscalar", type(x).__name__, x.dtype.str, x.tobytes())
    if isinstance(x, (bool, int, str, type(None))):
        return ("py", type(x).__name__, repr(x))
    if isinstance(x, float):
        return ("pyfloat", x.hex() if x == x else "nan")
    if isinstance(x, complex):
        return ("pycomplex", repr(x))
    if isinstance(x, (tuple, list)):
        return (type(x).__name__, tuple(_enc(v, depth + 1) for v in x))
    if isinstance(x, dict):
        return ("dict", tuple((k, _enc(v, depth + 1)) for k, v in sorted(x.items())))
    if isinstance(x, range):
        return ("range", repr(x))
    # Signal / AccSignal instances
    if hasattr(x, "values") and hasattr(x, "dt") and hasattr(x, "npts"):
        return ("sig", type(x).__name__, _enc(x.values), _enc(x.dt), _enc(x.npts), _enc(getattr(x, "label", None)))
    return ("other", type(x).__name__, repr(x))


def _call(fn, *args, **kwargs):
    try:
        return _enc(fn(*args, **kwargs))
    except BaseException as e:  # noqa
        if isinstance(e, (KeyboardInterrupt, SystemExit, MemoryError)):
            raise
        return ("exc", type(e).__name__, str(e))


def worker(out_path):
    import warnings
    import types
    import numpy as np
    warnings.simplefilter("ignore")
    np.seterr(all="ignore")

    import eqsig
    from eqsig.single import Signal, AccSignal
    from eqsig.fns import frequency as fq
    from eqsig import im

    rng = np.random.RandomState(20240606)
    res = []

    def rec(tag, val):
        res.append((tag, val))

    def observe(sig):
        """Everything the property observes on an object, through the public API only."""
        return (
            _call(lambda: sig.fa_spectrum),
            _call(lambda: sig.fa_freqs),
            _call(lambda: sig.fa_frequencies),
            _call(lambda: sig.fa_spectrum_abs),
            _call(lambda: sig.values),
            _call(lambda: sig.npts),
            _call(lambda: sig.dt),
        )

    # ---------------------------------------------------------------- record generators
    def make_record(kind, npts):
        t = np.arange(npts)
        if kind == "normal":
            return rng.standard_normal(npts)
        if kind == "int64":
            return rng.randint(-1000, 1000, size=npts).astype(np.int64)
        if kind == "int32":
            return rng.randint(-50, 50, size=npts).astype(np.int32)
        if kind == "list":
            return [float(v) for v in np.round(rng.standard_normal(npts), 3)]
        if kind == "intlist":
            return [int(v) for v in rng.randint(-9, 9, size=npts)]
        if kind == "tuple":
            return tuple(float(v) for v in rng.standard_normal(npts))
        if kind == "float32":
            return rng.standard_normal(npts).astype(np.float32)
        if kind == "complex":
            return rng.standard_normal(npts) + 1j * rng.standard_normal(npts)
        if kind == "zeros":
            return np.zeros(npts)
        if kind == "const":
            return np.full(npts, 2.5)
        if kind == "spike":
            v = np.zeros(npts)
            v[rng.randint(0, npts)] = -3.0
            return v
        if kind == "sine":
            f = rng.randint(1, max(2, npts // 2)) / float(npts)
            return np.sin(2 * np.pi * f * t + rng.uniform(0, 2 * np.pi))
        if kind == "twosine":  # near-equal amplitudes, phase dependent dominant bin
            f1 = rng.randint(1, max(2, npts // 2)) / float(npts)
            f2 = rng.randint(1, max(2, npts // 2)) / float(npts)
            return np.sin(2 * np.pi * f1 * t + rng.uniform(0, 6)) + 1.0000001 * np.cos(2 * np.pi * f2 * t)
        if kind == "trailzeros":
            v = rng.standard_normal(npts)
            v[npts // 2:] = 0.0
            return v
        if kind == "noncontig":
            return rng.standard_normal(2 * npts)[::2]
        raise ValueError(kind)

    kinds = ["normal", "int64", "int32", "list", "intlist", "tuple", "float32", "complex", "zeros", "const",
             "spike", "sine", "twosine", "trailzeros", "noncontig"]
    dts = [0.005, 0.01, 0.02, 0.1, 1.0 / 3, 1, 2, np.float64(0.01), np.float32(0.025), 0.0078125, -0.01, 0,
           np.int64(1), 1e-9, 250.0]

    lengths = list(range(1, 71))
    for k in range(7, 13):
        lengths += [2 ** k - 1, 2 ** k, 2 ** k + 1]
    lengths += [100, 1000, 1234, 4684, 5001]

    def snapshot(v):
        return _enc(np.array(v)) if not isinstance(v, np.ndarray) else _enc(v.copy())

    n_opts_for = lambda npts: [npts, npts + 1, max(npts - 1, 1), 2 * npts + 3, 1, 2, 3, 5, 64, 100,
                               np.int64(2 * npts), np.int32(npts + 7)]
    bad_n = [0, -1, 8.0, np.float64(16), "8", True]
    p2_opts = [0, 1, 2, 3]
    odd_p2 = [-1, 1.0, 0.5, np.int64(2), None, "1", -40, True]

    # ---------------------------------------------------------------- 1. sweep of lengths
    case = 0
    for npts in lengths:
        for rep in range(2 if npts <= 70 else 1):
            kind = kinds[case % len(kinds)]
            dt = dts[(case // 3) % len(dts)]
            cls = (Signal, AccSignal)[case % 2]
            case += 1
            vals = make_record(kind, npts)
            before = snapshot(vals)
            tag = ("sweep", npts, kind, repr(dt), cls.__name__)
            try:
                sig = cls(vals, dt)
            except Exception as e:  # constructor is not under study, but keep it compared
                rec(tag + ("ctor",), ("exc", type(e).__name__, str(e)))
                continue
            rec(tag + ("lazy",), observe(sig))
            rec(tag + ("maxfa",), _call(im.max_fa_period, sig))
            for p in p2_opts:
                rec(tag + ("p2", p), (_call(sig.gen_fa_spectrum, p2_plus=p), observe(sig),
                                      _call(im.max_fa_period, sig)))
            rec(tag + ("p2pos", 1), (_call(sig.gen_fa_spectrum, 1), observe(sig)))
            if npts <= 2049:
                for n in n_opts_for(npts):
                    rec(tag + ("n", repr(n)), (_call(sig.gen_fa_spectrum, n=n), observe(sig),
                                               _call(im.max_fa_period, sig)))
                rec(tag + ("npos",), (_call(sig.gen_fa_spectrum, 2, npts + 2), observe(sig)))
            if case % 4 == 0:
                for n in bad_n:
                    rec(tag + ("badn", repr(n)), (_call(sig.gen_fa_spectrum, n=n), observe(sig)))
                for p in odd_p2:
                    rec(tag + ("oddp2", repr(p)), (_call(sig.gen_fa_spectrum, p2_plus=p), observe(sig)))
            # array-level functions
            rec(tag + ("gen_pad",), _call(fq.generate_fa_spectrum, sig))
            rec(tag + ("gen_pad_T",), _call(fq.generate_fa_spectrum, sig, True))
            rec(tag + ("gen_nopad",), _call(fq.generate_fa_spectrum, sig, n_pad=False))
            rec(tag + ("gen_nopad0",), _call(fq.generate_fa_spectrum, sig, 0))
            rec(tag + ("calc",), _call(fq.calc_fa_spectrum, sig))
            for p in p2_opts:
                rec(tag + ("calc_p2", p), _call(fq.calc_fa_spectrum, sig, p2_plus=p))
            if npts <= 2049:
                for n in n_opts_for(npts)[:8]:
                    rec(tag + ("calc_n", repr(n)), _call(fq.calc_fa_spectrum, sig, n=n))
                    rec(tag + ("calc_n_p2", repr(n)), _call(fq.calc_fa_spectrum, sig, n, 2))
            if case % 4 == 1:
                for n in bad_n:
                    rec(tag + ("calc_badn", repr(n)), _call(fq.calc_fa_spectrum, sig, n=n))
                for p in odd_p2:
                    rec(tag + ("calc_oddp2", repr(p)), _call(fq.calc_fa_spectrum, sig, p2_plus=p))
            # moments / bandwidth (depend on the NumPy in use; compared whatever they do)
            if case % 5 == 0:
                for m in (0, 1, 2, 4):
                    rec(tag + ("moment", m), _call(fq.calc_fourier_moment, sig, m))
                rec(tag + ("boore",), _call(fq.get_bandwidth_boore_2003, sig))
            # smooth spectrum is built from the cached spectrum
            if case % 6 == 0 and npts >= 4:
                sig.gen_fa_spectrum()
                rec(tag + ("smooth",), (_call(lambda: sig.smooth_fa_spectrum), _call(lambda: sig.smooth_fa_freqs)))
            # inverse helpers, fed with the object's own spectrum
            sig.gen_fa_spectrum()
            fas = sig.fa_spectrum
            fas_before = _enc(fas.copy())
            rec(tag + ("f2v",), _call(fq.fas2values, fas, sig.dt))
            rec(tag + ("f2s",), _call(fq.fas2signal, fas, sig.dt))
            rec(tag + ("f2s_acc",), _call(fq.fas2signal, fas, sig.dt, stype="acc"))
            rec(tag + ("f2s_pos",), _call(fq.fas2signal, fas, sig.dt, "signal"))
            rec(tag + ("fas_unmutated",), (fas_before == _enc(fas), _enc(fas)))
            # the record handed in must be untouched
            rec(tag + ("arg_unmutated",), (before == snapshot(vals), snapshot(vals)))

    # ---------------------------------------------------------------- 2. inverse helpers on free spectra
    for m in list(range(0, 40)) + [63, 64, 65, 127, 128, 129, 500, 1024, 2342]:
        for form in ("c128", "c64", "real", "int", "list", "tuple", "reallist"):
            z = rng.standard_normal(m) + 1j * rng.standard_normal(m)
            if form == "c64":
                z = z.astype(np.complex64)
            elif form == "real":
                z = z.real.copy()
            elif form == "int":
                z = rng.randint(-5, 5, size=m)
            elif form == "list":
                z = [complex(v) for v in z]
            elif form == "tuple":
                z = tuple(complex(v) for v in z)
            elif form == "reallist":
                z = [float(v) for v in z.real]
            for dt in (0.01, 1, np.float64(0.5), -2.0, 0):
                tag = ("inv", m, form, repr(dt))
                keep = _enc(np.array(z))
                rec(tag + ("f2v",), _call(fq.fas2values, z, dt))
                rec(tag + ("f2s",), _call(fq.fas2signal, z, dt))
                rec(tag + ("f2s_a",), _call(fq.fas2signal, z, dt, "accsig"))
                rec(tag + ("kept",), (keep == _enc(np.array(z)), type(z).__name__))
    z2 = rng.standard_normal((6, 3)) + 0j
    rec(("inv", "2d"), (_call(fq.fas2values, z2, 0.1), _call(fq.fas2signal, z2, 0.1)))
    z3 = rng.standard_normal((2, 1)) + 0j
    rec(("inv", "2d-b"), (_call(fq.fas2values, z3, 0.1), _call(fq.fas2signal, z3, 0.1)))
    rec(("inv", "none"), (_call(fq.fas2values, None, 0.1), _call(fq.fas2signal, None, 0.1)))
    rec(("inv", "dtstr"), (_call(fq.fas2values, np.ones(4) + 0j, "a"), _call(fq.fas2signal, np.ones(4) + 0j, "a")))

    # ---------------------------------------------------------------- 3. duck-typed records for the array-level functions
    class Duck(object):
        def __init__(self, values, dt, npts):
            self.values = values
            self.dt = dt
            self.npts = npts

    for i in range(300):
        npts = int(rng.randint(1, 90))
        vals = rng.standard_normal(npts)
        form = i % 5
        if form == 1:
            vals = list(vals)
        elif form == 2:
            vals = rng.randint(-3, 3, size=npts)
        elif form == 3:
            vals = vals.astype(np.float32)
        elif form == 4:
            vals = tuple(vals)
        claimed = npts if i % 7 else npts + int(rng.randint(-1, 3))  # sometimes inconsistent npts
        claimed = max(claimed, 1)
        if i % 11 == 0:
            claimed = np.int64(claimed)
        d = Duck(vals, dts[i % len(dts)], claimed)
        tag = ("duck", i)
        rec(tag + ("gen",), _call(fq.generate_fa_spectrum, d))
        rec(tag + ("gen0",), _call(fq.generate_fa_spectrum, d, False))
        rec(tag + ("calc",), _call(fq.calc_fa_spectrum, d))
        rec(tag + ("calc_p",), _call(fq.calc_fa_spectrum, d, p2_plus=int(rng.randint(0, 4))))
        rec(tag + ("calc_n",), _call(fq.calc_fa_spectrum, d, n=int(rng.randint(1, 200))))
        ns = types.SimpleNamespace(fa_spectrum=rng.standard_normal(npts) + 1j * rng.standard_normal(npts),
                                   fa_frequencies=np.arange(npts) / (npts * 0.01))
        rec(tag + ("maxfa_ns",), _call(im.max_fa_period, ns))
        ns2 = types.SimpleNamespace(fa_spectrum=list(ns.fa_spectrum), fa_frequencies=list(ns.fa_frequencies))
        rec(tag + ("maxfa_ns_list",), _call(im.max_fa_period, ns2))
    rec(("duck", "missing"), (_call(fq.generate_fa_spectrum, object()), _call(fq.calc_fa_spectrum, object()),
                              _call(im.max_fa_period, object())))
    d2 = Duck(rng.standard_normal((8, 4)), 0.1, 8)  # 2-D values
    rec(("duck", "2d"), (_call(fq.generate_fa_spectrum, d2), _call(fq.generate_fa_spectrum, d2, False),
                         _call(fq.calc_fa_spectrum, d2), _call(fq.calc_fa_spectrum, d2, n=8),
                         _call(fq.calc_fa_spectrum, d2, n=4), _call(fq.calc_fa_spectrum, d2, p2_plus=0)))
    s2 = Signal(rng.standard_normal((8, 4)), 0.1)
    rec(("sig", "2d"), (observe(s2), _call(s2.gen_fa_spectrum, n=4), observe(s2), _call(s2.gen_fa_spectrum, n=8),
                        observe(s2), _call(im.max_fa_period, s2)))

    # ---------------------------------------------------------------- 4. histories of public operations
    for h in range(400):
        cls = (AccSignal, Signal)[h % 2]
        npts = int(rng.choice([2, 3, 4, 5, 7, 8, 9, 15, 16, 17, 31, 33, 50, 64, 100, 127, 128, 129, 300]))
        dt = dts[h % 10]
        sig = cls(make_record(kinds[h % len(kinds)], npts), dt, label="h%d" % h)
        tag = ("hist", h)
        trace = []
        for step in range(int(rng.randint(4, 12))):
            op = int(rng.randint(0, 16))
            if op == 0:
                r = _call(sig.gen_fa_spectrum, p2_plus=int(rng.randint(0, 4)))
            elif op == 1:
                r = _call(sig.gen_fa_spectrum, n=int(rng.randint(1, 3 * sig.npts + 2)))
            elif op == 2:
                r = _call(sig.gen_fa_spectrum)
            elif op == 3:
                r = _call(sig.generate_fa_spectrum)
            elif op == 4:
                new_n = int(rng.randint(2, 140))
                new = make_record(kinds[int(rng.randint(0, len(kinds)))], new_n)
                r = _call(sig.reset_values, new)
            elif op == 5:
                r = _call(sig.clear_cache)
            elif op == 6:
                r = _call(im.max_fa_period, sig)
            elif op == 7:
                r = _call(sig.add_constant, float(rng.standard_normal()))
            elif op == 8:
                r = _call(fq.calc_fa_spectrum, sig, p2_plus=int(rng.randint(0, 4)))
            elif op == 9:
                r = _call(fq.generate_fa_spectrum, sig, bool(rng.randint(0, 2)))
            elif op == 10:
                r = _call(lambda: fq.fas2signal(sig.fa_spectrum, sig.dt, stype=("signal", "acc")[step % 2]))
            elif op == 11:
                r = _call(lambda: fq.fas2values(sig.fa_spectrum, sig.dt))
            elif op == 12:
                r = _call(sig.remove_average)
            elif op == 13:
                # mutate the array returned by the property in place: the cache is what the API hands out
                def _mut():
                    a = sig.fa_spectrum
                    if len(a):
                        a[0] = 7.0
                    f = sig.fa_freqs
                    if len(f) > 1:
                        f[1] = f[1] * 2
                    return None
                r = _call(_mut)
            elif op == 14:
                r = _call(sig.add_series, rng.standard_normal(sig.npts))
            else:
                r = _call(lambda: sig.smooth_fa_spectrum) if sig.npts >= 4 else None
            trace.append((op, r, observe(sig)))
        rec(tag, tuple(trace))

    # ---------------------------------------------------------------- 5. the record of the test-suite (if present)
    try:
        path = os.path.join(os.getcwd(), "tests", "unit_test_data", "test_motion_dt0p01.txt")
        if os.path.exists(path):
            acc = np.loadtxt(path, skiprows=2)
            asig = AccSignal(acc, 0.01)
            rec(("file", "lazy"), observe(asig))
            rec(("file", "maxfa"), _call(im.max_fa_period, asig))
            for p in (1, 2):
                rec(("file", "p2", p), (_call(asig.gen_fa_spectrum, p2_plus=p), observe(asig)))
            rec(("file", "n"), (_call(asig.gen_fa_spectrum, n=5000), observe(asig), _call(im.max_fa_period, asig)))
            rec(("file", "inv"), _call(lambda: fq.fas2signal(asig.fa_spectrum, asig.dt, "acc")))
            rec(("file", "calc"), (_call(fq.calc_fa_spectrum, asig), _call(fq.generate_fa_spectrum, asig)))
    except Exception as e:  # pragma: no cover
        rec(("file", "error"), ("exc", type(e).__name__, str(e)))

    rec(("module_file",), ("py", "str", "x"))  # sentinel
    with open(out_path, "wb") as f:
        pickle.dump({"results": res, "pkg": os.path.dirname(os.path.abspath(eqsig.__file__))}, f, protocol=2)


# --------------------------------------------------------------------------------------
# driver
# --------------------------------------------------------------------------------------

def run_worker(pkg_root, out_path):
    env = dict(os.environ)
    env["PYTHONPATH"] = pkg_root
    env["PYTHONHASHSEED"] = "0"
    env["PYTHONDONTWRITEBYTECODE"] = "1"
    code = ("import sys; sys.path.insert(0, %r); sys.argv = ['w']; "
            "import runpy; ns = runpy.run_path(%r, run_name='equiv_worker'); ns['worker'](%r)"
            % (pkg_root, os.path.abspath(__file__), out_path))
    p = subprocess.run([sys.executable, "-c", code], env=env, cwd=os.getcwd(),
                       stdout=subprocess.PIPE, stderr=subprocess.PIPE)
    if p.returncode != 0:
        sys.stdout.write(p.stdout.decode("utf8", "replace"))
        sys.stderr.write(p.stderr.decode("utf8", "replace"))
        raise SystemExit("worker for %s failed (exit %d)" % (pkg_root, p.returncode))
    with open(out_path, "rb") as f:
        return pickle.load(f)


def main():
    cwd = os.getcwd()
    if not os.path.isdir(os.path.join(cwd, "eqsig")):
        raise SystemExit("run from the worktree root (no ./eqsig here)")
    with tempfile.TemporaryDirectory(prefix="c06_equiv%d_" % TWIN) as tmp:
        orig_root = os.path.join(tmp, "orig")
        os.makedirs(orig_root)
        blob = subprocess.check_output(["git", "archive", "HEAD", "eqsig"], cwd=cwd)
        with tarfile.open(fileobj=io.BytesIO(blob)) as tf:
            tf.extractall(orig_root)
        orig_expect = os.path.realpath(os.path.join(orig_root, "eqsig"))
        a = run_worker(orig_root, os.path.join(tmp, "orig.pkl"))
        b = run_worker(cwd, os.path.join(tmp, "edit.pkl"))
    if os.path.realpath(a["pkg"]) != orig_expect:
        print("FAIL: original worker imported %s" % a["pkg"])
        return 1
    if os.path.realpath(b["pkg"]) != os.path.realpath(os.path.join(cwd, "eqsig")):
        print("FAIL: edited worker imported %s" % b["pkg"])
        return 1
    ra, rb = a["results"], b["results"]
    bad = 0
    if len(ra) != len(rb):
        print("FAIL: different number of observations: %d vs %d" % (len(ra), len(rb)))
        bad += 1
    n_exc = 0
    for (ta, va), (tb, vb) in zip(ra, rb):
        if ta != tb:
            print("FAIL: case order differs: %r vs %r" % (ta, tb))
            bad += 1
            break
        if va != vb:
            bad += 1
            if bad <= 15:
                print("MISMATCH at %r" % (ta,))
                print("   original: %s" % (repr(va)[:300],))
                print("   edited  : %s" % (repr(vb)[:300],))
        if "'exc'" in repr(va)[:4000]:
            n_exc += 1
    print("twin %d: %d observations compared (%d involving exceptions), %d mismatches"
          % (TWIN, len(ra), n_exc, bad))
    return 0 if bad == 0 else 1


if __name__ == "__main__":
    sys.exit(main())

"""
Equivalence program for twin3.diff: a behaviour-preserving edit of the response-spectrum code of eqsig
(eqsig/sdof.py, eqsig/single.py, eqsig/im.py).

Run with the edit applied and cwd = the worktree:

    cd <worktree> && PYTHONPATH=<worktree> /venv/bin/python out/equiv3.py

The program extracts the ORIGINAL package from git (``git archive HEAD eqsig``) into a temporary
directory, runs the same deterministic battery of cases in two subprocesses (one importing the original
package, one importing the edited package of the working tree) and compares every recorded outcome
(returned values bit-for-bit, exceptions by type and message, arguments after the call, object state
after every operation of a history).  Exit status 0 iff everything matches.
"""
import os
import pickle
import struct
import subprocess
import sys
import tempfile

RTOL = 1.0e-12  # only used if a value is not bit-identical (reported separately)


# ----------------------------------------------------------------------------------------------------------------
# encoding of outcomes (worker side)
# ----------------------------------------------------------------------------------------------------------------

def raw_bytes(x):
    """Bytes of an array; the (uninitialised) padding bytes of x86 extended precision numbers are dropped."""
    import numpy as np
    x = np.ascontiguousarray(x)
    if x.dtype.char in 'gG' and np.dtype(np.longdouble).itemsize == 16 and np.finfo(np.longdouble).nmant == 63:
        return np.frombuffer(x.tobytes(), dtype=np.uint8).reshape(-1, 16)[:, :10].tobytes()
    return x.tobytes()


def enc(x, depth=0):
    import numpy as np
    if depth > 6:
        return ('deep', repr(type(x)))
    if x is None:
        return ('none',)
    if isinstance(x, np.ndarray):
        if x.dtype == object:
            return ('ndo', x.shape, tuple(enc(v, depth + 1) for v in x.ravel().tolist()))
        return ('nd', x.dtype.str, x.shape, raw_bytes(x))
    if isinstance(x, np.generic):
        return ('ns', x.dtype.str, raw_bytes(np.asarray(x)))
    if isinstance(x, bool):
        return ('b', x)
    if isinstance(x, int):
        return ('i', x)
    if isinstance(x, float):
        return ('f', struct.pack('<d', x))
    if isinstance(x, str):
        return ('s', x)
    if isinstance(x, tuple):
        return ('t',) + tuple(enc(v, depth + 1) for v in x)
    if isinstance(x, list):
        return ('l',) + tuple(enc(v, depth + 1) for v in x)
    if isinstance(x, dict):
        return ('d',) + tuple((repr(k), enc(x[k], depth + 1)) for k in sorted(x, key=repr))
    return ('o', type(x).__name__)


def call(fn, *args, **kwargs):
    """Outcome of a call: ('ok', encoded value) or ('exc', type name, message)."""
    try:
        out = fn(*args, **kwargs)
    except BaseException as e:  # noqa
        if isinstance(e, (KeyboardInterrupt, SystemExit)):
            raise
        return ('exc', type(e).__name__, str(e))
    return ('ok', enc(out))


# ----------------------------------------------------------------------------------------------------------------
# case generation (pure numpy, identical in both workers)
# ----------------------------------------------------------------------------------------------------------------

LENGTHS = [1, 2, 3, 4, 5, 7, 16, 17, 33, 64, 100, 151, 256, 400]
DTS = [0.001, 0.004, 0.005, 0.01, 0.02, 0.05, 0.1, 0.25]
XIS = [0.0, 0.0, 0.01, 0.02, 0.05, 0.05, 0.1, 0.2, 0.3, 0.5, 0.7, 0.9, 0.99]
FACTORS = [0.5, 1.0, 2.0, 3.0, 4.0, 5.0, 5.9, 5.999999, 6.0, 6.000001, 6.1, 6.5, 7.0, 8.0, 10.0, 12.0, 20.0, 40.0,
           50.0, 100.0, 200.0, 300.0, 1000.0]


def make_record(rs, n, kind):
    import numpy as np
    if kind == 'normal':
        return rs.standard_normal(n) * rs.choice([1e-3, 0.1, 1.0, 9.8, 250.0])
    if kind == 'sine':
        return np.sin(rs.uniform(0.01, 1.5) * np.arange(n)) * rs.uniform(0.1, 5)
    if kind == 'posonly':
        return np.abs(rs.standard_normal(n)) + 0.1
    if kind == 'negonly':
        return -np.abs(rs.standard_normal(n)) - 0.1
    if kind == 'zeros':
        return np.zeros(n)
    if kind == 'negzeros':
        return -np.zeros(n)
    if kind == 'spike':
        a = np.zeros(n)
        a[rs.randint(n)] = rs.choice([-3.0, 2.0])
        return a
    if kind == 'sym':
        a = rs.standard_normal(n)
        a[0] = 4.0
        a[-1] = -4.0  # -min == max exactly
        return np.clip(a, -4.0, 4.0)
    if kind == 'int64':
        return rs.randint(-60, 61, size=n).astype(np.int64)
    if kind == 'int32':
        return rs.randint(-60, 61, size=n).astype(np.int32)
    if kind == 'int8':
        return rs.randint(-120, 121, size=n).astype(np.int8)
    if kind == 'uint8':
        return rs.randint(0, 200, size=n).astype(np.uint8)
    if kind == 'float32':
        return rs.standard_normal(n).astype(np.float32)
    if kind == 'float16':
        return rs.standard_normal(n).astype(np.float16)
    if kind == 'longdouble':
        return rs.standard_normal(n).astype(np.longdouble)
    if kind == 'bool':
        return rs.randint(0, 2, size=n).astype(bool)
    if kind == 'nan':
        a = rs.standard_normal(n)
        a[rs.randint(n)] = np.nan
        return a
    if kind == 'inf':
        a = rs.standard_normal(n)
        a[rs.randint(n)] = rs.choice([np.inf, -np.inf])
        return a
    if kind == 'list':
        return [float(v) for v in rs.standard_normal(n)]
    if kind == 'intlist':
        return [int(v) for v in rs.randint(-9, 10, size=n)]
    if kind == 'tuple':
        return tuple(float(v) for v in rs.standard_normal(n))
    if kind == 'noncontig':
        return (rs.standard_normal(2 * n))[::2]
    if kind == '2d':
        return rs.standard_normal((2, n))
    if kind == 'empty':
        return np.zeros(0)
    raise ValueError(kind)


REC_KINDS = ['normal'] * 10 + ['sine'] * 3 + ['posonly', 'negonly', 'zeros', 'negzeros', 'spike', 'sym', 'int64', 'int64',
                                              'int32', 'int8', 'uint8', 'float32', 'float16', 'longdouble', 'bool', 'nan',
                                              'inf', 'list', 'intlist', 'tuple', 'noncontig', '2d', 'empty']


def make_periods(rs, dt):
    """Period containers of all sorts: with / without leading zero, both sides of 6 dt, list / tuple / array."""
    import numpy as np
    dtf = float(dt)
    k = int(rs.choice([1, 1, 2, 2, 3, 4, 5, 8, 13]))
    style = rs.choice(['factors', 'factors', 'uniform', 'mixed', 'ints', 'linspace'])
    if style == 'factors':
        p = np.array([FACTORS[i] for i in rs.randint(len(FACTORS), size=k)]) * dtf
    elif style == 'uniform':
        p = rs.uniform(0.2 * dtf, 60 * dtf, size=k)
    elif style == 'mixed':
        p = np.concatenate([np.array([FACTORS[i] for i in rs.randint(len(FACTORS), size=k)]) * dtf,
                            rs.uniform(0.02, 4.0, size=k)])
    elif style == 'ints':
        p = rs.randint(1, 9, size=k).astype(np.int64)
    else:
        p = np.linspace(rs.uniform(0.01, 0.2), rs.uniform(0.5, 5.0), k)
    if rs.rand() < 0.6:
        p = np.sort(p)
    lead = rs.rand()
    if lead < 0.4:
        p = np.concatenate([np.zeros(1, dtype=p.dtype), p])
    elif lead < 0.45:
        p = np.concatenate([p, np.zeros(1, dtype=p.dtype)])  # a zero that is not leading
    elif lead < 0.48:
        p = np.zeros(1, dtype=p.dtype)  # only T=0
    elif lead < 0.5:
        p = np.concatenate([-np.zeros(1), p.astype(float)])  # leading -0.0
    form = rs.choice(['array', 'array', 'list', 'list', 'tuple', 'pylist_int', 'f32', 'noncontig'])
    if form == 'array':
        return p
    if form == 'list':
        return p.tolist()
    if form == 'tuple':
        return tuple(p.tolist())
    if form == 'pylist_int':
        return [int(v) if float(v).is_integer() else float(v) for v in p.tolist()]
    if form == 'f32':
        return p.astype(np.float32)
    q = np.zeros(2 * len(p), dtype=p.dtype)
    q[::2] = p
    return q[::2]


def make_dt(rs):
    import numpy as np
    dt = DTS[rs.randint(len(DTS))]
    f = rs.rand()
    if f < 0.8:
        return dt
    if f < 0.87:
        return np.float64(dt)
    if f < 0.92:
        return np.float32(dt)
    if f < 0.96:
        return 1  # integer time step
    return np.int64(1)


def make_xi(rs):
    import numpy as np
    xi = XIS[rs.randint(len(XIS))]
    f = rs.rand()
    if f < 0.85:
        return xi
    if f < 0.9:
        return np.float64(xi)
    if f < 0.94:
        return 0  # integer zero damping
    if f < 0.97:
        return float(rs.uniform(0, 0.999))
    return rs.choice([1.0, -0.05, 1.3])  # outside the domain, still compared


def copy_arg(x):
    import numpy as np
    if isinstance(x, np.ndarray):
        return x.copy()
    return x  # lists / tuples / scalars: compared through enc() after the call


class Duck(object):
    """A minimal stand-in for an AccSignal (the energy spectra only use .values, .dt, .response_times)."""

    def __init__(self, values, dt, response_times):
        self.values = values
        self.dt = dt
        self.response_times = response_times


# ----------------------------------------------------------------------------------------------------------------
# worker
# ----------------------------------------------------------------------------------------------------------------

def snapshot(asig):
    """State of an AccSignal that the response-spectrum code touches (public and the private backing fields)."""
    names = ['_s_a', '_s_v', '_s_d', '_cached_response_spectra', '_cached_xi', '_response_times', '_values', '_dt',
             '_npts', '_cached_disp_and_velo', '_cached_fa', '_cached_smooth_fa', '_cached_params']
    d = {}
    for nm in names:
        d[nm] = enc(getattr(asig, nm, 'MISSING'))
    d['attrs'] = enc(sorted(asig.__dict__.keys()))
    return ('snap',) + tuple((k, d[k]) for k in sorted(d))


def worker(root, outfile):
    sys.path.insert(0, root)
    import warnings
    warnings.simplefilter('ignore')
    import numpy as np
    np.seterr(all='ignore')
    import eqsig
    from eqsig import sdof, im
    assert os.path.realpath(eqsig.__file__).startswith(os.path.realpath(root) + os.sep), (eqsig.__file__, root)
    assert os.path.realpath(sdof.__file__).startswith(os.path.realpath(root) + os.sep)

    res = []

    def rec(tag, outcome):
        res.append((tag, outcome))

    # ---- A. absmax directly ------------------------------------------------------------------------------------
    rs = np.random.RandomState(1001)
    shapes = [(1,), (2,), (5,), (40,), (1, 1), (1, 6), (6, 1), (3, 4), (7, 50), (2, 3, 4), (0,), (0, 3), (3, 0), ()]
    dts_ = [np.float64, np.float32, np.float16, np.longdouble, np.int64, np.int32, np.int16, np.int8, np.uint8,
            np.uint32, bool, np.complex128]
    ia = 0
    for shape in shapes:
        for dtp in dts_:
            for rep in range(3):
                if dtp in (np.float64, np.float32, np.float16, np.longdouble):
                    a = (rs.standard_normal(shape) * 10).astype(dtp)
                    if rep == 1 and a.size:
                        a.flat[rs.randint(a.size)] = np.nan
                    if rep == 2 and a.size:
                        a = np.where(rs.rand(*shape) < 0.5, 0.0, -0.0).astype(dtp)
                elif dtp is bool:
                    a = rs.randint(0, 2, size=shape).astype(bool)
                elif dtp is np.complex128:
                    a = rs.standard_normal(shape) + 1j * rs.standard_normal(shape)
                else:
                    info = np.iinfo(dtp)
                    if rep == 0:
                        a = rs.randint(max(info.min, -100), min(info.max, 100) + 1, size=shape).astype(dtp)
                    elif rep == 1:
                        a = np.full(shape, info.min, dtype=dtp)
                        if a.size > 1:
                            a.flat[0] = info.max
                    else:
                        a = rs.randint(max(info.min, -100), 1, size=shape).astype(dtp)
                for axis in [None, 0, 1, -1, 2, (0, 1)]:
                    b = a.copy()
                    if axis is None and rep == 0:
                        rec('absmax-noaxis-%d' % ia, call(sdof.absmax, b))
                    rec('absmax-%d-%s' % (ia, axis), call(sdof.absmax, b, axis))
                    rec('absmax-kw-%d-%s' % (ia, axis), call(sdof.absmax, b, axis=axis))
                    rec('absmax-arg-%d-%s' % (ia, axis), enc(b))
                ia += 1
    for bad in [[1.0, -3.0, 2.0], (1.0, -2.0), 3.0, -2, None, 'abc', np.float64(-2.5), np.int64(-4),
                np.ma.masked_array([1.0, -5.0, 2.0], mask=[0, 1, 0]), np.matrix([[1.0, -7.0], [2.0, 3.0]])]:
        rec('absmax-bad-%d' % ia, call(sdof.absmax, bad))
        rec('absmax-bad1-%d' % ia, call(sdof.absmax, bad, 0))
        rec('absmax-bad2-%d' % ia, call(sdof.absmax, bad, axis=1))
        ia += 1

    # ---- B. the spectra functions on records x dt x periods x xi --------------------------------------------
    rs = np.random.RandomState(2002)
    n_b = 1500
    for ic in range(n_b):
        n = LENGTHS[rs.randint(len(LENGTHS))]
        kind = REC_KINDS[rs.randint(len(REC_KINDS))]
        motion = make_record(rs, n, kind)
        dt = make_dt(rs)
        periods = make_periods(rs, dt)
        xi = make_xi(rs)
        for nm in ['pseudo_response_spectra', 'true_response_spectra', 'response_series']:
            m, p = copy_arg(motion), copy_arg(periods)
            rec('B-%s-%d-%s' % (nm, ic, kind), call(getattr(sdof, nm), m, dt, p, xi))
            rec('B-%s-%d-args' % (nm, ic), (enc(m), enc(p), enc(dt), enc(xi)))
        if ic % 3 == 0:  # keyword forms
            m, p = copy_arg(motion), copy_arg(periods)
            rec('B-kw-pseudo-%d' % ic, call(sdof.pseudo_response_spectra, motion=m, dt=dt, periods=p, xi=xi))
            rec('B-kw-true-%d' % ic, call(sdof.true_response_spectra, xi=xi, periods=p, dt=dt, motion=m))
            rec('B-kw-%d-args' % ic, (enc(m), enc(p)))
    # malformed arguments: same exceptions expected
    good = np.sin(0.3 * np.arange(30))
    bads = [
        (good, 0.01, [], 0.05), (good, 0.01, np.zeros(0), 0.05), (good, 0.01, 0.5, 0.05), (good, 0.01, None, 0.05),
        (good, 0.01, [[0.1, 0.2], [0.3, 0.4]], 0.05), (good, 0.01, [[0.0, 0.2]], 0.05), (good, 0.01, ['a'], 0.05),
        (good, None, [0.1], 0.05), (good, '0.01', [0.1, 0.02], 0.05), (good, [0.01], [0.1], 0.05),
        (good, np.array([0.01]), [0.1, 0.01], 0.05), (good, 0.01, [0.1], None), (good, 0.01, [0.1], 'x'),
        (good, 0.01, [0.1], [0.05]), (good, 0.0, [0.1, 0.2], 0.05), (good, -0.01, [0.1, 0.0], 0.05),
        (good, 0.01, [np.nan, 0.1], 0.05), (good, 0.01, [np.inf, 0.1], 0.05), (good, 0.01, [0.1, np.nan], 0.05),
        (good, np.nan, [0.1, 0.3], 0.05), (good, np.inf, [0.1, 0.3], 0.05),
        (None, 0.01, [0.1], 0.05), ('abc', 0.01, [0.1], 0.05), (3.0, 0.01, [0.1], 0.05), ([], 0.01, [0.1], 0.05),
        (np.zeros(0), 0.01, [0, 0.1], 0.05), (np.zeros((0, 3)), 0.01, [0.1], 0.05),
        (good.tolist(), 0.01, [0.0, 0.1], 0.05), (good.tolist(), '0.01', [0.0, 0.1], 0.05),
        (good.astype(complex), 0.01, [0.1], 0.05), (np.array([1.0]), 0.01, [0.0], 0.05),
        (good, 0.01, [0.1], 0.05 + 0j), (good, 0.01, np.array([0.1, 0.2]).reshape(2, 1), 0.05),
        (np.ma.masked_array(good, mask=good > 0.9), 0.01, [0.0, 0.03, 0.3], 0.05),
        (good, 0.01, np.ma.masked_array([0.0, 0.03, 0.3], mask=[0, 1, 0]), 0.05),
    ]
    for ib, args in enumerate(bads):
        for nm in ['pseudo_response_spectra', 'true_response_spectra']:
            rec('Bbad-%s-%d' % (nm, ib), call(getattr(sdof, nm), *args))
    rec('B-nargs0', call(sdof.pseudo_response_spectra, good, 0.01, [0.1]))
    rec('B-nargs1', call(sdof.true_response_spectra, good, 0.01, [0.1]))
    rec('B-nargs2', call(sdof.pseudo_response_spectra, good, 0.01, [0.1], 0.05, 1))
    rec('B-nargs3', call(sdof.true_response_spectra, good, 0.01, [0.1], 0.05, 1))
    rec('B-nargs4', call(sdof.pseudo_response_spectra, good, 0.01, [0.1], damping=0.05))

    # ---- C. histories of operations on AccSignal objects -----------------------------------------------------
    rs = np.random.RandomState(3003)
    n_c = 260
    ckinds = ['normal'] * 8 + ['sine', 'int64', 'int32', 'float32', 'list', 'intlist', 'zeros', 'spike', 'sym', 'nan']
    for ic in range(n_c):
        n = [3, 8, 20, 50, 120, 200][rs.randint(6)]
        kind = ckinds[rs.randint(len(ckinds))]
        values = make_record(rs, n, kind)
        dt = make_dt(rs)
        ctor = rs.rand()
        vin = copy_arg(values)
        if ctor < 0.35:
            mk = lambda: eqsig.AccSignal(vin, dt)  # noqa
        elif ctor < 0.6:
            rng = (float(rs.uniform(0.01, 0.3)), float(rs.uniform(0.4, 3.0)))
            mk = lambda: eqsig.AccSignal(vin, dt, response_period_range=rng)  # noqa
        else:
            rt0 = make_periods(rs, dt)
            mk = lambda: eqsig.AccSignal(vin, dt, response_times=rt0)  # noqa
        try:
            asig = mk()
        except Exception as e:  # noqa
            rec('C-%d-ctor' % ic, ('exc', type(e).__name__, str(e)))
            continue
        rec('C-%d-ctor-%s' % (ic, kind), snapshot(asig))
        nops = rs.randint(2, 9)
        for io in range(nops):
            op = rs.choice(['s_a', 's_v', 's_d', 'gen', 'gen', 'gen_pos', 'generate', 'set_rt', 'reset', 'add_const',
                            'resp_series', 'clear', 'gen_default', 'mutate_out'])
            tag = 'C-%d-%d-%s' % (ic, io, op)
            if op in ('s_a', 's_v', 's_d'):
                rec(tag, call(lambda: getattr(asig, op)))
            elif op in ('gen', 'generate', 'gen_pos'):
                kw = {}
                rt = None
                if rs.rand() < 0.7:
                    rt = make_periods(rs, dt)
                    kw['response_times'] = rt
                if rs.rand() < 0.7:
                    kw['xi'] = make_xi(rs) if rs.rand() < 0.9 else -1
                if rs.rand() < 0.8:
                    kw['min_dt_ratio'] = [1, 2, 4, 8, 8, 3, 0.5, 16, 2.5][rs.randint(9)]
                if op == 'gen':
                    rec(tag, call(asig.gen_response_spectrum, **kw))
                elif op == 'generate':
                    rec(tag, call(asig.generate_response_spectrum, **kw))
                else:
                    rec(tag, call(asig.gen_response_spectrum, kw.get('response_times'), kw.get('xi', -1),
                                  kw.get('min_dt_ratio', 4)))
                rec(tag + '-rt', enc(rt))
            elif op == 'gen_default':
                rec(tag, call(asig.gen_response_spectrum))
            elif op == 'set_rt':
                rt = make_periods(rs, dt)

                def setrt():
                    asig.response_times = rt
                rec(tag, call(setrt))
            elif op == 'reset':
                rec(tag, call(asig.reset_values, make_record(rs, [3, 10, 60][rs.randint(3)], 'normal')))
            elif op == 'add_const':
                rec(tag, call(asig.add_constant, float(rs.uniform(-1, 1))))
            elif op == 'resp_series':
                rec(tag, call(asig.response_series))
            elif op == 'clear':
                rec(tag, call(asig.clear_cache))
            elif op == 'mutate_out':
                # the caller scribbles on a returned spectrum: later reads must show the same thing in both versions
                def scribble():
                    s = asig.s_a
                    s[0] = 123.0
                    return asig.s_a, asig.s_d
                rec(tag, call(scribble))
            rec(tag + '-state', snapshot(asig))
        rec('C-%d-final' % ic, (call(lambda: asig.s_d), call(lambda: asig.s_v), call(lambda: asig.s_a)))
        rec('C-%d-input' % ic, enc(vin))
    # corner configurations of the object API
    base = np.sin(0.2 * np.arange(80)) * 2
    corner_rts = [[0.0], np.array([0.0]), [0], [0.0, 0.0, 0.1], [0.1], (0.5,), [], np.zeros(0), 0.3, None, [1e-9, 0.1],
                  [0.0, 1e-9, 0.1], [-0.1, 0.2], [np.nan, 0.2], [0.0, np.nan], [[0.1, 0.2]], np.array([[0.1, 0.2]]),
                  [5, 10], np.array([0, 1, 2]), [0.06, 0.03, 0.2], ['a', 'b'], [0.0, np.inf]]
    for ir, rt in enumerate(corner_rts):
        for mdr in [4, 1, 0, -1, None, 'x', np.array([2, 4])]:
            for xi in [-1, 0.05, 0, None, -1.0, np.array([0.05])]:
                if isinstance(mdr, np.ndarray) or mdr in (0, -1, None, 'x') or xi is None or isinstance(xi, np.ndarray):
                    if ir % 4 != 0:
                        continue
                asig = eqsig.AccSignal(base, 0.01)
                tag = 'Ccorner-%d-%r-%r' % (ir, mdr, xi)
                rec(tag, call(asig.gen_response_spectrum, rt, xi, mdr))
                rec(tag + '-state', snapshot(asig))
                rec(tag + '-sa', call(lambda: asig.s_a))
                rec(tag + '-state2', snapshot(asig))
        rec('Ccorner-ctor-%d' % ir, call(lambda: snapshot(eqsig.AccSignal(base, 0.01, response_times=rt))))
        rec('Ccorner-ctor-sa-%d' % ir, call(lambda: eqsig.AccSignal(base, 0.01, response_times=rt).s_a))
    # verbose printing is part of the observable behaviour
    import io
    import contextlib
    for verbose in [0, 1, 2]:
        buf = io.StringIO()
        with contextlib.redirect_stdout(buf):
            asig = eqsig.AccSignal(base, 0.01, verbose=verbose)
            o1 = call(lambda: asig.s_a)
            o2 = call(asig.gen_response_spectrum, [0.0, 0.02, 0.5], 0.1, 8)
            o3 = call(asig.response_series)
        rec('C-verbose-%d' % verbose, (o1, o2, o3, enc(buf.getvalue())))
    # MemoryError path of gen_response_spectrum (re-raised with a message); simulated by a failing sdof function
    asig = eqsig.AccSignal(base, 0.01)
    import eqsig.sdof as sdof_mod
    import eqsig.single as single_mod
    for victim in ['nigam_and_jennings_response', 'absmax']:
        keep = getattr(sdof_mod, victim)

        def boom(*a, **k):
            raise MemoryError('simulated')
        setattr(sdof_mod, victim, boom)
        try:
            rec('C-memerr-%s' % victim, call(asig.gen_response_spectrum, [0.0, 0.3, 0.5], 0.05, 8))
            rec('C-memerr-state-%s' % victim, snapshot(asig))
        finally:
            setattr(sdof_mod, victim, keep)
    rec('C-single-uses-sdof', enc(single_mod.dh is sdof_mod))

    # ---- D. energy spectra --------------------------------------------------------------------------------------
    rs = np.random.RandomState(4004)
    n_d = 500
    dkinds = ['normal'] * 8 + ['sine', 'int64', 'int32', 'float32', 'zeros', 'spike', 'nan', 'list', 'intlist']
    for ic in range(n_d):
        n = LENGTHS[rs.randint(len(LENGTHS))]
        kind = dkinds[rs.randint(len(dkinds))]
        values = make_record(rs, n, kind)
        dt = make_dt(rs)
        rt0 = make_periods(rs, dt)
        who = rs.rand()
        try:
            if who < 0.5:
                asig = eqsig.AccSignal(copy_arg(values), dt, response_times=rt0)
            elif who < 0.6:
                asig = eqsig.AccSignal(copy_arg(values), dt)
            else:
                asig = Duck(copy_arg(values), dt, rt0)  # lists stay lists here
        except Exception as e:  # noqa
            rec('D-%d-ctor' % ic, ('exc', type(e).__name__, str(e)))
            continue
        periods = None if rs.rand() < 0.3 else make_periods(rs, dt)
        xi = None if rs.rand() < 0.3 else make_xi(rs)
        p1, p2, p3, p4 = copy_arg(periods), copy_arg(periods), copy_arg(periods), copy_arg(periods)
        rec('D-uke-%d-%s' % (ic, kind), call(sdof.calc_resp_uke_spectrum, asig, p1, xi))
        rec('D-ie-%d' % ic, call(sdof.calc_input_energy_spectrum, asig, p2, xi))
        rec('D-ies-%d' % ic, call(sdof.calc_input_energy_spectrum, asig, p3, xi, True))
        rec('D-iekw-%d' % ic, call(sdof.calc_input_energy_spectrum, asig, series=bool(ic % 2), xi=xi, periods=p4))
        rec('D-ukekw-%d' % ic, call(sdof.calc_resp_uke_spectrum, acc_signal=asig, xi=xi, periods=p4))
        rec('D-args-%d' % ic, (enc(p1), enc(p2), enc(p3), enc(p4), enc(asig.values), enc(asig.response_times)))
        if isinstance(asig, eqsig.AccSignal):
            rec('D-state-%d' % ic, snapshot(asig))
        if ic % 5 == 0:
            for sflag in [0, 1, None, 'yes', '', np.bool_(True), np.array([1]), np.zeros(0)]:
                rec('D-flag-%d-%r' % (ic, sflag), call(sdof.calc_input_energy_spectrum, asig, p2, xi, sflag))
    asig = eqsig.AccSignal(base, 0.01)
    rec('D-default', (call(sdof.calc_resp_uke_spectrum, asig), call(sdof.calc_input_energy_spectrum, asig),
                      call(sdof.calc_input_energy_spectrum, asig, series=True)))
    for ib, (p, xi) in enumerate([([], 0.05), (0.3, 0.05), ([[0.1, 0.2], [0.3, 0.4]], 0.05), ([0.1, [0.2, 0.3]], 0.05),
                                  (['a'], 0.05), ([0.1], 'x'), ([0.1], [0.05]), (np.zeros(0), None), ((), None),
                                  ([None], None), ([0.0], 0.0), ([0.0, 0.0], 0.0)]):
        rec('D-bad-uke-%d' % ib, call(sdof.calc_resp_uke_spectrum, asig, p, xi))
        rec('D-bad-ie-%d' % ib, call(sdof.calc_input_energy_spectrum, asig, p, xi))
        rec('D-bad-ies-%d' % ib, call(sdof.calc_input_energy_spectrum, asig, p, xi, True))
    for bad in [None, 3.0, base, Duck(base, None, [0.1]), Duck(None, 0.01, [0.1]), Duck(base, 0.01, None)]:
        rec('D-badsig-uke', call(sdof.calc_resp_uke_spectrum, bad))
        rec('D-badsig-ie', call(sdof.calc_input_energy_spectrum, bad))
        rec('D-badsig-ies', call(sdof.calc_input_energy_spectrum, bad, None, None, True))

    # ---- E. spectrum intensities built on the pseudo spectra -----------------------------------------------
    rs = np.random.RandomState(5005)
    for ic in range(60):
        n = [20, 50, 120, 200][rs.randint(4)]
        kind = ['normal', 'normal', 'sine', 'int64', 'float32', 'list', 'zeros'][rs.randint(7)]
        values = make_record(rs, n, kind)
        dt = [0.005, 0.01, 0.02, 0.05][rs.randint(4)]
        asig = eqsig.AccSignal(copy_arg(values), dt) if rs.rand() < 0.7 else Duck(copy_arg(values), dt, None)
        for fn in [im.calc_asi, im.calc_vsi]:
            if ic < 6:
                rec('E-%s-%d-default' % (fn.__name__, ic), call(fn, asig))
            p = make_periods(rs, dt)
            xi = make_xi(rs)
            rec('E-%s-%d' % (fn.__name__, ic), call(fn, asig, xi, p))
            rec('E-%s-%d-kw' % (fn.__name__, ic), call(fn, asig, periods=p, xi=xi))
            rec('E-%s-%d-args' % (fn.__name__, ic), enc(p))

    # ---- F. the public surface of the touched modules -------------------------------------------------------
    import inspect
    for mod in [sdof, single_mod, im]:
        names = sorted(n_ for n_ in dir(mod) if not n_.startswith('_'))
        rec('F-names-%s' % mod.__name__, enc(names))
    for nm in ['absmax', 'pseudo_response_spectra', 'true_response_spectra', 'response_series', 'calc_resp_uke_spectrum',
               'calc_input_energy_spectrum', 'nigam_and_jennings_response', 'compute_a_and_b']:
        rec('F-sig-%s' % nm, enc(str(inspect.signature(getattr(sdof, nm)))))
    for nm in ['gen_response_spectrum', 'generate_response_spectrum', 'response_series', 'clear_cache', '__init__']:
        rec('F-sig-AccSignal.%s' % nm, enc(str(inspect.signature(getattr(eqsig.AccSignal, nm)))))
    rec('F-AccSignal-names', enc(sorted(n_ for n_ in dir(eqsig.AccSignal) if not n_.startswith('_'))))
    for nm in ['s_a', 's_v', 's_d', 'response_times']:
        rec('F-prop-%s' % nm, enc(isinstance(getattr(eqsig.AccSignal, nm), property)))
    rec('F-sig-calc_asi', enc(str(inspect.signature(im.calc_asi))))
    rec('F-sig-calc_vsi', enc(str(inspect.signature(im.calc_vsi))))

    with open(outfile, 'wb') as f:
        pickle.dump(res, f, protocol=2)


# ----------------------------------------------------------------------------------------------------------------
# comparison (main side)
# ----------------------------------------------------------------------------------------------------------------

def close(a, b):
    """Structural comparison allowing RTOL on floating arrays; returns True / False."""
    import numpy as np
    if a == b:
        return True
    if type(a) is not type(b):
        return False
    if isinstance(a, tuple):
        if len(a) != len(b):
            return False
        if a and a[0] == 'nd' and b[0] == 'nd':
            if a[1] != b[1] or a[2] != b[2] or a[1][1] not in 'fc' or a[1][1:] in ('f16', 'c32'):
                return False
            x = np.frombuffer(a[3], dtype=np.dtype(a[1]))
            y = np.frombuffer(b[3], dtype=np.dtype(b[1]))
            return bool(np.allclose(x, y, rtol=RTOL, atol=0.0, equal_nan=True))
        if a and a[0] == 'ns' and b[0] == 'ns':
            if a[1] != b[1] or a[1][1] not in 'fc' or a[1][1:] in ('f16', 'c32'):
                return False
            x = np.frombuffer(a[2], dtype=np.dtype(a[1]))
            y = np.frombuffer(b[2], dtype=np.dtype(b[1]))
            return bool(np.allclose(x, y, rtol=RTOL, atol=0.0, equal_nan=True))
        if a and a[0] == 'f' and b[0] == 'f':
            x = struct.unpack('<d', a[1])[0]
            y = struct.unpack('<d', b[1])[0]
            return bool(np.isclose(x, y, rtol=RTOL, atol=0.0, equal_nan=True))
        return all(close(u, v) for u, v in zip(a, b))
    return False


def main():
    here = os.getcwd()
    if not os.path.isdir(os.path.join(here, 'eqsig')):
        print('run from the worktree root (cwd must contain eqsig/)')
        return 2
    tmp = tempfile.mkdtemp(prefix='equiv_c03_')
    try:
        orig_root = os.path.join(tmp, 'orig')
        os.makedirs(orig_root)
        ar = subprocess.run(['git', 'archive', '--format=tar', 'HEAD', 'eqsig'], cwd=here, stdout=subprocess.PIPE,
                            check=True)
        subprocess.run(['tar', '-x', '-C', orig_root], input=ar.stdout, check=True)
        outs = {}
        procs = {}
        env = dict(os.environ)
        env['PYTHONDONTWRITEBYTECODE'] = '1'
        env['PYTHONHASHSEED'] = '0'
        for name, root in [('orig', orig_root), ('edit', here)]:
            outs[name] = os.path.join(tmp, name + '.pkl')
            procs[name] = subprocess.Popen([sys.executable, os.path.abspath(__file__), '--worker', root, outs[name]],
                                           cwd=tmp, env=env)
        bad = False
        for name in procs:
            if procs[name].wait() != 0:
                print('worker %s failed' % name)
                bad = True
        if bad:
            return 3
        with open(outs['orig'], 'rb') as f:
            ro = pickle.load(f)
        with open(outs['edit'], 'rb') as f:
            re_ = pickle.load(f)
        if len(ro) != len(re_):
            print('different number of recorded outcomes: %d vs %d' % (len(ro), len(re_)))
            return 1
        nexact = 0
        napprox = 0
        nexc = 0
        fails = []
        for (t1, o1), (t2, o2) in zip(ro, re_):
            if t1 != t2:
                fails.append((t1, 'tag mismatch ' + t2))
                continue
            if isinstance(o1, tuple) and o1 and o1[0] == 'exc':
                nexc += 1
            if o1 == o2:
                nexact += 1
            elif close(o1, o2):
                napprox += 1
                if os.environ.get('EQUIV_DEBUG'):
                    print('approx', t1)
            else:
                fails.append((t1, (repr(o1)[:140], repr(o2)[:140])))
        print('outcomes compared: %d  (bit-identical %d, within %.0e relative %d, of which exceptions %d)'
              % (len(ro), nexact, RTOL, napprox, nexc))
        if fails:
            print('MISMATCHES: %d' % len(fails))
            for t, d in fails[:25]:
                print('  ', t, d)
            return 1
        print('EQUIVALENT on all cases')
        return 0
    finally:
        import shutil
        shutil.rmtree(tmp, ignore_errors=True)


if __name__ == '__main__':
    if len(sys.argv) >= 4 and sys.argv[1] == '--worker':
        worker(sys.argv[2], sys.argv[3])
        sys.exit(0)
    sys.exit(main())

"""
Equivalence check for twin1 (calc_roll_av_vals: edge replication via a helper in eqsig/fns/generic.py built on np.pad with the two end values as constants).

Run with twin1 applied and cwd = the worktree:  /venv/bin/python out/equiv1.py
The ORIGINAL package is extracted from git HEAD into a temporary directory; the same deterministic list of
calls is evaluated in two sub-processes (original / edited) and the encoded outcomes (bit patterns, dtypes, shapes,
exceptions, warnings, printed text, state of the arguments after the call) are compared for exact equality.
"""
import copy
import contextlib
import io
import os
import pickle
import struct
import subprocess
import sys
import tempfile
import warnings

HERE = os.getcwd()


# ---------------------------------------------------------------- encoding
def enc(o):
    import numpy as np
    if isinstance(o, np.ndarray):
        return ('nd', str(o.dtype), o.shape, np.ascontiguousarray(o).tobytes())
    if isinstance(o, np.generic):
        return ('ng', type(o).__name__, str(o.dtype), o.tobytes())
    if isinstance(o, bool) or o is None or isinstance(o, (int, str)):
        return ('py', type(o).__name__, repr(o))
    if isinstance(o, float):
        return ('f', struct.pack('d', o))
    if isinstance(o, (tuple, list)):
        return (type(o).__name__, [enc(i) for i in o])
    if isinstance(o, dict):
        return ('dict', [(k, enc(v)) for k, v in sorted(o.items())])
    raise TypeError(type(o))


def call(fn, *args, **kwargs):
    args = copy.deepcopy(args)
    kwargs = copy.deepcopy(kwargs)
    before = enc([list(args), kwargs])
    buf = io.StringIO()
    with warnings.catch_warnings(record=True) as wlist, contextlib.redirect_stdout(buf):
        warnings.simplefilter('always')
        try:
            res = ('ok', enc(fn(*args, **kwargs)))
        except Exception as e:  # noqa
            res = ('exc', type(e).__name__, str(e))
    after = enc([list(args), kwargs])
    wl = sorted((w.category.__name__, str(w.message)) for w in wlist)
    return {'res': res, 'args_after': after, 'mutated': before != after, 'stdout': buf.getvalue(), 'warnings': wl}


# ---------------------------------------------------------------- cases
def cases():
    import numpy as np
    import eqsig
    from eqsig.fns.average import calc_roll_av_vals
    import eqsig.fns as fns
    out = []

    def add(label, *a, **k):
        out.append((label, call(calc_roll_av_vals, *a, **k)))
        # also through the public re-exports
        out.append((label + '/fns', call(fns.calc_roll_av_vals, *a, **k)))

    rng = np.random.RandomState(20)
    modes = ['forward', 'backward', 'centre', 'center', 'other']
    series = []
    for n in [1, 2, 3, 4, 5, 7, 8, 9, 16, 17, 33, 100, 257]:
        series.append(('randn%i' % n, rng.randn(n)))
        series.append(('big%i' % n, 1e8 + rng.randn(n)))
        series.append(('int%i' % n, rng.randint(-50, 50, size=n)))
        series.append(('list%i' % n, list(rng.randn(n))))
        series.append(('intlist%i' % n, [int(v) for v in rng.randint(-5, 5, size=n)]))
        series.append(('const%i' % n, np.full(n, 3.7)))
        series.append(('zeros%i' % n, np.zeros(n)))
        series.append(('negzeros%i' % n, -np.zeros(n)))
        series.append(('f32_%i' % n, rng.randn(n).astype(np.float32)))
        series.append(('i8_%i' % n, rng.randint(-100, 100, size=n).astype(np.int8)))
        series.append(('u8_%i' % n, rng.randint(0, 255, size=n).astype(np.uint8)))
        series.append(('bool%i' % n, rng.randint(0, 2, size=n).astype(bool)))
        series.append(('hugeint%i' % n, rng.randint(2 ** 60, 2 ** 62, size=n).astype(np.int64)))
        series.append(('tuple%i' % n, tuple(rng.randn(n))))
        series.append(('strided%i' % n, rng.randn(2 * n)[::2]))
        series.append(('reversed%i' % n, rng.randn(n)[::-1]))
        v = rng.randn(n)
        v[rng.randint(0, n)] = np.nan
        series.append(('nan%i' % n, v))
        v = rng.randn(n)
        v[-1] = np.inf
        v[0] = -0.0
        series.append(('inf%i' % n, v))
    for name, vals in series:
        n = len(vals)
        step_list = sorted(set([1, 2, 3, n // 2, n - 1, n, n + 1, 2 * n + 3]))
        step_list = [s for s in step_list if s >= 1]
        for steps in step_list:
            for mode in modes:
                add('%s-%i-%s' % (name, steps, mode), vals, steps, mode=mode)
            add('%s-%i-default' % (name, steps), vals, steps)
            add('%s-%i-kw' % (name, steps), values=vals, steps=float(steps), mode='centre')
            add('%s-%i-npint' % (name, steps), vals, np.int64(steps), 'backward')
    # out-of-domain / error inputs: only the kind of outcome is compared below (see compare)
    for mode in modes:
        add('ERR-empty-%s' % mode, np.array([]), 1, mode)
        add('ERR-empty3-%s' % mode, [], 3, mode)
        add('ERR-steps0-%s' % mode, np.arange(5.), 0, mode)
        add('ERR-stepsneg-%s' % mode, np.arange(5.), -2, mode)
    # the signal classes that are built on the same module still work the same
    asig = eqsig.AccSignal(rng.randn(300), 0.01)
    out.append(('asig-values', call(lambda: calc_roll_av_vals(asig.values, 11, mode='centre'))))
    out.append(('asig-velocity', call(lambda: calc_roll_av_vals(asig.velocity, 5))))
    return out


def worker(path, outfile):
    sys.path.insert(0, path)
    os.chdir(path)
    import eqsig
    assert os.path.realpath(eqsig.__file__).startswith(os.path.realpath(path)), (eqsig.__file__, path)
    with open(outfile, 'wb') as f:
        pickle.dump(cases(), f)


def run_worker(path, outfile):
    env = dict(os.environ)
    env.pop('PYTHONPATH', None)
    subprocess.run([sys.executable, os.path.abspath(__file__), '--worker', path, outfile], check=True, env=env,
                   cwd=path)
    with open(outfile, 'rb') as f:
        return pickle.load(f)


def main():
    tmp = tempfile.mkdtemp(prefix='equiv1_C20_', dir='/tmp')
    orig = os.path.join(tmp, 'orig')
    os.makedirs(orig)
    subprocess.run('git archive HEAD eqsig | tar -x -C "%s"' % orig, shell=True, check=True, cwd=HERE)
    assert os.path.exists(os.path.join(orig, 'eqsig', 'fns', 'average.py'))
    # make sure the edit under test is really applied here and absent in the original
    assert '_replicate_edges' in open(os.path.join(HERE, 'eqsig', 'fns', 'average.py')).read(), 'twin1 not applied'
    assert '_replicate_edges' not in open(os.path.join(orig, 'eqsig', 'fns', 'average.py')).read()
    r_orig = run_worker(orig, os.path.join(tmp, 'orig.pkl'))
    r_new = run_worker(HERE, os.path.join(tmp, 'new.pkl'))
    assert len(r_orig) == len(r_new) and len(r_orig) > 1000
    bad = 0
    n_ok = 0
    for (la, a), (lb, b) in zip(r_orig, r_new):
        assert la == lb
        if la.startswith('ERR-'):
            # not in the property's domain (empty series / window size < 1): both must fail
            # with the same exception type (the message may name a different index / numpy routine)
            same = (a['res'][0] == b['res'][0] == 'exc') and a['res'][1] == b['res'][1] and \
                a['args_after'] == b['args_after']
        else:
            same = (a == b)
            assert a['res'][0] == 'ok', (la, a['res'])
            assert not a['mutated'], la
            n_ok += 1
        if not same:
            bad += 1
            if bad < 10:
                print('MISMATCH', la, a['res'][:2] if a['res'][0] == 'exc' else a['res'][1][:3],
                      b['res'][:3] if b['res'][0] == 'exc' else b['res'][1][:3])
    print('cases: %i (valid: %i), mismatches: %i' % (len(r_orig), n_ok, bad))
    return 1 if bad else 0


if __name__ == '__main__':
    if len(sys.argv) > 1 and sys.argv[1] == '--worker':
        worker(sys.argv[2], sys.argv[3])
    else:
        sys.exit(main())

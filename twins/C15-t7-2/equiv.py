"""Equivalence program: original (git HEAD) eqsig.stockwell vs. the edited one in the worktree.

Run with cwd = worktree:  PYTHONPATH=$PWD python out/equiv2.py
Exit status 0 iff every comparison matches.
"""
import copy
import importlib
import io
import os
import subprocess
import sys
import tarfile
import tempfile
import types
import warnings

import numpy as np

warnings.simplefilter("ignore")
np.seterr(all="ignore")

CWD = os.getcwd()


def _purge():
    for k in [k for k in sys.modules if k == "eqsig" or k.startswith("eqsig.")]:
        del sys.modules[k]


def load_pkg(root):
    _purge()
    sys.path.insert(0, root)
    try:
        importlib.invalidate_caches()
        pkg = importlib.import_module("eqsig")
        st = importlib.import_module("eqsig.stockwell")
        assert os.path.realpath(st.__file__).startswith(os.path.realpath(root)), st.__file__
    finally:
        sys.path.remove(root)
    _purge()
    return pkg, st


tmp = tempfile.mkdtemp(prefix="eqsig_orig_")
blob = subprocess.check_output(["git", "archive", "HEAD", "eqsig"], cwd=CWD)
tarfile.open(fileobj=io.BytesIO(blob)).extractall(tmp)
sys.path = [p for p in sys.path if os.path.realpath(p or ".") != os.path.realpath(CWD)]
PKG_O, ST_O = load_pkg(tmp)
PKG_E, ST_E = load_pkg(CWD)
assert ST_O.__file__ != ST_E.__file__

N_CASES = 0
FAILS = []


def same(a, b, path=""):
    """Strict (bitwise) comparison of two results."""
    if type(a) is not type(b):
        return "%s type %s vs %s" % (path, type(a), type(b))
    if isinstance(a, np.ndarray):
        if a.dtype != b.dtype or a.shape != b.shape:
            return "%s dtype/shape %s%s vs %s%s" % (path, a.dtype, a.shape, b.dtype, b.shape)
        if a.dtype == object:
            return None if all(same(x, y) is None for x, y in zip(a.ravel(), b.ravel())) else path + " obj"
        if np.ascontiguousarray(a).tobytes() != np.ascontiguousarray(b).tobytes():
            with np.errstate(all="ignore"):
                d = np.nanmax(np.abs(a.astype(complex) - b.astype(complex))) if a.size else 0
            return "%s values differ (max abs diff %r)" % (path, d)
        return None
    if isinstance(a, np.generic):
        return None if (a.dtype == b.dtype and a.tobytes() == b.tobytes()) else "%s scalar %r vs %r" % (path, a, b)
    if isinstance(a, (list, tuple)):
        if len(a) != len(b):
            return path + " len"
        for i, (x, y) in enumerate(zip(a, b)):
            r = same(x, y, path + "[%d]" % i)
            if r:
                return r
        return None
    if isinstance(a, float):
        return None if np.float64(a).tobytes() == np.float64(b).tobytes() else "%s %r vs %r" % (path, a, b)
    try:
        return None if a == b else "%s %r vs %r" % (path, a, b)
    except Exception:
        return None


def run(fn, args, kwargs):
    try:
        return ("ok", fn(*args, **kwargs))
    except Exception as e:  # noqa
        return ("exc", type(e).__name__, str(e))


def check(name, args=(), kwargs=None, label=""):
    """Call ST_O.<name> and ST_E.<name> on deep copies of the arguments; compare results and arguments after."""
    global N_CASES
    N_CASES += 1
    kwargs = kwargs or {}
    a_o, k_o = copy.deepcopy(args), copy.deepcopy(kwargs)
    a_e, k_e = copy.deepcopy(args), copy.deepcopy(kwargs)
    r_o = run(getattr(ST_O, name), a_o, k_o)
    r_e = run(getattr(ST_E, name), a_e, k_e)
    msg = None
    if r_o[0] != r_e[0]:
        msg = "outcome %r vs %r" % (r_o[:2], r_e[:2])
    elif r_o[0] == "exc":
        if r_o != r_e:
            msg = "exception %r vs %r" % (r_o, r_e)
    else:
        msg = same(r_o[1], r_e[1], "result")
    if msg is None:
        msg = same(list(a_o), list(a_e), "args_after")
    if msg is None:
        msg = same(sorted(k_o.items()), sorted(k_e.items()), "kwargs_after")
    if msg is not None:
        FAILS.append("%s %s: %s" % (name, label, msg))
    return r_o, r_e


rng = np.random.RandomState(20240915)


def records(n):
    """A handful of differently shaped / typed records of length n."""
    t = np.arange(n)
    out = [
        ("randn", rng.randn(n)),
        ("int", rng.randint(-50, 50, size=n)),
        ("list", list(rng.randn(n))),
    ]
    if n % 3 == 0:
        out.append(("tuple", tuple(rng.randn(n).tolist())))
        out.append(("f32", rng.randn(n).astype(np.float32)))
        out.append(("const", np.full(n, 2.5)))
    if n % 5 == 0:
        out.append(("zeros", np.zeros(n)))
        out.append(("ramp_int32", t.astype(np.int32)))
        out.append(("bool", rng.rand(n) > 0.5))
        out.append(("complex", rng.randn(n) + 1j * rng.randn(n)))
        out.append(("c64", (rng.randn(n) + 1j * rng.randn(n)).astype(np.complex64)))
    if n % 7 == 0:
        x = rng.randn(n)
        if n:
            x[rng.randint(n)] = np.nan
        out.append(("nan", x))
        y = rng.randn(n) * 1e200
        out.append(("huge", y))
        out.append(("tiny", rng.randn(n) * 1e-300))
        out.append(("strided", rng.randn(2 * n)[::2]))
        out.append(("intlist", [int(v) for v in rng.randint(-9, 9, size=n)]))
    return out


# ---------------------------------------------------------------- generate_gaussian
for n_d2 in list(range(0, 140)) + [255, 256, 257, 500, 512]:
    check("generate_gaussian", (n_d2,), label="n_d2=%d" % n_d2)
for n_d2 in [np.int64(6), np.int32(9), 4.0, 7.0, True]:
    check("generate_gaussian", (n_d2,), label="n_d2=%r" % (n_d2,))
for bad in [None, "3", [3], -1, -4, 2.5]:
    check("generate_gaussian", (bad,), label="bad=%r" % (bad,))

# ---------------------------------------------------------------- transforms
TRANSFORMS = ["transform", "transform_w_scipy_fft"]
lengths = list(range(0, 132)) + [200, 255, 256, 257, 333, 500, 511, 512, 513, 777, 1000, 1023, 1024, 1025]
stocks = []
for n in lengths:
    for lab, rec in records(n):
        for name in TRANSFORMS:
            for kw in ({}, {"interp": True}):
                if kw and n % 4:
                    continue
                if n > 300 and lab not in ("randn", "int"):
                    continue
                r_o, r_e = check(name, (rec,), kw, label="n=%d %s %r" % (n, lab, kw))
                if r_o[0] == "ok" and name == "transform" and not kw and n <= 300:
                    stocks.append((n, lab, r_o[1]))

# positional interp, scalars, None, 2-d, strings
for name in TRANSFORMS + ["transform_slow"]:
    for bad in [3.0, 5, None, "abcdefgh", np.float64(2.0),
                [], np.array([]), [1.0], np.array(3.0), {1: 2.0, 2: 3.0}]:
        check(name, (bad,), label="bad=%r" % (bad,))
    check(name, (rng.randn(16), True), label="positional interp")
    check(name, (), {"acc": rng.randn(10), "interp": False}, label="keywords")

# on-grid sinusoids, every frequency for a few lengths, several phases
for n in [8, 16, 31, 32, 64, 100]:
    t = np.arange(n)
    m = 2 * (n // 2)
    for k in range(0, m // 2 + 1):
        for ph in (0.0, 0.7):
            rec = np.sin(2 * np.pi * k * t / m + ph)
            for name in TRANSFORMS:
                check(name, (rec,), label="sin n=%d k=%d" % (n, k))

# transform_slow (shares code with the transforms)
for n in list(range(0, 40)) + [64, 127, 256]:
    for ith in (0, 1, 2, 3, n // 2, n):
        check("transform_slow", (rng.randn(n),), {"ith": ith}, label="n=%d ith=%d" % (n, ith))
    check("transform_slow", (list(rng.randint(-5, 5, size=n)),), label="n=%d default" % n)

# ---------------------------------------------------------------- itransform / dep_itransform
for n, lab, stk in stocks:
    for name in ("itransform", "dep_itransform"):
        check(name, (stk,), label="from transform n=%d %s" % (n, lab))
for h in list(range(0, 24)) + [50, 128, 512]:
    for w in sorted({0, 1, 2, h, 2 * h, 2 * h + 1, 7}):
        base = rng.randn(h, w) + 1j * rng.randn(h, w)
        forms = [("c128", base), ("real", base.real.copy()), ("c64", base.astype(np.complex64)),
                 ("int", rng.randint(-9, 9, size=(h, w))), ("list", base.tolist()), ("fortran", np.asfortranarray(base)),
                 ("clongdouble", base.astype(np.clongdouble)), ("f32", base.real.astype(np.float32)),
                 ("view", (rng.randn(h, 2 * w + 1) + 1j * rng.randn(h, 2 * w + 1))[:, ::2][:, :w])]
        if h > 50:
            forms = forms[:2]
        for lab, stk in forms:
            for name in ("itransform", "dep_itransform"):
                check(name, (stk,), label="h=%d w=%d %s" % (h, w, lab))
for bad in [np.zeros(5), 3.0, None, np.zeros((2, 3, 4)) + 1j, np.zeros((3, 2, 5)), "ab", [1.0, 2.0], [[1, 2], [3]]]:
    for name in ("itransform", "dep_itransform"):
        check(name, (bad,), label="bad=%r" % (bad,))

# ---------------------------------------------------------------- get_max_tifq_vals_freq
DTS = [0.01, 0.005, 1.0, 1, 2, 0.1, 1.0 / 3, np.float64(0.02), np.float32(0.01), 0, 0.0, -0.5, 1e-300, 1e300,
       np.int64(3), float("nan"), float("inf"), True]
for h in list(range(0, 20)) + [33, 64, 200]:
    for w in (0, 1, 2, 5, 2 * h):
        c = rng.randn(h, w) + 1j * rng.randn(h, w)
        vals = [("complex", c), ("abs", abs(c)), ("int", rng.randint(-3, 3, size=(h, w))), ("ties", np.ones((h, w))),
                ("nan", np.where(rng.rand(h, w) > 0.8, np.nan, c)), ("c64", c.astype(np.complex64))]
        for lab, v in vals:
            for dt in DTS:
                check("get_max_tifq_vals_freq", (v, dt), label="h=%d w=%d %s dt=%r" % (h, w, lab, dt))
for v in [rng.randn(7), rng.randn(1), rng.randn(4, 3, 5), rng.randn(3, 4).tolist(), [1.0, 2.0], (1, 2), 3.0, None, "abc",
          np.array(2.0), np.zeros((0,)), np.zeros((3, 0, 2))]:
    for dt in [0.01, 1, 0, None, "x", 1j, np.float32(0.25)]:  # dt is a scalar time step
        check("get_max_tifq_vals_freq", (v, dt), label="v=%r dt=%r" % (type(v), dt))
check("get_max_tifq_vals_freq", (), {"tifq_values": rng.randn(4, 6), "dt": 0.2}, label="keywords")
for n, lab, stk in stocks[::3]:
    check("get_max_tifq_vals_freq", (stk, 0.01), label="stock n=%d %s" % (n, lab))


# ---------------------------------------------------------------- get_max_stockwell_freq (object state / histories)
class Plain(object):
    def __init__(self, **kw):
        self.__dict__.update(kw)


class Recorder(object):
    """Records attribute writes (in order) and the set of attribute names read, so these can be compared too."""

    def __init__(self, **kw):
        object.__setattr__(self, "_log", [])
        object.__setattr__(self, "_d", dict(kw))

    def __getattr__(self, k):
        self._log.append(("get", k))
        try:
            return self._d[k]
        except KeyError:
            raise AttributeError(k)

    def __setattr__(self, k, v):
        self._log.append(("set", k))
        self._d[k] = v


def obj_state(o):
    if isinstance(o, Recorder):
        return [sorted(o._d.keys()), [o._d[k] for k in sorted(o._d)], [k for a, k in o._log if a == "set"],
                sorted(set(k for a, k in o._log if a == "get"))]
    ok = (np.ndarray, np.generic, float, int, str, bool, type(None), list, tuple)
    d = {k: v for k, v in vars(o).items() if isinstance(v, ok)}
    return [sorted(d.keys()), [d[k] for k in sorted(d)]]


def history(make, ops, label):
    """Run the same sequence of public operations against both versions on separately built objects."""
    global N_CASES
    N_CASES += 1
    outs = []
    for pkg, st in ((PKG_O, ST_O), (PKG_E, ST_E)):
        o = make(pkg)
        trace = []
        for op in ops:
            trace.append(run(lambda: op(st, o), (), {}))
            trace.append(obj_state(o))
        outs.append(trace)
    msg = same(outs[0], outs[1], "history")
    if msg:
        FAILS.append("history %s: %s" % (label, msg))


op_max = lambda st, o: st.get_max_stockwell_freq(o)  # noqa
op_tr = lambda st, o: setattr(o, "swtf", st.transform(o.values))  # noqa
op_trs = lambda st, o: setattr(o, "swtf", st.transform_w_scipy_fft(o.values))  # noqa
op_inv = lambda st, o: st.itransform(o.swtf)  # noqa
op_del = lambda st, o: delattr(o, "swtf")  # noqa
op_abs = lambda st, o: setattr(o, "swtf", abs(o.swtf))  # noqa
op_cut = lambda st, o: setattr(o, "swtf", o.swtf[1:, ::2])  # noqa
op_tifq = lambda st, o: st.get_max_tifq_vals_freq(o.swtf, o.dt)  # noqa
op_frq = lambda st, o: st.get_stockwell_freqs(o)  # noqa
op_tms = lambda st, o: st.get_stockwell_times(o)  # noqa

for n in list(range(0, 70)) + [128, 255, 400]:
    for dt in (0.01, 0.1, 1, 1.0 / 7):
        vals = rng.randn(n)
        ivals = rng.randint(-9, 9, size=n)
        history(lambda pkg: Plain(values=vals.copy(), dt=dt), [op_max, op_max, op_inv], "plain n=%d dt=%r" % (n, dt))
        history(lambda pkg: Plain(values=list(ivals), dt=dt), [op_max, op_tifq, op_frq, op_tms], "plain int list n=%d" % n)
        history(lambda pkg: Recorder(values=vals.copy(), dt=dt), [op_max, op_max], "recorder n=%d dt=%r" % (n, dt))
        history(lambda pkg: Recorder(values=vals.copy(), dt=dt), [op_trs, op_max, op_abs, op_max, op_cut, op_max],
                "recorder preset n=%d dt=%r" % (n, dt))
        history(lambda pkg: Plain(values=vals.copy(), dt=dt), [op_tr, op_cut, op_max, op_del, op_max, op_inv],
                "plain cut/del n=%d dt=%r" % (n, dt))
    vals = rng.randn(n)
    history(lambda pkg: Plain(values=vals.copy()), [op_max, op_max], "no dt n=%d" % n)
    history(lambda pkg: Recorder(values=np.ones(n)), [op_max], "recorder no dt n=%d" % n)
    history(lambda pkg: Plain(dt=0.01), [op_max], "no values")
    history(lambda pkg: Recorder(dt=0.01), [op_max], "recorder no values")
    history(lambda pkg: Plain(dt=0.01, swtf=[[1.0, 2.0], [3.0, 1.0]]), [op_max], "list swtf")
    history(lambda pkg: Plain(dt=0.01, swtf=None), [op_max], "None swtf")

for n in [2, 3, 4, 5, 16, 33, 64, 101, 256]:
    for dt in (0.01, 0.05, 1.0):
        vals = rng.randn(n)
        for cls in ("AccSignal", "Signal"):
            history(lambda pkg: getattr(pkg, cls)(vals.copy(), dt), [op_max, op_max, op_inv, op_frq],
                    "%s n=%d dt=%r" % (cls, n, dt))
            history(lambda pkg: getattr(pkg, cls)(vals.copy(), dt), [op_trs, op_max, op_del, op_max, op_tifq],
                    "%s preset n=%d dt=%r" % (cls, n, dt))

# dominant frequency of on-grid sinusoids
for n in [16, 32, 50, 64, 128]:
    t = np.arange(n)
    for k in range(1, n // 2):
        history(lambda pkg: pkg.AccSignal(np.cos(2 * np.pi * k * t / n), 0.02), [op_max, op_inv], "sinus n=%d k=%d" % (n, k))

# ---------------------------------------------------------------- module surface
N_CASES += 1
pub = lambda m: sorted(k for k, v in vars(m).items() if not k.startswith("_") and isinstance(v, types.FunctionType))  # noqa
if pub(ST_O) != pub(ST_E):
    FAILS.append("public function names differ: %r vs %r" % (pub(ST_O), pub(ST_E)))
import inspect  # noqa

for k in pub(ST_O):
    N_CASES += 1
    if str(inspect.signature(getattr(ST_O, k))) != str(inspect.signature(getattr(ST_E, k))):
        FAILS.append("signature of %s differs" % k)

print("cases: %d, failures: %d" % (N_CASES, len(FAILS)))
for f in FAILS[:40]:
    print("FAIL", f)
sys.exit(1 if FAILS else 0)

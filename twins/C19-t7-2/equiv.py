"""
Equivalence program: compares the ORIGINAL eqsig (git HEAD) with the edited worktree copy on many inputs for
eqsig.surface (trim_to_length, calc_surface_energy, calc_cum_abs_surface_energy, get_time_shift_motions) and
eqsig.fns.time_shift (put_array_in_2d_array, join_values_w_shifts, join_sig_w_time_shift).

Run:  cd <worktree> && PYTHONPATH=<worktree> /venv/bin/python out/equivK.py
Exit code 0 iff every case gives the identical outcome (value bit-for-bit incl. dtype and shape, or same exception
type and message, and same state of the arguments afterwards).
"""
import io
import os
import pickle
import subprocess
import sys
import tarfile
import tempfile


# ----------------------------------------------------------------------------------------------------------------
# worker: runs all cases against the package found in `root`
# ----------------------------------------------------------------------------------------------------------------

def enc(obj):
    """Encode a result into something that can be compared exactly"""
    import numpy as np
    if isinstance(obj, np.ndarray):
        return ('nd', obj.dtype.str, obj.shape, np.ascontiguousarray(obj).tobytes())
    if isinstance(obj, np.generic):
        return ('npscalar', obj.dtype.str, obj.tobytes())
    if isinstance(obj, (list, tuple)):
        return (type(obj).__name__, tuple(enc(o) for o in obj))
    if obj is None or isinstance(obj, (int, float, str, bool)):
        return ('py', type(obj).__name__, repr(obj))
    return ('other', type(obj).__name__, repr(obj))


def run_case(fn, args, kwargs, watch):
    import warnings
    with warnings.catch_warnings(record=True) as wlist:
        warnings.simplefilter('always')
        try:
            out = ('ok', enc(fn(*args, **kwargs)))
        except Exception as e:  # noqa
            out = ('exc', type(e).__name__, str(e))
    wtypes = tuple(sorted(set(w.category.__name__ for w in wlist)))
    return out, wtypes, tuple(enc(w) for w in watch)


def worker(root, outfile):
    sys.path.insert(0, root)
    import numpy as np
    import eqsig
    from eqsig import surface
    from eqsig.fns import time_shift
    import eqsig.fns as fns
    assert os.path.realpath(eqsig.__file__).startswith(os.path.realpath(root)), (eqsig.__file__, root)
    res = []
    rng = np.random.RandomState(1234)

    def rec(tag, fn, args, kwargs, watch):
        res.append((tag,) + run_case(fn, args, kwargs, watch))

    # ---------------------------------------------------------------- time_shift helpers
    clips = ['none', 'start', 'end', 'both', None, 'END', 'other', ['end'], 3]
    k = 0
    for it in range(1500):
        npts = int(rng.choice([0, 1, 2, 3, 5, 8, 13, 30]))
        kind = it % 6
        if kind == 0:
            values = rng.randn(npts)
        elif kind == 1:
            values = rng.randint(-9, 9, size=npts)
        elif kind == 2:
            values = list(rng.randn(npts))
        elif kind == 3:
            values = [int(v) for v in rng.randint(-9, 9, size=npts)]
        elif kind == 4:
            values = rng.randn(npts).astype(np.float32)
        else:
            values = tuple(rng.randn(npts))
        ns = int(rng.choice([0, 1, 1, 2, 3, 6]))
        mode = rng.randint(0, 5)
        if mode == 0:
            sh = rng.randint(-7, 8, size=ns)
        elif mode == 1:
            sh = rng.randint(0, 8, size=ns)
        elif mode == 2:
            sh = rng.randint(-8, 1, size=ns)
        elif mode == 3:
            sh = np.zeros(ns, dtype=int)
        else:
            sh = rng.randint(-40, 41, size=ns)
        form = it % 5
        if form == 0:
            shifts = sh
        elif form == 1:
            shifts = [int(s) for s in sh]
        elif form == 2:
            shifts = sh.astype(np.int32)
        elif form == 3:
            shifts = tuple(int(s) for s in sh)
        else:
            shifts = sh.astype(float) if it % 10 == 4 else sh
        clip = clips[it % len(clips)]
        rec('put/%d' % it, time_shift.put_array_in_2d_array, (values, shifts), {'clip': clip}, (values, shifts))
        if it % 3 == 0:
            rec('put-default/%d' % it, fns.put_array_in_2d_array, (values, shifts), {}, (values, shifts))
        jt = ['add', 'sub', 'mul', None, ['add']][it % 5]
        rec('join/%d' % it, time_shift.join_values_w_shifts, (values, shifts), {'jtype': jt}, (values, shifts))
        if it % 4 == 0:
            rec('join-default/%d' % it, time_shift.join_values_w_shifts, (values, shifts), {}, (values, shifts))
        k += 1
    # scalars / odd inputs
    for values, shifts in [(np.arange(4.), 2), (3.0, [1]), (np.arange(4.), np.array(2)), 
                           # (values and shifts are 1d in the domain; 2d forms are not compared for this edit)
                           (np.ones((1, 1)), [0, 1]),
                           (np.arange(3.) + 1j, [1, 0]), (np.array([np.nan, np.inf, -0.0]), [-1, 1]),
                           (np.arange(4.), np.array([True, False])), ('abc', [1])]:
        for clip in ['none', 'both']:
            rec('put-odd', time_shift.put_array_in_2d_array, (values, shifts), {'clip': clip}, ())
        for jt in ['add', 'sub']:
            rec('join-odd', time_shift.join_values_w_shifts, (values, shifts), {'jtype': jt}, ())

    # join_sig_w_time_shift on Signal objects
    for it in range(300):
        npts = int(rng.choice([2, 3, 7, 20, 41]))
        dt = float(rng.choice([0.01, 0.1, 0.005, 0.25, 1.0]))
        vals = rng.randn(npts) if it % 3 else rng.randint(-5, 6, size=npts)
        sig = eqsig.Signal(vals, dt) if it % 2 else eqsig.AccSignal(vals, dt)
        ns = int(rng.choice([1, 2, 4]))
        if it % 4 == 0:
            ts = rng.randint(0, 12, size=ns) * dt
        elif it % 4 == 1:
            ts = rng.rand(ns) * 10 * dt
        elif it % 4 == 2:
            ts = (rng.rand(ns) - 0.3) * 10 * dt
        else:
            ts = np.zeros(ns)
        for jt in ['add', 'sub', 'x']:
            rec('joinsig/%d' % it, time_shift.join_sig_w_time_shift, (sig, ts), {'jtype': jt}, (ts, sig.values))
        rec('joinsig-list/%d' % it, time_shift.join_sig_w_time_shift, (sig, list(ts)), {}, (sig.values,))

    # ---------------------------------------------------------------- surface functions
    sfuncs = [('e', surface.calc_surface_energy), ('cae', surface.calc_cum_abs_surface_energy),
              ('tsm', surface.get_time_shift_motions)]
    for it in range(700):
        npts = int(rng.choice([1, 2, 3, 5, 10, 24, 50]))
        dt = float(rng.choice([0.01, 0.1, 0.005, 0.25, 1.0, 0.02]))
        if it % 5 == 0:
            vals = rng.randint(-5, 6, size=npts)
        elif it % 5 == 1:
            vals = list(rng.randn(npts))
        else:
            vals = rng.randn(npts)
        asig = eqsig.AccSignal(vals, dt)
        ntt = int(rng.choice([1, 1, 2, 3, 5]))
        m = it % 7
        if m == 0:
            tt = np.zeros(ntt)
        elif m == 1:
            tt = rng.randint(0, 9, size=ntt) * dt / 2  # integer multiples of dt / 2
        elif m == 2:
            tt = rng.randint(0, 9, size=ntt) * dt
        elif m == 3:
            tt = rng.rand(ntt) * 6 * dt  # fractional
        elif m == 4:
            tt = rng.rand(ntt) * 2 * npts * dt  # possibly longer than the record
        elif m == 5:
            tt = rng.randint(0, 9, size=ntt)  # integer typed times
        else:
            tt = (rng.rand(ntt) - 0.2) * 4 * dt  # some negative (outside the domain, exceptions)
        f = (it // 7) % 6
        if f == 0:
            tt_in = tt
        elif f == 1:
            tt_in = list(tt)
        elif f == 2:
            tt_in = tuple(tt)
        elif f == 3:
            tt_in = float(tt[0])
        elif f == 4:
            tt_in = tt[0]  # numpy scalar
        else:
            tt_in = tt[:1]
        nrow = 1 if f in (3, 4, 5) else ntt
        r = it % 9
        if r == 0:
            up, down = 1., 1.
        elif r == 1:
            up, down = float(rng.rand()), float(rng.rand() * 2)
        elif r == 2:
            up, down = rng.rand(nrow), rng.rand(nrow)
        elif r == 3:
            up, down = rng.rand(nrow), 0.7  # down scalar with up array: error
        elif r == 4:
            up, down = 0.6, rng.rand(nrow)  # broadcasting along the time axis or error
        elif r == 5:
            up, down = list(rng.rand(nrow)), list(rng.rand(nrow))  # lists: error
        elif r == 6:
            up, down = 2, 3  # integers
        elif r == 7:
            up, down = rng.rand(nrow + 1), rng.rand(nrow + 1)  # wrong length
        else:
            up, down = np.float64(0.5), np.float32(0.25)
        stts = [0.0, float(rng.randint(0, 6)) * dt, float(rng.rand() * 5 * dt), 0.3, float(npts * dt * 1.5), 0]
        stt = stts[it % len(stts)]
        for nodal in (True, False):
            for trim in (True, False):
                for start in (True, False):
                    kw = dict(nodal=nodal, up_red=up, down_red=down, stt=stt, trim=trim, start=start)
                    for nm, fn in sfuncs:
                        rec('%s/%d/%d%d%d' % (nm, it, nodal, trim, start), fn, (asig, tt_in), kw,
                            (tt_in, up, down, asig.values, asig.npts, asig.dt))
        # defaults and positional use
        for nm, fn in sfuncs:
            rec('%s-def/%d' % (nm, it), fn, (asig, tt_in), {}, (tt_in, asig.values))
            rec('%s-pos/%d' % (nm, it), fn, (asig, tt_in, False, up, down, stt, True, True), {}, (tt_in, asig.values))
        # history of public operations on the object, then again
        if it % 4 == 0:
            h = it % 3
            if h == 0:
                asig.add_constant(0.5)
            elif h == 1:
                asig.reset_values(np.asarray(asig.values)[::-1] * 2.0)
            else:
                asig.add_series(np.linspace(0, 1, asig.npts))
            for nm, fn in sfuncs:
                rec('%s-hist/%d' % (nm, it), fn, (asig, tt_in),
                    dict(nodal=bool(it % 8), up_red=up, down_red=down, stt=stt, trim=bool(it % 3), start=bool(it % 5)),
                    (tt_in, up, down, asig.values, asig.velocity, asig.displacement))
        # alpha scaling / batch row consistency material
        if it % 10 == 0:
            asig2 = eqsig.AccSignal(np.asarray(asig.values) * 3.0, dt)
            rec('e-alpha/%d' % it, surface.calc_cum_abs_surface_energy, (asig2, tt_in), dict(trim=True), ())

    # ---------------------------------------------------------------- trim_to_length directly
    for it in range(1500):
        nrow = int(rng.choice([1, 2, 3, 5]))
        npts = int(rng.choice([1, 2, 4, 9, 20]))
        dt = float(rng.choice([0.01, 0.1, 0.25, 1.0]))
        m = it % 5
        if m == 0:
            tt = rng.randint(0, 6, size=nrow) * dt
        elif m == 1:
            tt = rng.rand(nrow) * 5 * dt
        elif m == 2:
            tt = np.zeros(nrow)
        elif m == 3:
            tt = rng.rand(nrow) * 3 * npts * dt
        else:
            tt = (rng.rand(nrow) - 0.4) * 6 * dt
        width = npts + int(rng.choice([0, 0, 1, 3, 12, int(np.max(2 * tt / dt)) if np.max(tt) >= 0 else 0]))
        values = rng.randn(nrow, width) if it % 4 else rng.randint(-4, 5, size=(nrow, width))
        stt = [0.0, float(rng.randint(0, 8) * dt), float(rng.rand() * 30 * dt), -dt * 2][it % 4]
        for trim in (True, False):
            for start in (True, False):
                rec('trim/%d/%d%d' % (it, trim, start), surface.trim_to_length, (values, npts, tt, dt),
                    dict(trim=trim, start=start, s2s_travel_time=stt), (values, tt))
        if it % 50 == 0:
            rec('trim-def/%d' % it, surface.trim_to_length, (values, npts, tt, dt), {}, (values, tt))
            rec('trim-list/%d' % it, surface.trim_to_length, (values, npts, list(tt), dt), dict(trim=True), ())
            rec('trim-scalar/%d' % it, surface.trim_to_length, (values, npts, float(tt[0]), dt), dict(trim=True), ())
            rec('trim-scalar0/%d' % it, surface.trim_to_length, (values, npts, float(tt[0]), dt), {}, ())
            rec('trim-empty/%d' % it, surface.trim_to_length, (values, npts, tt[:0], dt), dict(start=True), ())
            rec('trim-fewrows/%d' % it, surface.trim_to_length, (values[:1], npts, np.append(tt, 0.0), dt),
                dict(start=True, trim=True), ())
            rec('trim-ident/%d' % it, lambda *a: surface.trim_to_length(*a) is a[0], (values, npts, tt, dt), {}, ())

    with open(outfile, 'wb') as fh:
        pickle.dump(res, fh)


# ----------------------------------------------------------------------------------------------------------------
# driver
# ----------------------------------------------------------------------------------------------------------------

def main():
    cwd = os.getcwd()
    here = os.path.abspath(__file__)
    with tempfile.TemporaryDirectory() as tmp:
        orig_root = os.path.join(tmp, 'orig')
        os.makedirs(orig_root)
        data = subprocess.check_output(['git', 'archive', 'HEAD', 'eqsig'], cwd=cwd)
        with tarfile.open(fileobj=io.BytesIO(data)) as tf:
            tf.extractall(orig_root)
        outs = []
        for name, root in (('orig', orig_root), ('edit', cwd)):
            outfile = os.path.join(tmp, name + '.pkl')
            env = dict(os.environ)
            env['PYTHONPATH'] = root
            env['PYTHONDONTWRITEBYTECODE'] = '1'
            subprocess.check_call([sys.executable, here, '--worker', root, outfile], cwd=tmp, env=env)
            with open(outfile, 'rb') as fh:
                outs.append(pickle.load(fh))
    a, b = outs
    if len(a) != len(b):
        print('different number of cases', len(a), len(b))
        return 1
    bad = 0
    n_exc = 0
    for ra, rb in zip(a, b):
        if ra[1][0] == 'exc':
            n_exc += 1
        if ra != rb:
            bad += 1
            if bad <= 10:
                print('MISMATCH', ra[0])
                print('   orig:', str(ra[1])[:300], ra[2])
                print('   edit:', str(rb[1])[:300], rb[2])
                if ra[3] != rb[3]:
                    print('   (arguments / object state differ afterwards)')
    print('cases: %d, of which raising: %d, mismatches: %d' % (len(a), n_exc, bad))
    return 1 if bad else 0


if __name__ == '__main__':
    if len(sys.argv) > 1 and sys.argv[1] == '--worker':
        worker(sys.argv[2], sys.argv[3])
    else:
        sys.exit(main())

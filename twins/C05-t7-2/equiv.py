"""Equivalence program for twin 2 (eqsig/fns/peaks_and_crossings.py: get_zero_crossings_array_indices rewritten
with masks, option handling of get_peak_array_indices and get_n_cyc_array rewritten).

Run with the edit applied and cwd = the worktree.  The original package is taken from `git archive HEAD eqsig`
into a temporary directory; original and edited versions run in separate subprocesses over the same
deterministic case list and their canonicalised outputs are compared exactly (bit-for-bit).
"""
import hashlib
import io
import os
import pickle
import subprocess
import sys
import tarfile
import tempfile
import warnings


def canon(x):
    import numpy as np
    if isinstance(x, np.ndarray):
        return ('nd', str(x.dtype), x.shape, x.tobytes(), bool(x.flags.writeable))
    if isinstance(x, np.generic):
        return ('ng', str(x.dtype), x.tobytes())
    if isinstance(x, (list, tuple)):
        return (type(x).__name__,) + tuple(canon(v) for v in x)
    if isinstance(x, float):
        return ('f', repr(x))
    if isinstance(x, BaseException):
        return ('EXC', type(x).__name__, str(x))
    return ('o', type(x).__name__, repr(x))


def records(np):
    rng = np.random.RandomState(991)
    recs = []
    # hand-made corners
    recs += [
        [], [0], [0.0], [1.0], [-1.0], [0, 0], [0, 0, 0, 0], [1, 1, 1], [-2, -2], [0, 1], [0, -1], [1, 0], [-1, 0],
        [1, -1], [-1, 1], [1, 0, -1], [1, 0, 0, -1], [0, 0, 1, 0, 0, -1, 0, 0], [-1, 0, 0, 0],
        [0, 2, 1, 2, -1, 1, 0, 0, 1, 0.3, 0, -1, 0.2, 1, 0.2],
        [0, 2, 1, 2, -1, 1, 1, 0.3, -1, 0.2, 1, 0.2],
        [0, 2, 1, 2, 0, 1, 0, -1, 0, 1, 0],
        [1e-200, -1e-200, 1e-200, 5.0, -1e-300, 2.0],
        [-0.0, 0.0, -0.0, 1.0, -0.0, -1.0],
        [1.0, np.nan, -1.0, 0.0, np.nan, 0.0, 2.0, -2.0],
        [np.nan, np.nan], [np.nan], [np.inf, -np.inf, 0.0, np.inf, 0.0, 0.0, -np.inf],
        [0.0, np.inf, 0.0, -np.inf], [-3, 0.005, -0.004, 0.003, 2, -0.001, 0.002, -1],
        (0.0, 1.5, -2.5, 0.0, 0.0, 3.0), (1, -1, 0, 0, 2),
        np.array([True, False, False, True, True, False]),
        np.array([1 + 0j, -1 + 0j, 0j, 2 + 0j]),
        ['a', 'b'], [None, 1.0], 3.0, 0, -2, np.float64(-1.5), np.array(0.0), None, 'abc',
    ]
    ro = np.array([0.5, -0.5, 0.0, 0.0, 1.0, -2.0, 0.001, -0.001, 3.0])
    ro.flags.writeable = False
    recs.append(ro)
    big = rng.randn(200)
    recs.append(big[::3])
    recs.append(big[::-1])
    recs.append(np.asfortranarray(rng.randn(30)))
    recs.append(rng.randn(25).astype(np.float32))
    recs.append(rng.randn(25).astype(np.float16))
    recs.append(rng.randint(-3, 4, size=40).astype(np.int8))
    recs.append(rng.randint(0, 4, size=40).astype(np.uint8))
    # random families
    for k in range(1400):
        n = int(rng.randint(1, 45))
        fam = k % 7
        if fam == 0:
            v = rng.randn(n)
        elif fam == 1:
            v = rng.randint(-2, 3, size=n)  # many exact zeros and repeats, integer dtype
        elif fam == 2:
            v = rng.randint(-1, 2, size=n).astype(float) * rng.rand(n).round(1)  # runs of zeros, float
        elif fam == 3:
            v = np.round(rng.randn(n), 1) * (rng.rand(n) > 0.3)
        elif fam == 4:
            v = list(np.round(np.cumsum(rng.randn(n)), 2))
        elif fam == 5:
            v = np.sin(np.arange(n) * rng.rand() * 2) * 10 ** rng.randint(-4, 3)
        else:
            v = [int(x) for x in rng.randint(-5, 6, size=n)]
        recs.append(v)
    return recs


TOLS = [0.0, 0, 0.01, 0.3, 1.0, 2.5, 1e9, -0.0, -1e-9, -1.0, float('nan'), float('inf'), True, None, 'x']
KEEPS = [False, True, 0, 1, None, 'yes']
PTYPES = ['all', 'min', 'max', 'MAX', '', None, 0, ['min'], ('max',)]
OPTS = ['all', 'switched', 'ALL', None, 1, ['all']]
STARTS = ['origin', 'peak', 'Peak', None, 0, ['peak']]


def call(fn, *args, **kwargs):
    with warnings.catch_warnings(record=True) as w:
        warnings.simplefilter('always')
        try:
            res = fn(*args, **kwargs)
        except Exception as e:
            res = e
    return res, tuple(sorted(set((x.category.__name__, str(x.message)) for x in w)))


def probe(np, fn, rec, *args, **kwargs):
    """call twice; report result, warnings, repeatability, input unchanged, result not aliasing the input"""
    keep = pickle.dumps(rec)
    r1, w1 = call(fn, rec, *args, **kwargs)
    same_input = pickle.dumps(rec) == keep
    r2, w2 = call(fn, rec, *args, **kwargs)
    alias = False
    if isinstance(rec, np.ndarray):
        for part in (r1 if isinstance(r1, tuple) else (r1,)):
            if isinstance(part, np.ndarray) and np.shares_memory(part, rec):
                alias = True
    return canon(r1), w1, canon(r1) == canon(r2), same_input, pickle.dumps(rec) == keep, alias


def worker(pkg_dir, out_path):
    sys.path.insert(0, pkg_dir)
    import numpy as np
    import eqsig
    import eqsig.fns.peaks_and_crossings as pc
    assert os.path.realpath(pc.__file__).startswith(os.path.realpath(pkg_dir)), pc.__file__
    np.seterr(all='ignore')
    results = []
    recs = records(np)

    class Holder(object):
        def __init__(self, values):
            self.values = values

    for ri, rec in enumerate(recs):
        full = ri < 80 or ri % 10 == 0
        # zero crossings: defaults, positional and keyword forms
        results.append(('zc-dflt', ri, probe(np, pc.get_zero_crossings_array_indices, rec)))
        for ka in (KEEPS if full else KEEPS[:2]):
            for tol in (TOLS if full else TOLS[:6]):
                results.append(('zc', ri, repr(ka), repr(tol),
                                probe(np, pc.get_zero_crossings_array_indices, rec, keep_adj_zeros=ka, tol=tol)))
        results.append(('zc-pos', ri, probe(np, pc.get_zero_crossings_array_indices, rec, True, 0.2)))
        # peaks
        results.append(('pk-dflt', ri, probe(np, pc.get_peak_array_indices, rec)))
        for pt in (PTYPES if full else PTYPES[:4]):
            results.append(('pk', ri, repr(pt), probe(np, pc.get_peak_array_indices, rec, ptype=pt)))
        results.append(('pk-pos', ri, probe(np, pc.get_peak_array_indices, rec, 'min')))
        # number of cycles
        results.append(('nc-dflt', ri, probe(np, pc.get_n_cyc_array, rec)))
        for opt in (OPTS if full else OPTS[:3]):
            for st in (STARTS if full else STARTS[:3]):
                results.append(('nc', ri, repr(opt), repr(st), probe(np, pc.get_n_cyc_array, rec, opt=opt, start=st)))
        results.append(('nc-pos', ri, probe(np, pc.get_n_cyc_array, rec, 'switched', 'peak')))
        # functions built on the rewritten ones
        results.append(('zp', ri, probe(np, pc.get_zero_and_peak_array_indices, rec)))
        results.append(('zp1', ri, probe(np, pc.get_zero_and_peak_array_indices, rec, None, 1)))
        results.append(('sw', ri, probe(np, pc.get_switched_peak_array_indices, rec)))
        results.append(('sw-t', ri, probe(np, pc.get_switched_peak_array_indices, rec, tol=0.1)))
        # object level wrappers
        h = Holder(rec)
        results.append(('zc-obj', ri, call(pc.get_zero_crossings_indices, h)[0].__class__.__name__,
                        canon(call(pc.get_zero_crossings_indices, h)[0])))
        results.append(('pk-obj', ri, canon(call(pc.get_peak_indices, h)[0])))
        results.append(('sw-obj', ri, canon(call(pc.get_switched_peak_indices, h)[0])))
        try:
            asig = eqsig.AccSignal(rec, 0.01)
        except Exception as e:
            results.append(('sig-ctor', ri, canon(e)))
        else:
            before = asig.values.tobytes() if isinstance(asig.values, np.ndarray) else None
            results.append(('zc-sig', ri, canon(call(pc.get_zero_crossings_indices, asig)[0]),
                            canon(call(pc.get_peak_indices, asig)[0]),
                            canon(call(pc.get_switched_peak_indices, asig)[0]),
                            before == (asig.values.tobytes() if before is not None else None)))

    # results must be independent, writeable arrays: mutate a result and call again
    for ri, rec in enumerate(recs[:400]):
        r, _ = call(pc.get_zero_crossings_array_indices, rec)
        if isinstance(r, np.ndarray) and len(r):
            r[:] = -7
            results.append(('zc-mut', ri, canon(call(pc.get_zero_crossings_array_indices, rec)[0])))
        r, _ = call(pc.get_peak_array_indices, rec, 'max')
        if isinstance(r, np.ndarray) and len(r):
            r[:] = -7
            results.append(('pk-mut', ri, canon(call(pc.get_peak_array_indices, rec, 'max')[0])))

    with open(out_path, 'wb') as f:
        pickle.dump(results, f, protocol=4)


def main():
    cwd = os.getcwd()
    tmp = tempfile.mkdtemp(prefix='equiv2_')
    orig_dir = os.path.join(tmp, 'orig')
    os.makedirs(orig_dir)
    data = subprocess.check_output(['git', 'archive', 'HEAD', 'eqsig'], cwd=cwd)
    with tarfile.open(fileobj=io.BytesIO(data)) as tf:
        tf.extractall(orig_dir)
    outs = []
    for tag, pkg in (('orig', orig_dir), ('edit', cwd)):
        out_path = os.path.join(tmp, tag + '.pkl')
        env = dict(os.environ)
        env['PYTHONPATH'] = pkg
        env['PYTHONHASHSEED'] = '0'
        subprocess.check_call([sys.executable, os.path.abspath(__file__), '--worker', pkg, out_path],
                              cwd=tmp, env=env)
        with open(out_path, 'rb') as f:
            outs.append(pickle.load(f))
    a, b = outs
    bad = 0
    if len(a) != len(b):
        print('different number of cases', len(a), len(b))
        bad += 1
    for x, y in zip(a, b):
        if x != y:
            bad += 1
            if bad < 6:
                print('MISMATCH\n  orig', repr(x)[:400], '\n  edit', repr(y)[:400])
    n_exc = sum(1 for x in a if 'EXC' in repr(x))
    print('cases: %d, mismatches: %d, cases with an exception: %d, digest %s' % (
        len(a), bad, n_exc, hashlib.sha1(pickle.dumps(a)).hexdigest()[:12]))
    import shutil
    shutil.rmtree(tmp, ignore_errors=True)
    sys.exit(1 if bad else 0)


if __name__ == '__main__':
    if len(sys.argv) > 1 and sys.argv[1] == '--worker':
        worker(sys.argv[2], sys.argv[3])
    else:
        main()

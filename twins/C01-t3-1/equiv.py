"""
Equivalence check for twin1 (compute_a_and_b staged through a namedtuple of shared terms).

Run with twin1 applied, cwd = the worktree:   /venv/bin/python out/equiv1.py
The ORIGINAL package is extracted from git HEAD into a temporary directory and exercised in a
subprocess; the EDITED package (the worktree) is exercised in another subprocess.  Both run the same
list of cases; every result (return values, argument buffers after the call, object state, exceptions)
is reduced to a canonical bit-exact form and the two lists are compared.  Exit 0 iff all identical.
"""
import os
import pickle
import shutil
import struct
import subprocess
import sys
import tempfile

HERE = os.path.dirname(os.path.abspath(__file__))
WORKTREE = os.path.dirname(HERE)
FOCUS = 'compute_a_and_b'


# --------------------------------------------------------------------------------------------------
# canonical (bit-exact) form of results
# --------------------------------------------------------------------------------------------------
def canon(x, depth=0):
    import numpy as np
    if depth > 6:
        return ('deep', type(x).__name__)
    if isinstance(x, np.ndarray):
        return ('nd', x.dtype.str, x.shape, np.ascontiguousarray(x).tobytes(),
                bool(x.flags['C_CONTIGUOUS']), bool(x.flags['WRITEABLE']))
    if isinstance(x, np.generic):
        return ('npscalar', type(x).__name__, x.tobytes())
    if isinstance(x, bool) or x is None or isinstance(x, (int, str, bytes)):
        return (type(x).__name__, x)
    if isinstance(x, float):
        return ('float', struct.pack('<d', x))
    if isinstance(x, (list, tuple)):
        # namedtuples and plain tuples are both reported with their element list; the type name is kept
        return (type(x).__name__, [canon(v, depth + 1) for v in x])
    if isinstance(x, dict):
        return ('dict', [(repr(k), canon(v, depth + 1)) for k, v in sorted(x.items(), key=lambda kv: repr(kv[0]))])
    if isinstance(x, BaseException):
        return ('exc', type(x).__name__, str(x))
    if hasattr(x, '__dict__'):
        return ('obj', type(x).__name__, canon(vars(x), depth + 1))
    return ('repr', type(x).__name__, repr(x))


def call(fn, *args, **kwargs):
    """call fn and report (result | exception) together with the argument values after the call"""
    import warnings
    with warnings.catch_warnings(record=True) as wlist:
        warnings.simplefilter('always')
        try:
            out = ('ok', canon(fn(*args, **kwargs)))
        except Exception as e:  # noqa
            out = canon(e)
    warns = sorted((w.category.__name__, str(w.message)) for w in wlist)
    return out, canon(list(args)), canon(kwargs), warns


# --------------------------------------------------------------------------------------------------
# the cases
# --------------------------------------------------------------------------------------------------
def make_records(rng):
    import numpy as np
    recs = []
    for n in (2, 3, 4, 5, 7, 16, 33, 100, 257):
        recs.append(('rand%d' % n, rng.standard_normal(n)))
    recs.append(('big_amp', 1e6 * rng.standard_normal(50)))
    recs.append(('tiny_amp', 1e-9 * rng.standard_normal(50)))
    recs.append(('zeros', np.zeros(20)))
    recs.append(('neg_zeros', -np.zeros(6)))
    recs.append(('ones_int', np.ones(12, dtype=int)))
    recs.append(('int_ramp', np.arange(-5, 6)))
    recs.append(('int32', np.arange(9, dtype=np.int32) % 3 - 1))
    recs.append(('float32', rng.standard_normal(21).astype(np.float32)))
    recs.append(('list', [0.0, 1.0, -2.5, 3.0, 0.25]))
    recs.append(('list_int', [0, 1, -2, 3, 0, 0, 4]))
    recs.append(('tuple', (0.5, -0.5, 0.25)))
    recs.append(('pulse', np.concatenate([[0, 0, 1.0], np.zeros(40)])))
    recs.append(('sine', np.sin(0.1 * np.arange(400)) * 0.01))
    recs.append(('step', np.concatenate([np.zeros(5), np.ones(30)])))
    recs.append(('strided', rng.standard_normal(60)[::3]))
    recs.append(('reversed', rng.standard_normal(15)[::-1]))
    recs.append(('long', rng.standard_normal(2500)))
    return recs


def make_period_sets(rng, dt):
    import numpy as np
    sets = []
    sets.append(('one', np.array([1.0 * dt * 37.3])))
    sets.append(('lo_hi', np.array([0.2 * dt, 2e4 * dt])))
    sets.append(('zero_first', np.array([0.0, 0.2 * dt, 5 * dt, 100 * dt, 2e4 * dt])))
    sets.append(('only_zero', np.array([0.0])))
    sets.append(('list', [0.3 * dt, 11 * dt, 123.4 * dt]))
    sets.append(('list_zero', [0, 2 * dt, 50 * dt]))
    sets.append(('tuple', (4.0 * dt, 8.0 * dt)))
    sets.append(('logspace', dt * np.logspace(np.log10(0.2), np.log10(2e4), 17)))
    sets.append(('rand', dt * np.exp(rng.uniform(np.log(0.2), np.log(2e4), 6))))
    sets.append(('zero_rand', np.concatenate([[0.0], dt * np.exp(rng.uniform(np.log(0.2), np.log(2e4), 4))])))
    sets.append(('ints', np.array([1, 2, 5])))
    sets.append(('linspace', np.linspace(0.1, 5, 30)))
    return sets


def run_cases():
    import inspect
    import numpy as np
    import eqsig
    from eqsig import sdof

    res = []

    def add(label, value):
        res.append((label, value))

    # signatures / docs of the public entry points
    for name, f in (('compute_a_and_b', sdof.compute_a_and_b),
                    ('nigam_and_jennings_response', sdof.nigam_and_jennings_response),
                    ('response_series', sdof.response_series),
                    ('pseudo_response_spectra', sdof.pseudo_response_spectra),
                    ('true_response_spectra', sdof.true_response_spectra),
                    ('AccSignal.response_series', eqsig.AccSignal.response_series),
                    ('AccSignal.gen_response_spectrum', eqsig.AccSignal.gen_response_spectrum)):
        add('sig:' + name, (f.__name__, str(inspect.signature(f)), f.__doc__))
    add('doc:AccSignal.response_times', (type(eqsig.AccSignal.response_times).__name__,
                                         eqsig.AccSignal.response_times.__doc__))

    rng = np.random.default_rng(20240601)

    # ---- compute_a_and_b directly
    xis = [0.0, 0, 0.05, 0.5, 0.999, 1e-12, np.float64(0.2)]
    for k in range(40):
        xis.append(float(rng.uniform(0, 1)))
    for j, xi in enumerate(xis):
        dt = float(10 ** rng.uniform(-4, 0))
        n = int(rng.integers(1, 9))
        w_arr = 6.2831853 / (dt * np.exp(rng.uniform(np.log(0.2), np.log(2e4), n)))
        add('ab:arr:%d' % j, call(sdof.compute_a_and_b, xi, w_arr, dt))
        add('ab:scalar:%d' % j, call(sdof.compute_a_and_b, xi, float(w_arr[0]), dt))
        add('ab:npscalar:%d' % j, call(sdof.compute_a_and_b, xi, w_arr[0], dt))
        add('ab:empty:%d' % j, call(sdof.compute_a_and_b, xi, w_arr[:0], dt))
        add('ab:2d:%d' % j, call(sdof.compute_a_and_b, xi, np.outer(w_arr, [1.0, 2.0]), dt))
    add('ab:intdt', call(sdof.compute_a_and_b, 0.05, np.array([1.0, 2.0, 30.0]), 1))
    add('ab:intw', call(sdof.compute_a_and_b, 0.05, np.array([1, 2, 30]), 0.01))
    add('ab:float32w', call(sdof.compute_a_and_b, 0.05, np.array([1, 2, 30], dtype=np.float32), 0.01))
    # invalid input (w must be an array or a scalar): only the exception TYPE is compared, the message names
    # whichever operator meets the list first
    add('ab:list_w(error)', call(sdof.compute_a_and_b, 0.05, [1.0, 2.0], 0.01)[0][:2])

    # ---- the series functions
    records = make_records(rng)
    fns = [('nj', sdof.nigam_and_jennings_response), ('rs', sdof.response_series),
           ('prs', sdof.pseudo_response_spectra), ('trs', sdof.true_response_spectra)]
    for dt in (0.01, 0.005, 1, 0.25, np.float64(0.02), 1e-3):
        psets = make_period_sets(rng, float(dt))
        for rname, rec in records:
            for pname, periods in psets:
                xi = [0.0, 0.05, 0, 0.2, 0.7, 0.99, float(rng.uniform(0, 1))][int(rng.integers(0, 7))]
                for fname, fn in fns:
                    if fname in ('prs', 'trs') and isinstance(rec, (list, tuple)):
                        continue  # absmax(motion) needs an array there; outside this comparison
                    if fname in ('prs', 'trs') and rng.uniform() < 0.7:
                        continue
                    add('%s:%s:%s:%s:%r' % (fname, dt, rname, pname, xi), call(fn, rec, dt, periods, xi))

    # ---- AccSignal histories
    def state(obj):
        return canon(vars(obj))

    for h in range(12):
        n = int(rng.integers(2, 200))
        dt = float(10 ** rng.uniform(-3, -1))
        vals = rng.standard_normal(n)
        if h % 4 == 0:
            asig = eqsig.AccSignal(vals, dt)
        elif h % 4 == 1:
            asig = eqsig.AccSignal(list(vals), dt, response_times=[0.0, 0.3, 1.0, 2.5])
        elif h % 4 == 2:
            asig = eqsig.AccSignal(vals, dt, response_times=(0.2, 0.4), verbose=0)
        else:
            asig = eqsig.AccSignal((100 * vals).astype(int), dt, response_period_range=(0.05, 2.0))
        add('acc:%d:init' % h, state(asig))
        add('acc:%d:rs()' % h, (call(asig.response_series), state(asig)))
        rt_list = [0.0, 0.5, 1.5]
        add('acc:%d:rs(list)' % h, (call(asig.response_series, response_times=rt_list), state(asig), canon(rt_list)))
        add('acc:%d:rs(xi)' % h, (call(asig.response_series, xi=0.2), state(asig)))
        add('acc:%d:rs(pos)' % h, (call(asig.response_series, np.array([0.1, 0.7, 3.0]), 0.0), state(asig)))
        add('acc:%d:spec' % h, (call(asig.gen_response_spectrum), state(asig), canon(asig.s_a), canon(asig.s_d)))
        add('acc:%d:rs-after-spec' % h, (call(asig.response_series, xi=-1), state(asig)))
        add('acc:%d:rs-after-spec-times' % h, (call(asig.response_series, [0.0, 0.4]), state(asig)))
        asig.gen_response_spectrum(xi=0.3)
        asig.reset_values(asig.values * 2.0)
        add('acc:%d:rs-after-reset' % h, (call(asig.response_series, response_times=(0.0, 1.0)), state(asig)))
        asig.add_constant(0.1)
        add('acc:%d:rs-after-add' % h, (call(asig.response_series, None, -1), state(asig)))
        add('acc:%d:uke' % h, call(sdof.calc_resp_uke_spectrum, asig, periods=[0.3, 1.0], xi=0.1))
        add('acc:%d:uke-default' % h, call(sdof.calc_resp_uke_spectrum, asig))
        add('acc:%d:ie' % h, call(sdof.calc_input_energy_spectrum, asig, periods=np.array([0.3, 1.0]), series=True))
        add('acc:%d:ie-default' % h, (call(sdof.calc_input_energy_spectrum, asig), state(asig)))

    # a verbose object (prints go to stdout, captured and compared)
    import contextlib
    import io
    buf = io.StringIO()
    with contextlib.redirect_stdout(buf):
        vsig = eqsig.AccSignal(rng.standard_normal(30), 0.02, verbose=1)
        r1 = call(vsig.response_series, [0.0, 0.2, 1.0], 0.3)
        r2 = call(vsig.gen_response_spectrum, xi=0.1)
        r3 = call(vsig.response_series)
    add('acc:verbose', (r1, r2, r3, state(vsig), buf.getvalue()))

    # attribute assignment goes through the response_times setter (cache flag is dropped)
    psig = eqsig.AccSignal(rng.standard_normal(30), 0.02)
    psig.gen_response_spectrum()
    s1 = state(psig)
    psig.response_times = [0.5, 1.0]
    s2 = state(psig)
    add('acc:setter', (s1, s2, call(psig.response_series), state(psig)))

    # the class layout seen from outside
    asig = eqsig.AccSignal(np.arange(5.0), 0.1)
    add('acc:isinstance', (isinstance(asig, eqsig.Signal), isinstance(asig, eqsig.AccSignal),
                           sorted(k for k in vars(asig))))
    return res


# --------------------------------------------------------------------------------------------------
# driver
# --------------------------------------------------------------------------------------------------
def child(root, dump):
    sys.path.insert(0, root)
    os.chdir(root)
    import eqsig
    assert os.path.abspath(eqsig.__file__).startswith(os.path.abspath(root) + os.sep), (eqsig.__file__, root)
    with open(dump, 'wb') as f:
        pickle.dump(run_cases(), f)


def main():
    tmp = tempfile.mkdtemp(prefix='equiv_C01_', dir='/tmp')
    try:
        orig_root = os.path.join(tmp, 'orig')
        os.makedirs(orig_root)
        subprocess.check_call('git archive HEAD eqsig | tar -x -C "%s"' % orig_root, shell=True, cwd=WORKTREE)
        dumps = {}
        for name, root in (('orig', orig_root), ('edit', WORKTREE)):
            dump = os.path.join(tmp, name + '.pkl')
            env = dict(os.environ)
            env.pop('PYTHONPATH', None)
            env['PYTHONDONTWRITEBYTECODE'] = '1'
            subprocess.check_call([sys.executable, os.path.abspath(__file__), '--child', root, dump], env=env, cwd=root)
            with open(dump, 'rb') as f:
                dumps[name] = pickle.load(f)
        a, b = dumps['orig'], dumps['edit']
        bad = []
        if len(a) != len(b):
            bad.append('different number of cases: %d vs %d' % (len(a), len(b)))
        for (la, va), (lb, vb) in zip(a, b):
            if la != lb or va != vb:
                bad.append(la)
        n_ok = sum(1 for (l, v) in a if isinstance(v, tuple) and len(v) and isinstance(v[0], tuple) and v[0][0] == 'ok')
        print('focus: %s; cases: %d (direct calls returning normally: %d); mismatches: %d' % (FOCUS, len(a), n_ok, len(bad)))
        for l in bad[:30]:
            print('  MISMATCH', l)
        return 1 if bad else 0
    finally:
        shutil.rmtree(tmp, ignore_errors=True)


if __name__ == '__main__':
    if len(sys.argv) == 4 and sys.argv[1] == '--child':
        child(sys.argv[2], sys.argv[3])
        sys.exit(0)
    sys.exit(main())

"""Confirm a candidate seeded change and run the checks against it.

usage: eval_seeded.py <dir with mutK.diff/demoK.py/noteK.json> <property id> [--all-props]
Everything happens in a scratch git worktree of /repo outside /repo and /verif, removed afterwards.  The demonstrations
(which execute eqsig) are triage of the *seeded change*, never part of a check."""
import json
import os
import shutil
import subprocess
import sys
import tempfile

VERIF = os.path.dirname(os.path.dirname(os.path.abspath(__file__)))
PY = "/venv/bin/python"


def sh(cmd, cwd=None, timeout=900, env=None):
    r = subprocess.run(cmd, cwd=cwd, shell=isinstance(cmd, str), capture_output=True, text=True, timeout=timeout, env=env)
    return r.returncode, (r.stdout + r.stderr)


def evaluate(diff, demo, pid, all_props=False, wt=None):
    """wt: the scratch worktree the change was written for (demos may hard-code its path); it is left clean afterwards."""
    out = {"diff": diff, "property": pid}
    own = wt is None
    if own:
        wt = tempfile.mkdtemp(prefix="eqsig_seed_")
        os.rmdir(wt)
        rc, o = sh(["git", "-C", "/repo", "worktree", "add", "-q", "--detach", wt, "HEAD"])
        if rc:
            out["error"] = "worktree: " + o
            return out
    try:
        sh(["git", "checkout", "--", "."], cwd=wt)
        sh(["git", "clean", "-fdq", "eqsig"], cwd=wt)
        env = dict(os.environ, PYTHONPATH=wt, PYTHONDONTWRITEBYTECODE="1")
        rc, o = sh([PY, demo], cwd=wt, env=env, timeout=600)
        out["demo_clean"] = rc
        rc, o = sh(["git", "apply", diff], cwd=wt)
        if rc:
            out["error"] = "git apply: " + o[-300:]
            return out
        rc, o = sh([PY, "-m", "pytest", "-q", "-p", "no:cacheprovider", "-x"], cwd=wt, env=env, timeout=900)
        out["tests_rc"] = rc
        out["tests_tail"] = o.strip().splitlines()[-1] if o.strip() else ""
        rc, o = sh([PY, demo], cwd=wt, env=env, timeout=600)
        out["demo_mutated"] = rc
        out["demo_tail"] = o.strip().splitlines()[-1][:200] if o.strip() else ""
        props = [pid] if not all_props else ["C%02d" % i for i in range(1, 21)]
        out["checks"] = {}
        ev = tempfile.mkdtemp(prefix="eqsig_seed_ev_")
        env2 = dict(os.environ, VERIF_EVIDENCE_DIR=ev, VERIF_REPLAY_DIR=ev)
        for p in props:
            rc, o = sh([os.path.join(VERIF, "check"), p, "--repo", wt], env=env2, timeout=300)
            lines = [l for l in o.splitlines() if l.startswith(("REFUTED", "INCONCLUSIVE", "ANALYSIS-ERROR"))]
            out["checks"][p] = {"exit": rc, "lines": [l[:260] for l in lines[:4]]}
        shutil.rmtree(ev, ignore_errors=True)
        out["confirmed"] = out.get("demo_clean") == 0 and out.get("tests_rc") == 0 and out.get("demo_mutated") not in (0, None)
        out["caught"] = out["checks"].get(pid, {}).get("exit") == 1
        out["caught_by_any"] = [p for p, v in out["checks"].items() if v["exit"] == 1]
        return out
    finally:
        sh(["git", "checkout", "--", "."], cwd=wt)
        sh(["git", "clean", "-fdq", "eqsig"], cwd=wt)           # files a change added
        sh("find . -name __pycache__ -prune -exec rm -rf {} +", cwd=wt)
        if own:
            sh(["git", "-C", "/repo", "worktree", "remove", "--force", wt])
            shutil.rmtree(wt, ignore_errors=True)


if __name__ == "__main__":
    d, pid = sys.argv[1], sys.argv[2]
    allp = "--all-props" in sys.argv
    wt = os.path.dirname(os.path.abspath(d)) if os.path.isdir(os.path.join(os.path.dirname(os.path.abspath(d)), "eqsig")) else None
    res = []
    for k in (1, 2, 3):
        diff, demo = os.path.join(d, "mut%d.diff" % k), os.path.join(d, "demo%d.py" % k)
        if os.path.exists(diff) and os.path.exists(demo):
            r = evaluate(diff, demo, pid, allp, wt)
            res.append(r)
            print(json.dumps(r, indent=1))

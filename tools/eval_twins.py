"""Evaluate behaviour-preserving refactorings ("twins") written by independent sub-agents: the checks must stay silent.

usage: eval_twins.py <worktree>/out <property id>
For each twinK.diff / equivK.py: apply in the scratch worktree, run the 63 tests, run the author's equivalence program (compares
the edited functions with the original source on many inputs; must exit 0), run all 20 checks with --repo <worktree>, restore.
The equivalence programs execute eqsig: they are triage of the *edit*, never part of a check."""
import json
import os
import shutil
import subprocess
import sys
import tempfile

VERIF = os.path.dirname(os.path.dirname(os.path.abspath(__file__)))
PY = "/venv/bin/python"


def sh(cmd, cwd=None, timeout=900, env=None):
    r = subprocess.run(cmd, cwd=cwd, shell=isinstance(cmd, str), capture_output=True, text=True, timeout=timeout, env=env)
    return r.returncode, (r.stdout + r.stderr)


def evaluate(diff, equiv, pid, wt):
    out = {"diff": diff, "property": pid}
    try:
        sh(["git", "checkout", "--", "."], cwd=wt)
        sh(["git", "clean", "-fdq", "eqsig"], cwd=wt)
        env = dict(os.environ, PYTHONPATH=wt, PYTHONDONTWRITEBYTECODE="1")
        rc, o = sh(["git", "apply", diff], cwd=wt)
        if rc:
            out["error"] = "git apply: " + o[-300:]
            return out
        rc, o = sh([PY, "-m", "pytest", "-q", "-p", "no:cacheprovider", "-x"], cwd=wt, env=env, timeout=900)
        out["tests_rc"] = rc
        rc, o = sh([PY, equiv], cwd=wt, env=env, timeout=900)
        out["equiv_rc"] = rc
        out["equiv_tail"] = o.strip().splitlines()[-1][:200] if o.strip() else ""
        out["checks"] = {}
        ev = tempfile.mkdtemp(prefix="eqsig_twin_ev_")
        env2 = dict(os.environ, VERIF_EVIDENCE_DIR=ev, VERIF_REPLAY_DIR=ev)
        for p in ["C%02d" % i for i in range(1, 21)]:
            rc, o = sh([os.path.join(VERIF, "check"), p, "--repo", wt], env=env2, timeout=300)
            lines = [l for l in o.splitlines() if l.startswith(("REFUTED", "INCONCLUSIVE", "ANALYSIS-ERROR"))]
            if rc != 0:
                out["checks"][p] = {"exit": rc, "lines": [l[:300] for l in lines[:4]]}
        shutil.rmtree(ev, ignore_errors=True)
        out["valid"] = out["tests_rc"] == 0 and out["equiv_rc"] == 0
        out["alarms"] = sorted(p for p, v in out["checks"].items() if v["exit"] == 1)
        out["inconclusive"] = sorted(p for p, v in out["checks"].items() if v["exit"] not in (0, 1))
        return out
    finally:
        sh(["git", "checkout", "--", "."], cwd=wt)
        sh(["git", "clean", "-fdq", "eqsig"], cwd=wt)           # files a change added
        sh("find . -name __pycache__ -prune -exec rm -rf {} +", cwd=wt)


if __name__ == "__main__":
    d, pid = os.path.abspath(sys.argv[1]), sys.argv[2]
    wt = os.path.dirname(d)
    for k in (1, 2, 3, 4):
        diff, eq = os.path.join(d, "twin%d.diff" % k), os.path.join(d, "equiv%d.py" % k)
        if os.path.exists(diff) and os.path.exists(eq):
            r = evaluate(diff, eq, pid, wt)
            print("%s valid=%s tests=%s equiv=%s ALARMS=%s INCONCLUSIVE=%s %s" % (os.path.basename(diff), r.get("valid"), r.get("tests_rc"), r.get("equiv_rc"),
                                                                                r.get("alarms"), r.get("inconclusive"), r.get("error", "")))
            for p, v in r.get("checks", {}).items():
                for l in v["lines"][:3]:
                    print("     ", p, "exit", v["exit"], l[:260])
            json.dump(r, open(os.path.join(d, "eval%d.json" % k), "w"), indent=1)

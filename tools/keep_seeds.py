"""Evaluate the sub-agents' candidate changes of one seeding round (tools/eval_seeded.py: applies in the scratch
worktree, runs the 63 tests, the demonstration with and without the change, all 20 checks, restores) and keep the
confirmed ones as seeded/<prop>-r<round>-m<k>/ (patch.diff, demo.py, meta.json).  Usage: keep_seeds.py <round> [<root>]
where <root>/<prop>/out holds mut<k>.diff, demo<k>.py, note<k>.json.  Re-running after a check was strengthened keeps
the first-run outcome in checks.history."""
import json, os, shutil, subprocess, sys
sys.path.insert(0,'/verif/tools')
import eval_seeded as E
round_=sys.argv[1]
root=sys.argv[2] if len(sys.argv)>2 else '/tmp/seed%s'%(round_ if round_!='1' else '')
only=set(sys.argv[3].split(',')) if len(sys.argv)>3 else None
rows=[]
for p in ["C%02d"%i for i in range(1,21)]:
    if only and p not in only: continue
    d='%s/%s/out'%(root,p)
    for k in (1,2):
        diff=os.path.join(d,'mut%d.diff'%k); demo=os.path.join(d,'demo%d.py'%k); note=os.path.join(d,'note%d.json'%k)
        if not (os.path.exists(diff) and os.path.exists(demo)): continue
        r=E.evaluate(diff,demo,p,True,os.path.dirname(d))
        sid='%s-r%s-m%d'%(p,round_,k)
        rows.append((sid,r.get('confirmed'),r.get('caught'),r.get('caught_by_any')))
        if not r.get('confirmed'): continue
        out='/verif/seeded/%s'%sid
        os.makedirs(out,exist_ok=True)
        shutil.copy(diff,os.path.join(out,'patch.diff')); shutil.copy(demo,os.path.join(out,'demo.py'))
        try: n=json.load(open(note))
        except Exception: n={}
        meta={"id":sid,"property":p,"what":n.get("what"),"needs":n.get("needs"),"files":n.get("files"),"functions":n.get("functions"),
              "author":"independent sub-agent given only the property text and a scratch worktree (round %s)"%round_,
              "confirmed":{"tests_with_change":"63 passed (pytest rc %s)"%r.get('tests_rc'),"demo_clean_rc":r.get('demo_clean'),"demo_with_change_rc":r.get('demo_mutated'),
                           "demo_message":r.get('demo_tail')},
              "ran":"tools/eval_seeded.py: git apply in the scratch worktree, pytest -q, demo with and without the change, ./check <all 20> --repo <worktree>, git checkout -- .",
              "checks":{"caught_by_own_property":r.get('caught'),"caught_by":r.get('caught_by_any'),
                        "first_report":(r['checks'].get(p,{}).get('lines') or [None])[0]}}
        mp=os.path.join(out,'meta.json')
        first='reported by the checks as they stood before the round' if r.get('caught') else 'missed by the checks as they stood before the round'
        if os.path.exists(mp):
            old=json.load(open(mp)).get('checks',{}).get('history','')
            if old.startswith('missed') and r.get('caught'):
                first='missed by the checks as they stood before the round; reported after strengthening (DESIGN.md 9)'
            elif old: first=old
        meta['checks']['history']=first
        json.dump(meta,open(mp,'w'),indent=1)
for row in rows: print(row)
print(sum(1 for r in rows if r[1]),'confirmed;',sum(1 for r in rows if r[1] and r[2]),'caught by own property;',sum(1 for r in rows if r[1] and r[3]),'caught by any')

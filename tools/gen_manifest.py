"""Generates MANIFEST.json from the per-property table below (kept next to the code so they cannot drift)."""
import json
import os

VERIF = os.path.dirname(os.path.dirname(os.path.abspath(__file__)))
ids = [json.loads(l)["id"] for l in open(os.path.join(VERIF, "properties.jsonl"))]

# id -> (technique, level text, level note)  -- only properties with a built check
CLAIMS = {
    "C04": ("typestate analysis (write => invalidate must-pass-through) over an abstract interpretation of every "
            "method of Signal/AccSignal; cache model (flags, producers, storage, read sets) extracted from the tree",
            "Decides the cache *protocol*: on every path of every method (all receivers, option parameters "
            "unconstrained), a write to anything a cached quantity reads - by rebinding, in place, or through an alias - "
            "is followed by invalidation or recomputation before the normal exit; clear_cache completeness; settings "
            "are invalidating properties; getters are pure; npts pairing; constructor state. This covers every history "
            "because staleness can only arise from a method that breaks the protocol. It does not establish numerical "
            "equality with a fresh object.",
            "Trusted: API table rows in sa/api.py; receiver/parameter role tables in sa/autoargs.py; explicit "
            "parameterised regeneration (gen_fa_spectrum(p2_plus=..), gen_response_spectrum(xi=..)) is by design not "
            "staleness. Not decided: numerical equality of derived values."),
    "C05": ("effect/ownership analysis: origin (alias) tracking through an abstract interpretation of all 190+ "
            "functions and methods; mutation sites enumerated from the grammar and the API table",
            "Decides, for every function and method of the package on all paths, that no in-place effect reaches a value "
            "aliasing a parameter (callee effects included), that every store to a signal's values is a fresh ndarray "
            "(ownership, kind, npts pairing; after reset_values with an array of another length npts is the new length on both signal classes), "
            "that time = dt*arange(npts) and is a fresh array on every read, and that no global "
            "state / RNG is used; parameters a function itself treats as possibly array-valued are analysed both as scalars and "
            "as arrays; out= is an in-place effect for every API row. "
            "Bit-for-bit equality of results follows from these plus NumPy determinism, which is assumed, not shown.",
            "Trusted: API table aliasing rows (np.array copies, np.asarray aliases, slicing views, overwrite_x only "
            "destroys complex input); records are real-valued; parameter role tables."),
    "C08": ("type inference by abstract interpretation (length / linearity / degree-in-dt / first-element / quadrature-tag domains) "
            "of both branches of the array function, the lazy object properties and the peak functions",
            "Derives for every record and dt, per branch of trap: velocity and displacement have the record's length, start at "
            "exactly zero, are linear in the record, of degree 1 resp. 2 in dt (so displacement integrates velocity), and are "
            "built by trapezoid resp. rectangle quadrature only; the object properties are these results for (values, dt); the explicit generator stores "
            "the requested quadrature whatever the cache state on entry; integer-typed records are not truncated; "
            "PGA/PGV/PGD are even, non-negative, degree-1 absolute maxima of the right series. Increment identities hold to "
            "the extent the SciPy row for cumulative_trapezoid is right; bit-level values are not examined.",
            "Trusted: API rows cumulative_trapezoid/cumsum/zeros/slicing; absolute-maximum idiom table (sa/idioms.py)."),
    "C09": ("type inference by abstract interpretation: one typing obligation per cumulative measure "
            "(length, monotone, sign, degree in record and dt, parity, quadrature kind, source series)",
            "Derives for all records at once that each of the seven series has the record's length, is non-negative and "
            "non-decreasing, is even in the record, scales as alpha^2 or |alpha| and with the stated power of dt, and uses the "
            "stated quadrature on the stated source; for standardised CAV: length, non-negativity, monotonicity (accumulator "
            "argument), the 0.025 g gate on the window's peak |a| over the window itself; every measure reads the "
            "signal through its managed interface only (no snapshot attribute that no cache clears). Final numerical values are "
            "not examined.",
            "Trusted: API rows; literal constants are compared with the numbers in the property statement (9.81, 0.025)."),
    "C10": ("abstract interpretation with comparison-site enumeration: strictness and orientation of every threshold "
            "comparison, equal-degree (scale-invariance) typing of both sides, first/last-of-same-index-array provenance",
            "Decides the structure of the masks for every record: both significant-duration comparisons are strict with start on "
            "the lower and end on the upper side (also through the deprecated forwarders), both sides have equal degree and even "
            "parity so the result is scale- and sign-invariant and proportional to dt, start/end are the first/last element of "
            "one ascending index array in (start, end) order with a non-negative difference, the user measure is honoured, the "
            "bracketed fallback is taken exactly on an empty exceedance set, and the record is read through the signal's managed "
            "interface only (no snapshot attribute such as arias_intensity_series), and on a record used before the series compared with "
            "the bounds is the value the supplied measure returned in this call (nothing memoised on the record can be searched instead). "
            "Shift-by-k and widening corollaries are consequences for monotone measures (typed in C09), not checked directly.",
            "Trusted: API rows np.where/cumsum/cumulative_trapezoid; user-supplied measure modelled as an opaque positive-homogeneous value."),
    "C01": ("syntax-tree rules + polynomial normal form (with interpreted exp/sin/cos/sqrt applications) compared against a "
            "reference table of the Nigam-Jennings closed forms + def-use tags from abstract interpretation",
            "Decides the structure of the whole computation: (i) each of the eight entries of the propagator matrices returned by "
            "compute_a_and_b equals the published closed form as a rational function of xi, w, dt, E=exp(-xi w dt), Q=sqrt(1-xi^2), "
            "S/C=sin/cos(w Q dt) (temporaries inlined; sqrt(1-S^2) is |C|, not C); (ii) the recurrence is x[i+1] = A x[i] + "
            "B (load[i], load[i+1]) for every step, with (A, B) = compute_a_and_b(xi, w, dt) by role and load = minus the record; "
            "(iii) the T=0 handling (offset, row slices, row 0 = minus the record); (iv) the third series is -2*xi*w*v - w^2*u on both "
            "branches with w = c/T, c = 2*pi to 1e-6; (v) both wrappers forward by role, the damping sentinel is the single default "
            "literal. Together: the code IS the exact one-step solution for a piecewise-linear record. The rounding-error bound of the "
            "statement (1e-6 + ...) is numerical and is NOT decided.",
            "Trusted: the reference table NJ_REF in sa/props/c01.py (compared once by hand with the matrix exponential, outside any "
            "check); algebraic independence of transcendentals of rationally independent arguments. Not decided: tolerances, the "
            "effect of the truncated constant 6.2831853."),
    "C02": ("type inference (linearity domain, fixed point over the recurrence loop) + index-offset analysis of the loop + "
            "element-wise audit of every operation reached on period-indexed data",
            "Derives for all inputs: the three series are linear in the record (coefficients independent of it, zero initial "
            "state), spectra are degree-1 and even; the recurrence is causal (state reads strictly before, record reads at or "
            "before the stored column), time-invariant (coefficients loop-invariant, column 0 never stored, np.zeros state), and "
            "period-wise independent (only element-wise calls, basic slices, axis=1 reductions and shape-consistent stores touch "
            "the period axis). Linear + causal + time-invariant + zero state gives the shift clause. Refinement invariance is a "
            "numerical consequence of C01's exactness and is not decided.",
            "Trusted: API rows; element-wise / reduction tables in sa/props/c02.py; a vectorised rewrite of the loop is inconclusive, not refuted."),
    "C03": ("def-use provenance tags, relative-degree typing with a stubbed response, comparison normal forms, kind lattice, "
            "path enumeration by branch oracle",
            "Decides: which response series each spectrum derives from and that every unpacking site binds position k to role k "
            "(incl. ASI/VSI and the object's s_d/s_v/s_a); pseudo S_v/S_a have degree 1/2 in w=2*pi/T relative to S_d; the PGA mask "
            "is periods < 6*dt (strict) substituting the record's absolute maximum into S_a only, identically in both functions; "
            "list/tuple period containers raise no TypeError; gen_response_spectrum never mixes interpolated values with the "
            "original dt, interpolates exactly when target_dt < dt, target_dt = max(T_min/20, dt/min_dt_ratio); energy spectra "
            "are degree 2, built from the velocity response with one factor dt. Peak and energy *values* are not decided.",
            "Trusted: API rows; absolute-maximum idiom table."),
    "C06": ("type inference + global value numbering of symbolic lengths for three-way sibling agreement + package-wide sweep "
            "for ordering operations on complex data",
            "Decides: spectrum complex, linear, degree +1 in dt; grid real, degree -1, from 0, arange(points)/(2*points*dt); both of "
            "length int(N/2) for the N passed as FFT length; the FFT input is the values themselves; the three implementations agree "
            "per configuration (default next power of two, p2_plus, explicit n, unpadded N=npts); inverse helpers are linear, "
            "degree -1 in dt, rebuild the upper half by flip(conj(.)), leave bins 0 and n/2 zero and are identical siblings; no "
            "ordering operation on complex data anywhere; the dominant period is 1/f at argmax|spectrum|. DFT values, Parseval and "
            "exact reconstruction are delegated to np.fft (trusted), not decided.",
            "Trusted: API rows np.fft.fft/ifft; value numbering treats int(), ceil, log2, ** as uninterpreted functions."),
    "C07": ("polynomial normal form of the window expressions + sign/shape typing + comparison-site enumeration + sibling summaries",
            "Decides: window = (sin(x)/x)**4 in total (any spelling), non-negative, 0/0 entry replaced by literal 1 exactly where "
            "x == 0; x = band*log10(f/fc); normalisation and weighted sum reduce over the same Fourier-frequency axis giving one "
            "value per target frequency; output degree 1, even, non-negative in the spectrum (abs taken); bin 0 dropped from "
            "frequencies and spectrum together; matrix and direct form have equal summaries; forwarders bind by role; bandwidth "
            "limits are first/last index of one strict mask smooth > max*ratio over the same frequency array. Window values and "
            "finiteness under underflow are not decided.",
            "Trusted: API rows; either orientation of f/fc is accepted (the window is even)."),
    "C14": ("rounding-relation domain (>= / <= / integer / reciprocal-integer relative to x = dt/target) with path enumeration "
            "over the three regimes; value numbering for the shared factor",
            "Derives on x>1 an integer factor >= x, on x<1 a reciprocal-integer factor >= x, on x==1 the unrounded factor, hence "
            "new_dt = dt/factor <= target in every regime (round/int/swapped ceil-floor refute); step, abscissa and new_npts use "
            "one factor; np.interp over arange(len(values)) on the values themselves; even=True gives 2*int(./2); the Fourier "
            "resampler follows the same rule; interp_to_approx_dt pairs returned values with returned dt. Floating-point "
            "quotients next to an integer and band-limited exactness are not decided.",
            "Trusted: API rows ceil/floor/int/interp; positivity of dt and target."),
    "C16": ("abstract evaluation of the writer over a text-pattern domain (literals, formatted fields by role, repetitions; every "
            "repetition unrolled twice), derived layout table and writer/reader agreement, taint (dtype.names -> dt), "
            "decision-table exhaustiveness by abstract interpretation",
            "Decides: values written fixed-point with >= 6 decimals, dt >= 4, count as integer; the text written (whatever mix of "
            "line lists, joins, loops and direct writes produces it) is label / '<npts> <dt>' / exactly one value per line with a "
            "newline between any two consecutive writes, file opened truncating, and agrees with the genfromtxt skip arithmetic and the line/token indices of the text reads; returned dt is "
            "parsed from file text and never from sanitised column names; load_signal returns an object for its default and every "
            "literal it tests; load_sig/load_asig classes; m scales values only; label only on request; save_signal forwards by "
            "role. genfromtxt's own parsing is trusted.",
            "Trusted: np.genfromtxt semantics of skip_header/names; records of length 1 (0-d array) are outside the decided part."),
    "C17": ("library-namespace resolution against the installed stubs, decision-table extraction, shape typing with "
            "difference-aware joins, normal-form sibling comparison, loop-carried alias analysis",
            "Decides: every NumPy/SciPy name reachable from the anchored entry points exists; the cut_off None-pattern table "
            "(band/low/high with the right element, Nyquist normalisation, order keyword, all three containers); forward-backward "
            "filtering; length, dt and linearity preserved on every remove_gibbs branch; the two remove_poly implementations have "
            "equal and correct summaries; add_* guards and element-wise sums; the running average never reads the array it is "
            "overwriting, both rolling loops use the floor(w/2) window table (three-way or the equivalent two-way form) and the averaged "
            "record keeps the record's length for any width. Gain, phase and end effects are not decided.",
            "Trusted: SciPy rows butter/filtfilt (zero phase, squared magnitude); libns treats a literal __all__ in numpy's stub as authoritative."),
    "C11": ("truth-table comparison of the max/min direction tests and strides, belief-consistency rule on the direction source, "
            "provenance of the index map, literal/decision tables of the cycle counter",
            "Decides only: 'max' and 'min' take complementary strides of one index array for every sign of one and the same "
            "direction expression (so their union is all reported peaks and their intersection empty), oriented so that a rising "
            "first segment puts maxima at odd positions; that direction is not an adjacent difference of the uncleaned input; "
            "reported indices are np.take(map, cleaned peaks) with map and cleaned array from the same cleaning call and the "
            "detector inserting 0 and len-1 around strictly negative products of differences, all arithmetic on a float copy "
            "(fixed-width integer samples cannot wrap); the cycle counter has the record's "
            "length with the stated 0.5 / -0.25 / 0.0 constants and exhaustive option tables. Soundness and completeness of the "
            "detection over all rise/fall/flat patterns is NOT decided (needs enumeration: another technique family).",
            "Thin claim: necessary structural conditions only."),
    "C12": ("comparison-site enumeration (strictness), taint of the tolerance path, index-coverage analysis of the candidate "
            "lists, selection provenance",
            "Decides only: crossings are strictly negative neighbour products, zeros are `== 0`, adjacent zeros dropped by `> 1`, the "
            "result is the sorted concatenation of exactly those two index sets with 0 prepended when absent; tol > 0 only deletes "
            "(subsequence), tol < 0 raises; in the switched-peak routine every peak index 0..n-1 enters a candidate set with its own "
            "value (no placeholder), the loop appends value and index in lock step over range(1, len), the chosen index is "
            "argmax|.| mapped through the candidates' index list and np.take(peak_indices, .), excursions end on a non-strict "
            "product; the first zero is always kept (literal to_begin > 1, ones-initialised keep mask, or np.diff prepend < -1); a running "
            "(position, value) pair, where the code uses one, is kept paired at every assignment. Exactness over all sign/zero patterns is NOT decided.",
            "Thin claim: necessary structural conditions only."),
    "C13": ("degree inference with one symbolic exponent (Laurent polynomials in b), separate-atom runs for the inverse-pair "
            "bookkeeping, monotone/length typing, event-order rule for the rebase",
            "Derives for all series and all b: cycles have degree 0 and amplitudes degree (1/b)*b = 1 when record and reference "
            "scale together, all even; cycles ~ peak^(1/b)*a_ref^(-1/b) and amplitudes ~ N^(-b) with the same half-cycle weight; "
            "results have the record's length, are non-negative, amplitudes non-decreasing; both peak-only series rebase a fresh "
            "copy before cleaning, take the orienting sign from the cleaned array and scatter through the index map of the same cleaning "
            "call into zeros of the input's length. "
            "The conservation identities (total variation, signed sum), the 2^b relation and the numerical inverse are NOT decided.",
            "Trusted: API rows; documented exception: a literal <= 1e-12 selected by np.where stands for zero."),
    "C15": ("library-call skeleton comparison of the two implementations (value-numbered lengths), linearity/dtype/shape typing, "
            "abs-before-ordering and axis checks",
            "Decides only: both transforms have the same skeleton (even truncation as FFT length on the record itself, conj on the "
            "first Toeplitz argument only, rows 1:n/2+1, Gaussian window, inverse FFT along axis 1, flipud) and are linear, complex, "
            "(n/2) x n; the inverse is linear, sums over time, rebuilds the Hermitian halves leaving bins 0 and n/2 zero and returns "
            "the real part; dominant-frequency helpers take argmax(abs(.), axis=0) through a flipped frequency axis of degree -1 in "
            "dt; the shared voice window is exp(-(2 pi f_m/f_k)^2/2) over FFT-ordered signed frequencies with k from 1 (normal form "
            "against a reference spelling, so a changed width or missing square refutes). The conjugation convention against the "
            "textbook definition, the marginal and the inverse to rounding are NOT decided.",
            "Thin claim; trusted: API rows fft/ifft/toeplitz."),
    "C18": ("polynomial normal form of the rotation, def-use of the scan's loop variable, loop-variable selection rule over the "
            "Cluster loops, path enumeration for the master guard",
            "Decides: combination = ns*cos(rad(angle)) + we*sin(rad(angle)) exactly, returned as an AccSignal with the first "
            "component's dt; the scan uses linspace(0-off, 180-off, points), combines at degrees[loop variable] in (ns, we) order and "
            "appends exactly one measure of that combination per iteration; in every Cluster loop the signal touched is selected "
            "by the loop variable (or is the master); on the path loop variable == master_index nothing is modified; the "
            "same-start correction is values - slave_average + master_average over one window with the master average taken from "
            "master_index; time_match hands an ndarray back (via reset_values); no state is carried from one signal's iteration to the next; the "
            "lag search has both directions over range(steps) with windows [i:i-steps] / [0:-steps] on different arrays, lag sign "
            "by which array is padded, every candidate lag competes with the running minimum (no if/elif between candidates), and it is "
            "left early only on the master test or a test of the selected lag; a series-valued attribute name is appended whole by the scan. That the residual "
            "minimum is the true lag is NOT decided.",
            "Trusted: API rows; Cluster modelled by allocation-site summary objects."),
    "C19": ("degree/parity/sign/monotone typing over all option combinations, normal forms of the wave construction and sign "
            "tables, sibling summary equality, axis audit of reducing calls on the batch",
            "Derives: energy = 0.5*v*|v| of the integrated velocity, degree 2 and odd; cumulative absolute change degree 2, even, "
            "non-negative, non-decreasing along time; trimmed rows have length npts, a scalar travel time returns one row; nodal = "
            "up - down, anti-nodal = up + down with up the zero-padded record and down np.interp(arange - 2*tt/dt, left=0, right=0); "
            "both functions build the waves identically with up_red on the upward and down_red on the delayed wave; every "
            "reducing/cumulative call on the (travel times x time) array works along time; join tables add/sub. Placement arithmetic "
            "of put_array_in_2d_array / trim_to_length is NOT decided.",
            "Trusted: API rows interp/pad/cumulative_trapezoid."),
    "C20": ("parity inference instantiated over the documented powers, slice-bound value numbering, normal forms, decision-table "
            "comparison of the two NZS functions, literal constant folding at breakpoints",
            "Decides: the step-fit error is even in the data and of degree p for p in {1,2}; levels are means of values[:ind] and "
            "values[ind+1:], default split the argmin; the rolling average keeps the length on all modes, is linear, uses one `steps` "
            "for lag and divisor, pads with replicated edge values on the right side(s); interp_left = searchsorted(x, x0, "
            "side='right') - 1 with scalar in/out; c_h_factor and sd_nzs have identical breakpoints and sd = c_h * T^2 per interval, "
            "Z*N*R once, t_eff corner constants consistent; adjacent c_h branches agree within 1 % at breakpoints; interp2d is "
            "(1-s) f[lower] + s f[upper] with the stated weight, bracket and clamping and forms no row difference in an integer "
            "table's own dtype; integer data is not truncated (one known finding, K1: calc_step_fn_vals_error's buffer). The NZS "
            "numbers themselves against the standard are NOT decided.",
            "Trusted: API rows; NZS continuity folds only literals of the tree (no eqsig code is run). Known finding K1 in "
            "known_findings.json (prints KNOWN-FINDING, exit 0)."),
}
NOT_YET = "check not built yet (build in progress, see DESIGN.md section 8)"

m = {
    "version": 1,
    "setup_cmd": "true",
    "hooks": {"guard": "ENG_TOOLS_EQSIG_VERIF",
              "enable": "no hooks: every check is static (ast over /repo's working tree) and never executes eqsig",
              "baseline_off_cmd": "cd /repo && /venv/bin/python -m pytest -q -p no:cacheprovider",
              "source_commits": [], "add_only": True},
    "engines": [{"name": "sa", "path": "sa/", "serves_properties": sorted(CLAIMS),
                 "kind_free_text": "repository-specific static analyser: ast loader/resolver with a syntax-tree normaliser "
                                   "(new-helper inlining, equivalent spellings; a no-op on the pinned tree), abstract interpreter "
                                   "(origin/kind/shape/degree/linearity/parity/sign/monotone/piece-structure domains), typestate "
                                   "facts, branch-oracle and scenario runs, polynomial normal forms, NumPy/SciPy API table"}],
    "checks": [],
    "notes": "All checks: ./check <id> [--tier quick|thorough]; exit 0 held / 1 VIOLATION / 2 ANALYSIS-ERROR "
             "(inconclusive, never a pass). Self-test of the rules: python -m selftest.run (about 900 planted variants, the 160+ seeded "
             "changes kept under seeded/, see seeded/MATRIX.md, and the 291 behaviour-preserving twins kept under twins/, which must "
             "never answer exit 1; honest exit-2 pairs are listed with reasons in twins/known_inconclusive.json). known_findings.json: one known finding (K1, C20), fourteen fixed.",
    "not_applicable": [],
}
# clauses added in the later rounds (DESIGN.md 9.14-9.20), appended to the level text of the property they belong to
ADDENDA = {
    "C01": " Also: the T = 0 selector is located or inconclusive; a located selector with a non-zero threshold is refuted.",
    "C02": " Also (R-CALLS): the response functions have no in-place effect on their arguments (results do not depend on the calls made before).",
    "C04": " Also (R-OWNS): constructor and reset_values store a fresh array, so no write that bypasses the object's invalidation reaches its values.",
    "C08": " Also: a record given as a list reaches array routines before any `+` / `*` (list + list concatenates); R-OWNS as in C04; a running sum of adjacent pair sums times h/2 is typed as the trapezoid rule.",
    "C09": " Also: integer-typed records (no real partial sum lands in a buffer that inherits the integer dtype); the per-second running total of CAVdp is recorded after the window's contribution is added.",
    "C10": " Also: the index array of the crossing mask is read at [0] and [-1] only; a bisection (np.searchsorted) applied to a caller-supplied measure that nothing makes ascending is a violated library precondition. The deprecated AccSignal.generate_duration_stats is analysed as a second implementation of the bracketed durations (strict exceedance, thresholds 0.01/0.05/0.10 g, (last - first) of one selection, forwarding to calc_sig_dur_vals); crossings located by np.searchsorted use side='right' for the lower and 'left' for the upper bound; the default measure searched has one entry per sample; R-LIBNS for the anchored functions (F17).",
    "C11": " Also: the plateau cleaner keeps exactly the samples whose exact difference to the predecessor is non-zero (no edit of the differences before the test, no tolerance). The turning test pairs adjacent differences (slices [1:] and [:-1] of one array); the cycle counter's origin node and its numbers (an arithmetic progression, with located wrong shapes) are read off the piece / progression domains.",
    "C12": " Also: the exact plateau-cleaner rule of C11 (the switched peaks are chosen among its output). A literal result is returned only when the index set is empty (decided with keep_adj_zeros=True).",
    "C13": " Also: the exact plateau-cleaner rule of C11; a count of peaks up to a sample read with np.searchsorted(peaks, arange(n)) uses side='right'.",
    "C07": " Also: literal positions other than [0] / [-1] on the index array of the mask and near misses of the last-True idiom (len - k - argmax(reversed), k != 1) are refuted; the direct form may delegate its window to the matrix form. The 0/0 replacement has located wrong instances (another constant stored through the == 0 mask, np.nan_to_num, sin(x)/x with no zero handling anywhere); targets handed to gen_smooth_fa_spectrum are the ones smoothed at and the ones kept on the object (state of the receiver at exit).",
    "C06": " Also: the spacing rule reads the grid as arange(points) / (X * dt) or np.linspace(0, S, count, endpoint=False) and compares X (resp. 2 * count) with the FFT length as symbolic integers over sample lengths (F15); R-LIBNS for the anchored functions (F17).",
    "C19": " Also: no entries of the summed wave are overwritten before it is integrated.",
    "C17": " Also (R-BP-LEN alignment): the offset at which the record is embedded in the padded buffer (slice store, np.concatenate, np.pad) equals the offset at which the filtered buffer is cropped -- compared as symbolic integers and, when the expressions differ, constant-folded over sample lengths for a witness. The record's window [offset, offset + n) lies inside the padded buffer for every record length (constant-folded over sample lengths).",
}
POLICY = (" Verdict policy (DESIGN.md 9.19, 9.23): a rule refutes only on a definite contradicting component or a located wrong construct; what is not derived, "
          "or a construct the rule cannot locate (a redesign), is answered exit 2 (inconclusive), never exit 1 and never exit 0.  Every property also carries "
          "R-API (positional order of the observed entry points), R-LIBNS (the NumPy/SciPy names referenced by the functions its analyses enter exist in the "
          "installed library) and the generic [well-typed] / [broadcast] / [initialised] obligations of every analysis.")
for i in ids:
    if i in CLAIMS:
        tech, text, note = CLAIMS[i]
        text = text + ADDENDA.get(i, "")
        note = note + POLICY
        m["checks"].append({
            "property_id": i, "quick_cmd": "./check %s --tier quick" % i,
            "thorough_cmd": "./check %s --tier thorough" % i,
            "evidence_file": "/verif/evidence/%s.json" % i,
            "replay_cmd_template": "./check %s --replay {path}" % i, "engine": "sa",
            "level_claimed": {"category": "other", "text": text, "design_ref": "DESIGN.md section 4, " + i},
            "level_note": note, "technique": "static analysis: " + tech})
    else:
        m["not_applicable"].append({"property_id": i, "reason": NOT_YET})
json.dump(m, open(os.path.join(VERIF, "MANIFEST.json"), "w"), indent=1)
print("checks:", [c["property_id"] for c in m["checks"]])

"""Generates MANIFEST.json from the per-property table below (kept next to the code so they cannot drift)."""
import json
import os

VERIF = os.path.dirname(os.path.dirname(os.path.abspath(__file__)))
ids = [json.loads(l)["id"] for l in open(os.path.join(VERIF, "properties.jsonl"))]

# id -> (technique, level text, level note)  -- only properties with a built check
CLAIMS = {
    "C04": ("typestate analysis (write => invalidate must-pass-through) over an abstract interpretation of every "
            "method of Signal/AccSignal; cache model (flags, producers, storage, read sets) extracted from the tree",
            "Decides the cache *protocol*: on every path of every method (all receivers, option parameters "
            "unconstrained), a write to anything a cached quantity reads - by rebinding, in place, or through an alias - "
            "is followed by invalidation or recomputation before the normal exit; clear_cache completeness; settings "
            "are invalidating properties; getters are pure; npts pairing; constructor state. This covers every history "
            "because staleness can only arise from a method that breaks the protocol. It does not establish numerical "
            "equality with a fresh object.",
            "Trusted: API table rows in sa/api.py; receiver/parameter role tables in sa/autoargs.py; explicit "
            "parameterised regeneration (gen_fa_spectrum(p2_plus=..), gen_response_spectrum(xi=..)) is by design not "
            "staleness. Not decided: numerical equality of derived values."),
    "C05": ("effect/ownership analysis: origin (alias) tracking through an abstract interpretation of all 190+ "
            "functions and methods; mutation sites enumerated from the grammar and the API table",
            "Decides, for every function and method of the package on all paths, that no in-place effect reaches a value "
            "aliasing a parameter (callee effects included), that every store to a signal's values is a fresh ndarray "
            "(ownership, kind, npts pairing), that time = dt*arange(npts), and that no global state / RNG is used. "
            "Bit-for-bit equality of results follows from these plus NumPy determinism, which is assumed, not shown.",
            "Trusted: API table aliasing rows (np.array copies, np.asarray aliases, slicing views, overwrite_x only "
            "destroys complex input); records are real-valued; parameter role tables."),
    "C08": ("type inference by abstract interpretation (length / linearity / degree-in-dt / first-element / quadrature-tag domains) "
            "of both branches of the array function, the lazy object properties and the peak functions",
            "Derives for every record and dt, per branch of trap: velocity and displacement have the record's length, start at "
            "exactly zero, are linear in the record, of degree 1 resp. 2 in dt (so displacement integrates velocity), and are "
            "built by trapezoid resp. rectangle quadrature only; the object properties are these results for (values, dt); "
            "PGA/PGV/PGD are even, non-negative, degree-1 absolute maxima of the right series. Increment identities hold to "
            "the extent the SciPy row for cumulative_trapezoid is right; bit-level values are not examined.",
            "Trusted: API rows cumulative_trapezoid/cumsum/zeros/slicing; absolute-maximum idiom table (sa/idioms.py)."),
    "C09": ("type inference by abstract interpretation: one typing obligation per cumulative measure "
            "(length, monotone, sign, degree in record and dt, parity, quadrature kind, source series)",
            "Derives for all records at once that each of the seven series has the record's length, is non-negative and "
            "non-decreasing, is even in the record, scales as alpha^2 or |alpha| and with the stated power of dt, and uses the "
            "stated quadrature on the stated source; for standardised CAV: length, non-negativity, monotonicity (accumulator "
            "argument), the 0.025 g gate on the window's peak |a|. Final numerical values are not examined.",
            "Trusted: API rows; literal constants are compared with the numbers in the property statement (9.81, 0.025)."),
    "C10": ("abstract interpretation with comparison-site enumeration: strictness and orientation of every threshold "
            "comparison, equal-degree (scale-invariance) typing of both sides, first/last-of-same-index-array provenance",
            "Decides the structure of the masks for every record: both significant-duration comparisons are strict with start on "
            "the lower and end on the upper side (also through the deprecated forwarders), both sides have equal degree and even "
            "parity so the result is scale- and sign-invariant and proportional to dt, start/end are the first/last element of "
            "one ascending index array in (start, end) order with a non-negative difference, the user measure is honoured. "
            "Shift-by-k and widening corollaries are consequences for monotone measures (typed in C09), not checked directly.",
            "Trusted: API rows np.where/cumsum/cumulative_trapezoid; user-supplied measure modelled as an opaque positive-homogeneous value."),
}
NOT_YET = "check not built yet (build in progress, see DESIGN.md section 8)"

m = {
    "version": 1,
    "setup_cmd": "true",
    "hooks": {"guard": "ENG_TOOLS_EQSIG_VERIF",
              "enable": "no hooks: every check is static (ast over /repo's working tree) and never executes eqsig",
              "baseline_off_cmd": "cd /repo && /venv/bin/python -m pytest -q -p no:cacheprovider",
              "source_commits": [], "add_only": True},
    "engines": [{"name": "sa", "path": "sa/", "serves_properties": sorted(CLAIMS),
                 "kind_free_text": "repository-specific static analyser: ast loader/resolver, abstract interpreter "
                                   "(origin/kind/shape/degree/linearity/parity/sign/monotone domains), typestate facts, "
                                   "NumPy/SciPy API table"}],
    "checks": [],
    "notes": "All checks: ./check <id> [--tier quick|thorough]; exit 0 held / 1 VIOLATION / 2 ANALYSIS-ERROR "
             "(inconclusive, never a pass). Self-test of the rules: python -m selftest.run (mutants + twins).",
    "not_applicable": [],
}
for i in ids:
    if i in CLAIMS:
        tech, text, note = CLAIMS[i]
        m["checks"].append({
            "property_id": i, "quick_cmd": "./check %s --tier quick" % i,
            "thorough_cmd": "./check %s --tier thorough" % i,
            "evidence_file": "/verif/evidence/%s.json" % i,
            "replay_cmd_template": "./check %s --replay {path}" % i, "engine": "sa",
            "level_claimed": {"category": "other", "text": text, "design_ref": "DESIGN.md section 4, " + i},
            "level_note": note, "technique": "static analysis: " + tech})
    else:
        m["not_applicable"].append({"property_id": i, "reason": NOT_YET})
json.dump(m, open(os.path.join(VERIF, "MANIFEST.json"), "w"), indent=1)
print("checks:", [c["property_id"] for c in m["checks"]])

#!/bin/sh
# usage: tools/trypatch.sh <patch.diff> <prop> [<prop> ...]   -- applies the patch to a scratch copy of /repo (outside /repo and /verif), runs the checks, removes the copy
P=$1; shift
D=$(mktemp -d /tmp/eqsig_try_XXXXXX)
mkdir -p $D/repo && cp -r /repo/eqsig /repo/tests /repo/setup.py $D/repo/ 2>/dev/null
(cd $D/repo && git init -q . >/dev/null 2>&1; git apply "$P") || { echo "apply failed"; rm -rf $D; exit 3; }
for p in "$@"; do
  VERIF_EVIDENCE_DIR=$D/ev VERIF_REPLAY_DIR=$D/ev /verif/check $p --repo $D/repo 2>&1 | grep -E "^(REFUTED|INCONCLUSIVE|ANALYSIS-ERROR|VIOLATION|KNOWN)" | cut -c1-${TRYW:-420}
  echo "== $p done"
done
rm -rf $D

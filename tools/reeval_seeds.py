"""Re-run the own-property check on every kept seeded change (scratch copy of /repo/eqsig outside /repo and /verif, removed afterwards) and bring
meta.json's `checks` up to date (the first-run outcome is kept in `history`).  usage: reeval_seeds.py [round]"""
import json, os, shutil, subprocess, sys, tempfile
from concurrent.futures import ThreadPoolExecutor
VERIF = os.path.dirname(os.path.dirname(os.path.abspath(__file__)))
rnd = sys.argv[1] if len(sys.argv) > 1 else None


def one(d):
    mp = os.path.join(VERIF, "seeded", d, "meta.json")
    meta = json.load(open(mp))
    p = meta["property"]
    tmp = tempfile.mkdtemp(prefix="eqsig_rs_")
    try:
        shutil.copytree("/repo/eqsig", os.path.join(tmp, "eqsig"), ignore=shutil.ignore_patterns("__pycache__"))
        r = subprocess.run(["git", "apply", "--include=eqsig/*", os.path.join(VERIF, "seeded", d, "patch.diff")], cwd=tmp, capture_output=True, text=True,
                           env=dict(os.environ, GIT_CEILING_DIRECTORIES=os.path.dirname(tmp)))
        if r.returncode:
            return d, None, "patch does not apply"
        env = dict(os.environ, VERIF_EVIDENCE_DIR=os.path.join(tmp, "ev"), VERIF_REPLAY_DIR=os.path.join(tmp, "rp"))
        r = subprocess.run([os.path.join(VERIF, "check"), p, "--repo", tmp], capture_output=True, text=True, env=env, timeout=300)
        lines = [l for l in (r.stdout + r.stderr).splitlines() if l.startswith(("REFUTED", "INCONCLUSIVE", "ANALYSIS-ERROR"))]
        return d, r.returncode, (lines or [""])[0][:300]
    finally:
        shutil.rmtree(tmp, ignore_errors=True)


ds = sorted(x for x in os.listdir(os.path.join(VERIF, "seeded")) if os.path.isdir(os.path.join(VERIF, "seeded", x)) and (rnd is None or "-r%s-" % rnd in x))
with ThreadPoolExecutor(12) as ex:
    res = list(ex.map(one, ds))
for d, rc, line in res:
    mp = os.path.join(VERIF, "seeded", d, "meta.json")
    meta = json.load(open(mp))
    ck = meta.setdefault("checks", {})
    was = ck.get("caught_by_own_property")
    now = rc == 1
    hist = ck.get("history") or ("reported by the checks as they stood before the round" if was else "missed by the checks as they stood before the round")
    if now and not was and "reported after strengthening" not in hist:
        hist = hist.split(";")[0] + "; reported after strengthening (DESIGN.md 9)"
    if not now and rc == 2:
        hist = hist.split(";")[0] + "; answered inconclusive (exit 2) now: " + line[:160]
    ck["caught_by_own_property"] = now
    ck["own_check_exit"] = rc
    ck["history"] = hist
    if now:
        ck["first_report"] = line
    json.dump(meta, open(mp, "w"), indent=1)
    print(d, rc, "caught" if now else ("INCONCLUSIVE" if rc == 2 else "SILENT"), line[:110])

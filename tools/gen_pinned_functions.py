"""Writes sa/pinned_functions.json: the qualified names of every function and method of the package on the tree the checks were
confirmed on.  sa/normalise.py sees through (inlines) functions that are NOT in this table: a helper introduced later is, by
definition, not something any rule knows by name."""
import ast
import json
import os
import sys

VERIF = os.path.dirname(os.path.dirname(os.path.abspath(__file__)))
repo = sys.argv[1] if len(sys.argv) > 1 else "/repo"
names = []
for dirpath, dirnames, files in os.walk(os.path.join(repo, "eqsig")):
    dirnames[:] = sorted(d for d in dirnames if d != "__pycache__")
    for fn in sorted(files):
        if not fn.endswith(".py"):
            continue
        path = os.path.join(dirpath, fn)
        rel = os.path.relpath(path, repo)[:-3].split(os.sep)
        if rel[-1] == "__init__":
            rel = rel[:-1]
        mod = ".".join(rel)
        tree = ast.parse(open(path, encoding="utf-8").read())
        for n in tree.body:
            if isinstance(n, ast.FunctionDef):
                names.append(mod + "." + n.name)
            elif isinstance(n, ast.ClassDef):
                for m in n.body:
                    if isinstance(m, ast.FunctionDef):
                        names.append(mod + "." + n.name + "." + m.name)
json.dump(sorted(set(names)), open(os.path.join(VERIF, "sa", "pinned_functions.json"), "w"), indent=0)
print(len(set(names)), "functions")

"""Keep the evaluated, valid twins of one round: <root>/<prop>/out/{twinK.diff, equivK.py, noteK.json, evalK.json} ->
twins/<prop>-t<round>-<k>/{patch.diff, equiv.py, note.json, first_eval.json}.  usage: keep_twins.py <round> <root> [props]"""
import json, os, shutil, sys
round_, root = sys.argv[1], sys.argv[2]
only = set(sys.argv[3].split(",")) if len(sys.argv) > 3 else None
VERIF = os.path.dirname(os.path.dirname(os.path.abspath(__file__)))
n = 0
for p in ["C%02d" % i for i in range(1, 21)]:
    if only and p not in only:
        continue
    d = os.path.join(root, p, "out")
    for k in (1, 2, 3):
        ev = os.path.join(d, "eval%d.json" % k)
        if not os.path.exists(ev):
            continue
        r = json.load(open(ev))
        if not r.get("valid"):
            print("NOT VALID", p, k, r.get("error"), r.get("tests_rc"), r.get("equiv_rc"))
            continue
        out = os.path.join(VERIF, "twins", "%s-t%s-%d" % (p, round_, k))
        os.makedirs(out, exist_ok=True)
        shutil.copy(os.path.join(d, "twin%d.diff" % k), os.path.join(out, "patch.diff"))
        shutil.copy(os.path.join(d, "equiv%d.py" % k), os.path.join(out, "equiv.py"))
        if os.path.exists(os.path.join(d, "note%d.json" % k)):
            shutil.copy(os.path.join(d, "note%d.json" % k), os.path.join(out, "note.json"))
        if not os.path.exists(os.path.join(out, "first_eval.json")):
            shutil.copy(ev, os.path.join(out, "first_eval.json"))
        n += 1
        print("%s-t%s-%d alarms=%s inconclusive=%s" % (p, round_, k, r.get("alarms"), r.get("inconclusive")))
print(n, "kept")

"""Rebase the kept patches (seeded/, twins/, and optionally a directory of candidate seeds) onto /repo's current tree after a `fix:` commit.
usage: rebase_corpus.py <old-commit> [extra dir with */out/*.diff]
A patch that no longer applies is applied to the old tree, the fix is replayed on the result as the textual edits listed in EDITS (only where the
old text is still present -- a patch that rewrote such a line itself is reported for a look), and the patch is re-derived against the new tree."""
import glob, os, shutil, subprocess, sys, tempfile
VERIF = os.path.dirname(os.path.dirname(os.path.abspath(__file__)))
OLD = sys.argv[1]
EDITS = [("eqsig/im.py", "from scipy.integrate import cumulative_trapezoid\n", "from scipy.integrate import cumulative_trapezoid, trapezoid\n"),
         ("eqsig/im.py", "np.trapz(", "trapezoid("),
         ("eqsig/single.py", "import numpy as np\n\nfrom eqsig import exceptions\n", "import numpy as np\nfrom scipy.integrate import trapezoid\n\nfrom eqsig import exceptions\n"),
         ("eqsig/single.py", "np.trapz(", "trapezoid("),
         ("eqsig/fns/frequency.py", "import numpy as np\n\n\ndef get_sig_freq_range", "import numpy as np\nfrom scipy.integrate import trapezoid\n\n\ndef get_sig_freq_range"),
         ("eqsig/fns/frequency.py", "np.trapz(", "trapezoid(")]       # F17 (earlier repairs were replayed when they were made: F15, F16)


def sh(cmd, cwd=None):
    r = subprocess.run(cmd, cwd=cwd, shell=isinstance(cmd, str), capture_output=True, text=True)
    return r.returncode, r.stdout + r.stderr


def tree(commit, dst):
    os.makedirs(dst)
    sh("git -C /repo archive %s eqsig | tar -x -C %s" % (commit, dst))
    sh("git init -q . && git add -A && git -c user.email=x@x -c user.name=x commit -qm base", cwd=dst)


patches = sorted(glob.glob(os.path.join(VERIF, "seeded", "*", "patch.diff")) + glob.glob(os.path.join(VERIF, "twins", "*", "patch.diff")))
if len(sys.argv) > 2:
    patches += sorted(glob.glob(os.path.join(sys.argv[2], "*", "out", "mut*.diff")) + glob.glob(os.path.join(sys.argv[2], "*", "out", "twin*.diff")))
tmp = tempfile.mkdtemp(prefix="eqsig_rb_")
try:
    new, old = os.path.join(tmp, "new"), os.path.join(tmp, "old")
    tree("HEAD", new)
    tree(OLD, old)
    n_ok = n_rb = 0
    for p in patches:
        sh("git checkout -q -- . && git clean -fdq", cwd=new)
        rc, _ = sh(["git", "apply", "--check", p], cwd=new)
        if rc == 0:
            n_ok += 1
            continue
        sh("git checkout -q -- . && git clean -fdq", cwd=old)
        rc, o = sh(["git", "apply", p], cwd=old)
        if rc:
            print("DOES NOT APPLY TO THE OLD TREE EITHER", p, o[:120])
            continue
        flagged = []
        for f, a, b in EDITS:
            fp = os.path.join(old, f)
            if os.path.exists(fp):
                s = open(fp).read()
                base = subprocess.run(["git", "show", "%s:%s" % (OLD, f)], cwd="/repo", capture_output=True, text=True).stdout
                if s.count(a) != base.count(a):
                    flagged.append("%s: %d of %d old grid lines left" % (f, s.count(a), base.count(a)))
                open(fp, "w").write(s.replace(a, b))
        # copy the patched+fixed old tree over the new tree and diff
        sh("git checkout -q -- . && git clean -fdq", cwd=new)
        sh("rsync -a --delete --exclude .git %s/ %s/" % (old, new))
        sh("git add -A -N .", cwd=new)
        rc, d = sh("git diff -- eqsig", cwd=new)
        open(p, "w").write(d)
        n_rb += 1
        print("rebased", os.path.relpath(p, VERIF) if p.startswith(VERIF) else p, ("  LOOK: " + "; ".join(flagged)) if flagged else "")
    print("%d apply unchanged, %d rebased" % (n_ok, n_rb))
finally:
    shutil.rmtree(tmp, ignore_errors=True)

"""Mutation sweep (a measuring instrument for the checks, never part of one): small syntactic mutants of the anchored code regions,
kept when the 63 tests still pass, then shown to all 20 checks.

usage: mutsweep.py gen <outdir>            enumerate mutants of the regions named by the properties' anchors -> <outdir>/mutants.json
       mutsweep.py run <outdir> [--jobs N] apply each mutant to a scratch copy (outside /repo and /verif, removed afterwards), run the tests,
                                           and for survivors every check with --repo <copy>; results -> <outdir>/results.jsonl
       mutsweep.py report <outdir>         table of survivors: reported by which checks / by none

The survivors no check reports are *candidates*: a mutant may be equivalent, or break nothing any property states.  They are triaged
by reading (DESIGN.md 9.14); nothing here decides a property."""
import ast
import copy
import json
import os
import re
import shutil
import subprocess
import sys
import tempfile
from concurrent.futures import ProcessPoolExecutor

VERIF = os.path.dirname(os.path.dirname(os.path.abspath(__file__)))
REPO = os.environ.get("VERIF_REPO", "/repo")
PY = "/venv/bin/python"


def regions():
    """(file, lo, hi) -> property ids, from the `where` fields of the anchors"""
    out = {}
    with open(os.path.join(VERIF, "properties.jsonl"), encoding="utf-8") as f:
        for line in f:
            d = json.loads(line)
            for grp in ("mechanism", "state"):
                for a in d["anchors"].get(grp) or []:
                    for part in (a.get("where") or "").split(","):
                        part = part.strip()
                        m = re.match(r"(eqsig/[\w/]+\.py):(\d+)(?:-(\d+))?", part)
                        if m:
                            last_file = m.group(1)
                            lo, hi = int(m.group(2)), int(m.group(3) or m.group(2))
                            out.setdefault((last_file, lo, hi), set()).add(d["id"])
    return out


class Site(object):
    def __init__(self, file, lineno, col, kind, desc, apply):
        self.file, self.lineno, self.col, self.kind, self.desc, self.apply = file, lineno, col, kind, desc, apply


CMP = {ast.Lt: [ast.LtE, ast.Gt], ast.LtE: [ast.Lt], ast.Gt: [ast.GtE, ast.Lt], ast.GtE: [ast.Gt], ast.Eq: [ast.NotEq], ast.NotEq: [ast.Eq]}
BIN = {ast.Add: [ast.Sub], ast.Sub: [ast.Add], ast.Mult: [ast.Div], ast.Div: [ast.Mult], ast.FloorDiv: [ast.Div], ast.Pow: [ast.Mult]}


def sites_of(tree, file, inrange):
    """yield (lineno, kind, description, path) where path locates the node in a fresh copy of the tree"""
    out = []
    nodes = list(ast.walk(tree))
    for idx, n in enumerate(nodes):
        ln = getattr(n, "lineno", None)
        if ln is None or not inrange(ln):
            continue
        if isinstance(n, ast.Compare) and len(n.ops) == 1 and type(n.ops[0]) in CMP:
            for alt in CMP[type(n.ops[0])]:
                out.append((idx, ln, "cmp", "%s -> %s" % (type(n.ops[0]).__name__, alt.__name__), ("cmp", alt)))
        elif isinstance(n, ast.BinOp) and type(n.op) in BIN:
            for alt in BIN[type(n.op)]:
                out.append((idx, ln, "binop", "%s -> %s" % (type(n.op).__name__, alt.__name__), ("binop", alt)))
        elif isinstance(n, ast.Constant) and isinstance(n.value, (int, float)) and not isinstance(n.value, bool):
            v = n.value
            alts = [v + 1, v - 1] if isinstance(v, int) else [v * 2, v * 0.5, -v]
            if v == 0:
                alts = [1]
            for a in alts[:2]:
                out.append((idx, ln, "const", "%r -> %r" % (v, a), ("const", a)))
        elif isinstance(n, ast.Constant) and isinstance(n.value, bool):
            out.append((idx, ln, "bool", "%r -> %r" % (n.value, not n.value), ("const", not n.value)))
        elif isinstance(n, ast.UnaryOp) and isinstance(n.op, ast.USub) and not isinstance(n.operand, ast.Constant):
            out.append((idx, ln, "neg", "drop unary minus", ("unwrap", None)))
        elif isinstance(n, ast.UnaryOp) and isinstance(n.op, ast.Not):
            out.append((idx, ln, "not", "drop not", ("unwrap", None)))
        elif isinstance(n, ast.Call) and ast.unparse(n.func) in ("abs", "np.abs", "np.absolute", "np.conj", "np.flip", "np.flipud", "np.sign", "int", "np.ceil") \
                and len(n.args) >= 1:
            out.append((idx, ln, "unwrap-call", "drop %s(...)" % ast.unparse(n.func), ("firstarg", None)))
        elif isinstance(n, ast.Call) and len(n.args) >= 2 and not any(isinstance(a, ast.Starred) for a in n.args) and \
                ast.unparse(n.args[0]) != ast.unparse(n.args[1]):
            out.append((idx, ln, "argswap", "swap first two arguments of %s" % ast.unparse(n.func)[:30], ("argswap", None)))
        elif isinstance(n, ast.Slice):
            if n.lower is not None:
                out.append((idx, ln, "slice", "lower + 1", ("slice", ("lower", 1))))
            if n.upper is not None:
                out.append((idx, ln, "slice", "upper + 1", ("slice", ("upper", 1))))
                out.append((idx, ln, "slice", "upper - 1", ("slice", ("upper", -1))))
        elif isinstance(n, ast.keyword) and n.arg == "axis" and isinstance(n.value, ast.Constant) and n.value.value in (0, 1):
            pass  # covered by const
        elif isinstance(n, ast.BoolOp):
            out.append((idx, ln, "boolop", "and <-> or", ("boolop", None)))
        elif isinstance(n, ast.If) and n.orelse and not (len(n.orelse) == 1 and isinstance(n.orelse[0], ast.If)):
            pass
    return out


def mutate(src, idx, spec):
    tree = ast.parse(src)
    n = list(ast.walk(tree))[idx]
    kind, arg = spec
    repl = None
    if kind == "cmp":
        n.ops = [arg()]
    elif kind == "binop":
        n.op = arg()
    elif kind == "const":
        n.value = arg
    elif kind == "unwrap":
        repl = n.operand
    elif kind == "firstarg":
        repl = n.args[0]
    elif kind == "argswap":
        n.args[0], n.args[1] = n.args[1], n.args[0]
    elif kind == "slice":
        fld, d = arg
        cur = getattr(n, fld)
        setattr(n, fld, ast.BinOp(left=cur, op=ast.Add() if d > 0 else ast.Sub(), right=ast.Constant(value=abs(d))))
    elif kind == "boolop":
        n.op = ast.Or() if isinstance(n.op, ast.And) else ast.And()
    if repl is not None:
        class R(ast.NodeTransformer):
            def visit(self, node):
                if node is n:
                    return repl
                return self.generic_visit(node)
        tree = R().visit(tree)
    return ast.unparse(ast.fix_missing_locations(tree)) + "\n"


SPEC_NAMES = {"LtE": ast.LtE, "Lt": ast.Lt, "Gt": ast.Gt, "GtE": ast.GtE, "Eq": ast.Eq, "NotEq": ast.NotEq, "Add": ast.Add, "Sub": ast.Sub,
              "Mult": ast.Mult, "Div": ast.Div}


def gen(outdir):
    os.makedirs(outdir, exist_ok=True)
    reg = regions()
    byfile = {}
    for (f, lo, hi), pids in reg.items():
        byfile.setdefault(f, []).append((lo, hi, sorted(pids)))
    muts = []
    for f, rs in sorted(byfile.items()):
        with open(os.path.join(REPO, f), encoding="utf-8") as fh:
            src = fh.read()
        tree = ast.parse(src)
        # skip docstrings and __main__ blocks
        skip = set()
        for n in ast.walk(tree):
            if isinstance(n, ast.If) and "__main__" in ast.unparse(n.test):
                skip |= set(range(n.lineno, (n.end_lineno or n.lineno) + 1))
            if isinstance(n, ast.Expr) and isinstance(n.value, ast.Constant) and isinstance(n.value.value, str):
                skip |= set(range(n.lineno, (n.end_lineno or n.lineno) + 1))
            if isinstance(n, ast.Call) and ast.unparse(n.func) in ("print", "deprecation", "warnings.warn"):
                skip |= set(range(n.lineno, (n.end_lineno or n.lineno) + 1))

        def inrange(ln, rs=rs, skip=skip):
            return ln not in skip and any(lo <= ln <= hi for lo, hi, _ in rs)
        for idx, ln, kind, desc, spec in sites_of(tree, f, inrange):
            pids = sorted({p for lo, hi, ps in rs if lo <= ln <= hi for p in ps})
            sk, sa = spec
            muts.append(dict(id="m%05d" % len(muts), file=f, line=ln, kind=kind, desc=desc, idx=idx,
                             spec=[sk, sa.__name__ if isinstance(sa, type) else sa], props=pids,
                             text=src.splitlines()[ln - 1].strip()[:120]))
    with open(os.path.join(outdir, "mutants.json"), "w", encoding="utf-8") as fh:
        json.dump(muts, fh, indent=0)
    print("%d mutants in %d files" % (len(muts), len(byfile)))


def sh(cmd, cwd=None, timeout=600, env=None):
    try:
        r = subprocess.run(cmd, cwd=cwd, capture_output=True, text=True, timeout=timeout, env=env)
        return r.returncode, r.stdout + r.stderr
    except subprocess.TimeoutExpired:
        return 124, "timeout"


def run_one(m):
    tmp = tempfile.mkdtemp(prefix="eqsig_mut_")
    try:
        for d in ("eqsig", "tests"):
            if os.path.isdir(os.path.join(REPO, d)):
                shutil.copytree(os.path.join(REPO, d), os.path.join(tmp, d), ignore=shutil.ignore_patterns("__pycache__"))
        for fn in os.listdir(REPO):
            if fn.endswith((".cfg", ".ini", ".toml", ".py")) and os.path.isfile(os.path.join(REPO, fn)):
                shutil.copy(os.path.join(REPO, fn), os.path.join(tmp, fn))
        p = os.path.join(tmp, m["file"])
        with open(p, encoding="utf-8") as fh:
            src = fh.read()
        sk, sa = m["spec"]
        spec = (sk, SPEC_NAMES[sa] if sk in ("cmp", "binop") else (tuple(sa) if sk == "slice" else sa))
        try:
            new = mutate(src, m["idx"], spec)
            compile(new, p, "exec")
        except Exception as e:
            return dict(id=m["id"], status="invalid", why=str(e)[:100])
        if ast.dump(ast.parse(new)) == ast.dump(ast.parse(src)):
            return dict(id=m["id"], status="noop")
        with open(p, "w", encoding="utf-8") as fh:
            fh.write(new)
        env = dict(os.environ, PYTHONPATH=tmp, PYTHONDONTWRITEBYTECODE="1")
        if m.get("known_survivor"):
            rc = 0          # the 63 tests were run on this mutant by an earlier sweep of the same tree (--survivors-of): not repeated
        else:
            rc, o = sh([PY, "-m", "pytest", "-q", "-p", "no:cacheprovider", "-x"], cwd=tmp, env=env, timeout=300)
        if rc != 0:
            return dict(id=m["id"], status="killed-by-tests")
        res = {}
        ev = tempfile.mkdtemp(prefix="eqsig_mut_ev_")
        env2 = dict(os.environ, VERIF_EVIDENCE_DIR=ev, VERIF_REPLAY_DIR=ev)
        for i in range(1, 21):
            pid = "C%02d" % i
            rc, o = sh([os.path.join(VERIF, "check"), pid, "--repo", tmp], env=env2, timeout=300)
            if rc != 0:
                first = [l for l in o.splitlines() if l.startswith(("REFUTED", "INCONCLUSIVE", "ANALYSIS-ERROR"))][:1]
                res[pid] = dict(exit=rc, first=(first[0][:200] if first else ""))
        shutil.rmtree(ev, ignore_errors=True)
        return dict(id=m["id"], status="survivor", checks=res)
    finally:
        shutil.rmtree(tmp, ignore_errors=True)


def run(outdir, jobs):
    with open(os.path.join(outdir, "mutants.json"), encoding="utf-8") as fh:
        muts = json.load(fh)
    done = set()
    rp = os.path.join(outdir, "results.jsonl")
    if os.path.exists(rp):
        with open(rp, encoding="utf-8") as fh:
            done = {json.loads(l)["id"] for l in fh if l.strip()}
    todo = [m for m in muts if m["id"] not in done]
    if "--survivors-of" in sys.argv:
        prev = {}
        with open(os.path.join(sys.argv[sys.argv.index("--survivors-of") + 1], "results.jsonl"), encoding="utf-8") as fh:
            for l in fh:
                if l.strip():
                    r_ = json.loads(l)
                    prev[r_["id"]] = r_["status"]
        todo = [dict(m, known_survivor=True) for m in todo if prev.get(m["id"]) == "survivor"]
    with ProcessPoolExecutor(max_workers=jobs) as ex, open(rp, "a", encoding="utf-8") as out:
        for k, r in enumerate(ex.map(run_one, todo, chunksize=4)):
            out.write(json.dumps(r) + "\n")
            out.flush()
            if k % 100 == 0:
                print(k, "/", len(todo), flush=True)


def report(outdir):
    with open(os.path.join(outdir, "mutants.json"), encoding="utf-8") as fh:
        muts = {m["id"]: m for m in json.load(fh)}
    rows = []
    with open(os.path.join(outdir, "results.jsonl"), encoding="utf-8") as fh:
        for l in fh:
            if l.strip():
                rows.append(json.loads(l))
    st = {}
    for r in rows:
        st[r["status"]] = st.get(r["status"], 0) + 1
    print("status:", st)
    surv = [r for r in rows if r["status"] == "survivor"]
    caught = [r for r in surv if any(v["exit"] == 1 for v in r["checks"].values())]
    inc = [r for r in surv if r not in caught and any(v["exit"] == 2 for v in r["checks"].values())]
    miss = [r for r in surv if r not in caught and r not in inc]
    print("survivors %d: reported %d, inconclusive only %d, silent %d" % (len(surv), len(caught), len(inc), len(miss)))
    with open(os.path.join(outdir, "silent.txt"), "w", encoding="utf-8") as fh:
        for r in inc + miss:
            m = muts[r["id"]]
            fh.write("%s %s:%d [%s] %s | %s | props %s%s\n" % (m["id"], m["file"], m["line"], m["kind"], m["desc"], m["text"], ",".join(m["props"]),
                                                            "  (exit 2: %s)" % ",".join(k for k, v in r["checks"].items() if v["exit"] == 2) if r in inc else ""))
    print("silent / inconclusive list ->", os.path.join(outdir, "silent.txt"))


if __name__ == "__main__":
    cmd, outdir = sys.argv[1], sys.argv[2]
    if cmd == "gen":
        gen(outdir)
    elif cmd == "run":
        jobs = int(sys.argv[sys.argv.index("--jobs") + 1]) if "--jobs" in sys.argv else 14
        run(outdir, jobs)
    else:
        report(outdir)

"""Writes sa/pinned_signatures.json: positional parameter names (in order, without self/cls) of every public function and method of the package on
the tree the checks were confirmed on.  A caller that passes arguments by position relies on this order; tyob.positional_order compares it."""
import ast, json, os, sys
VERIF = os.path.dirname(os.path.dirname(os.path.abspath(__file__)))
repo = sys.argv[1] if len(sys.argv) > 1 else "/repo"
out = {}
for dirpath, dirnames, files in os.walk(os.path.join(repo, "eqsig")):
    dirnames[:] = sorted(d for d in dirnames if d != "__pycache__")
    for fn in sorted(files):
        if not fn.endswith(".py"):
            continue
        path = os.path.join(dirpath, fn)
        rel = os.path.relpath(path, repo)[:-3].split(os.sep)
        if rel[-1] == "__init__":
            rel = rel[:-1]
        mod = ".".join(rel)
        tree = ast.parse(open(path, encoding="utf-8").read())
        for n in tree.body:
            if isinstance(n, ast.FunctionDef) and not n.name.startswith("_"):
                out[mod + "." + n.name] = [a.arg for a in n.args.args]
            elif isinstance(n, ast.ClassDef):
                for m in n.body:
                    if isinstance(m, ast.FunctionDef) and (not m.name.startswith("_") or m.name == "__init__"):
                        out[mod + "." + n.name + "." + m.name] = [a.arg for a in m.args.args][1:]
json.dump(out, open(os.path.join(VERIF, "sa", "pinned_signatures.json"), "w"), indent=0, sort_keys=True)
print(len(out), "signatures")
